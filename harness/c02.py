"""C02 — stationary distributions / GTH: correspondence + spec run.

Ops sent to qedriver_c02 (doubles cross as bit patterns, the model reads their exact values):
  gth  n= jit= A=      -> m=<effective size> f=<Float-instance bits> q=<exact Rat solution>
  stat n= P=           -> cls=<recurrent classes> f=<rows, Float bits> q=<rows, exact>   | ERR:ValueError

Compared: supports / classes / number of rows / error kinds exactly; the jitted kernel's bits exactly
against the model's Float instance; the code's doubles against the model's exact Rat solution
component-wise relatively (1e-12 * n^3).  The spec oracle below (Fractions: transitive closure + Gaussian
elimination, nothing shared with the Lean model) judges the real code's outputs on every case.
"""
import os
from fractions import Fraction

import numpy as np

from .common import Case, fx, fxm, fxs, parse_rats, parse_ratm, parse_intm, unfx

FILES = ["quantecon/markov/gth_solve.py", "quantecon/markov/core.py", "quantecon/_graph_tools.py",
         "quantecon/util/compat.py"]


# ----------------------------------------------------------------------------
# exact oracle (independent of the model)


def frm(A):
    return [[Fraction(float(v)) for v in row] for row in A]


def closure(n, adj):
    R = [[(i == j) or adj[i][j] for j in range(n)] for i in range(n)]
    for k in range(n):
        for i in range(n):
            if R[i][k]:
                Ri, Rk = R[i], R[k]
                for j in range(n):
                    if Rk[j]:
                        Ri[j] = True
    return R


def rec_classes(F):
    """recurrent classes (closed communicating classes) of the digraph of non-zero off-diagonal entries"""
    n = len(F)
    adj = [[i != j and F[i][j] != 0 for j in range(n)] for i in range(n)]
    R = closure(n, adj)
    out, seen = [], set()
    for i in range(n):
        if i in seen:
            continue
        cls = [j for j in range(n) if R[i][j] and R[j][i]]
        seen.update(cls)
        if all(R[j][i] for j in range(n) if R[i][j]):
            out.append(cls)
    return out, R


def exact_null(F, cls):
    """the probability vector x on cls with x (A - D) = 0 (D = off-diagonal row sums), by Gaussian elimination"""
    m = len(cls)
    if m == 1:
        return [Fraction(1)]
    Q = [[F[cls[a]][cls[b]] for b in range(m)] for a in range(m)]
    for a in range(m):
        Q[a][a] = -sum(Q[a][b] for b in range(m) if b != a)
    # unknown x (row vector): Q^T x = 0, last equation replaced by sum x = 1
    Mx = [[Q[b][a] for b in range(m)] + [Fraction(0)] for a in range(m)]
    Mx[m - 1] = [Fraction(1)] * m + [Fraction(1)]
    for c in range(m):
        p = next((r for r in range(c, m) if Mx[r][c] != 0), None)
        if p is None:
            raise ArithmeticError("singular class system")
        Mx[c], Mx[p] = Mx[p], Mx[c]
        pv = Mx[c][c]
        Mx[c] = [v / pv for v in Mx[c]]
        for r in range(m):
            if r != c and Mx[r][c] != 0:
                f = Mx[r][c]
                Mx[r] = [a - f * b for a, b in zip(Mx[r], Mx[c])]
    return [Mx[a][m] for a in range(m)]


def tol_for(n):
    return Fraction(n ** 3, 10 ** 12)


def xerr(f, e):
    """rounding-factor recurrence of QE.C02.gthSolve_accuracy (same as QEModel/C02.lean `xerr`;
    the two are compared through the driver op `ebound`)"""
    tot = 0
    while f > 0:
        f -= 1
        tot += 2 * e + (f + 1) + 1 + 1 + (f + 1)
        e = 3 * e + (f + 1) + 3
    return tot


def err_bound(n):
    return 2 * xerr(n - 1, 0) + n + 1


U = Fraction(1, 2 ** 53)


def thm_tol_any(n):
    """proved bound for EVERY evaluation order of the sums / dot products (QE.C02.gthSolveAnyOrder_accuracy,
    gthSolveNp_accuracy): E(n)+1 factors — used for the use_jit=False twin (NumPy pairwise sum, BLAS dot)"""
    E = err_bound(n) + 1
    return E * U / (1 - E * U)


def thm_tol(n):
    """(1+u)^E(n) - 1 at u = 2^-53: the proved relative-error bound of the sequential (Numba) kernel in the
    standard model (no underflow/overflow), exact as a Fraction upper bound E u / (1 - E u)"""
    E = err_bound(n)
    return E * U / (1 - E * U)


def check_row(x, F, cls, pi, tol):
    """x (doubles) is the stationary vector of class cls: support, accuracy, sum, invariance. -> None | reason"""
    n = len(F)
    xs = [Fraction(float(v)) for v in x]
    if any(not np.isfinite(float(v)) for v in x):
        return "non-finite entry"
    sup = [i for i in range(n) if xs[i] != 0]
    if sup != list(cls):
        return "support %s is not the recurrent class %s" % (sup, list(cls))
    if any(v < 0 for v in xs):
        return "negative entry"
    for a, i in enumerate(cls):
        if abs(xs[i] - pi[a]) > tol * pi[a]:
            return "component %d: %r vs exact %s (rel err %.3e)" % (
                i, float(x[i]), float(pi[a]), float(abs(xs[i] - pi[a]) / pi[a]))
    if abs(sum(xs) - 1) > Fraction(4 * n, 2 ** 52):
        return "entries sum to 1%+.3e" % float(sum(xs) - 1)
    # invariance x (A - D) = 0 component-wise relative (D = row sums: for a stochastic matrix x P = x)
    rs = [sum(F[i][j] for j in range(n) if j != i) for i in range(n)]
    for j in cls:
        inflow = sum(xs[i] * F[i][j] for i in range(n) if i != j)
        res = inflow - xs[j] * rs[j]
        if abs(res) > 2 * tol * (inflow + xs[j] * rs[j]):
            return "not invariant at component %d (residual %.3e)" % (j, float(res))
    return None


# ----------------------------------------------------------------------------
# generators


class Gen:
    def __init__(self, ctx):
        self.ctx = ctx
        self.rng = ctx.rng

    def weights(self, k, style):
        """k positive weights; style: 'dyadic' (sum a power of two), 'int', 'tiny' (some ~1e-12 .. 1e-6)"""
        r = self.rng
        if style == "dyadic":
            tot = r.choice([8, 16, 64, 1024])
            if k > tot:
                tot = 1024
            cuts = sorted(r.sample(range(1, tot), k - 1)) if k > 1 else []
            parts = [b - a for a, b in zip([0] + cuts, cuts + [tot])]
            return [Fraction(p, tot) for p in parts]
        w = [Fraction(r.randint(1, 9)) for _ in range(k)]
        if style == "tiny":
            for i in range(k):
                if r.random() < 0.4:
                    w[i] = Fraction(r.randint(1, 9), 10 ** r.choice([6, 9, 12]))
        s = sum(w)
        return [v / s for v in w]

    def chain(self, n, style=None, nclasses=None):
        """stochastic matrix (Fractions) with a planted block structure; returns (F, planted classes)"""
        r = self.rng
        style = style or r.choice(["dyadic", "dyadic", "int", "tiny"])
        perm = list(range(n))
        r.shuffle(perm)
        if nclasses is None:
            nclasses = r.choice([1, 1, 2, 3, 4]) if n >= 2 else 1
        nclasses = max(1, min(nclasses, n))
        nrec = r.randint(nclasses, n) if r.random() < 0.7 else nclasses
        nrec = max(nclasses, min(n, nrec))
        rec_states, trans = perm[:nrec], perm[nrec:]
        # split the recurrent states into nclasses non-empty groups
        cuts = sorted(r.sample(range(1, nrec), nclasses - 1)) if nclasses > 1 else []
        groups = [rec_states[a:b] for a, b in zip([0] + cuts, cuts + [nrec])]
        E = [set() for _ in range(n)]
        for g in groups:
            if len(g) == 1:
                E[g[0]].add(g[0])
                continue
            kind = r.choice(["cycle", "dense", "mixed"])
            for a in range(len(g)):                       # a Hamiltonian cycle makes the group irreducible
                E[g[a]].add(g[(a + 1) % len(g)])
            if kind != "cycle":
                for a in g:
                    for b in g:
                        if r.random() < (0.8 if kind == "dense" else 0.3):
                            E[a].add(b)
        for t_i, t in enumerate(trans):
            lower = rec_states + trans[:t_i]
            E[t].add(r.choice(lower))                      # guarantees a way out (so t is transient)
            for b in range(n):
                if r.random() < 0.25:
                    E[t].add(b)
        F = [[Fraction(0)] * n for _ in range(n)]
        for i in range(n):
            tg = sorted(E[i])
            w = self.weights(len(tg), style)
            for j, v in zip(tg, w):
                F[i][j] = v
        return F, [sorted(g) for g in groups], style

    def metzler(self, n):
        """non-negative off-diagonals (small integers / halves, many zeros), arbitrary diagonal"""
        r = self.rng
        A = [[Fraction(0)] * n for _ in range(n)]
        dens = r.choice([0.25, 0.5, 0.9])
        for i in range(n):
            for j in range(n):
                if i == j:
                    A[i][j] = Fraction(r.randint(-20, 20), 2)
                elif r.random() < dens:
                    A[i][j] = Fraction(r.randint(1, 12), r.choice([1, 2, 4]))
        return A


def to_np(F, order="C"):
    return np.array([[float(v) for v in row] for row in F], dtype=float, order=order)


def bits_of(A):
    return np.ascontiguousarray(A).view(np.uint64).copy() if A.dtype == np.float64 else None


# ----------------------------------------------------------------------------
# comparators (model output vs code output)


def mk_gth_cmp(ctx, n, jit):
    tol = tol_for(n)

    def cmp(mo, impl):
        if impl.startswith("ERR") or mo.startswith("ERR"):
            return None if mo == impl else "error kinds differ"
        parts = dict(p.split("=", 1) for p in mo.split(" "))
        x = [unfx(t) for t in impl.split(",")]
        q = parse_rats(parts["q"])
        m = int(parts["m"])
        if len(q) != len(x):
            return "length differs"
        sup_q = [i for i, v in enumerate(q) if v != 0]
        sup_x = [i for i, v in enumerate(x) if v != 0]
        if sup_q != sup_x:
            return "support differs: model %s code %s" % (sup_q, sup_x)
        if sup_x and max(sup_x) != m - 1:
            return "effective size differs: model m=%d, code's last non-zero index %d" % (m, max(sup_x))
        tt = thm_tol(n) if jit else thm_tol_any(n)
        for i, (a, b) in enumerate(zip(x, q)):
            if abs(Fraction(a) - b) > tt * b:
                return ("component %d outside the PROVED bound %.3e of the standard model (%s): code %r exact %s" % (
                    i, float(tt), "sequential kernel, E(n)" if jit else "any evaluation order, E(n)+1", a, float(b)))
            if abs(Fraction(a) - b) > tol * b:
                ctx.count("envelope-1e-12n^3:exceeded")      # cannot happen while the proved bound is the smaller one
        worst = max([abs(Fraction(a) - b) / b for a, b in zip(x, q) if b != 0] or [Fraction(0)])
        wk = "_worst_rel" if jit else "_worst_rel_np"
        ctx.extra.setdefault(wk, {})
        ctx.extra[wk][n] = max(ctx.extra[wk].get(n, Fraction(0)), worst)
        same = (parts["f"] == impl)
        ctx.count("fidelity:%s:%s" % ("jit" if jit else "numpy", "bit-identical" if same else "differs"))
        if jit and not same:
            return "Float instance of the model does not reproduce the Numba kernel's bits"
        return None
    return cmp


def mk_stat_cmp(ctx, n):
    tol = tol_for(n)

    def cmp(mo, impl):
        if impl.startswith("ERR") or mo.startswith("ERR"):
            return None if mo == impl else "error kinds differ"
        parts = dict(p.split("=", 1) for p in mo.split(" "))
        cls = parse_intm(parts["cls"])
        q = parse_ratm(parts["q"])
        rows = [[unfx(t) for t in r.split(",")] for r in impl.split(";")]
        if parts.get("closed") != "1":
            return "model's closedness certificate failed for its own classes %s" % cls
        if len(rows) != len(cls):
            return "number of rows differs: model %d code %d" % (len(cls), len(rows))
        for C, qr, xr in zip(cls, q, rows):
            sup = [i for i, v in enumerate(xr) if v != 0]
            if sup != C:
                return "support differs: model class %s code %s" % (C, sup)
            tt = thm_tol(len(C))          # gth_solve runs on the |C| x |C| restriction (Numba kernel)
            for i, (a, b) in enumerate(zip(xr, qr)):
                if abs(Fraction(a) - b) > tol * b:
                    return "component %d outside the envelope: code %r exact %s" % (i, a, float(b))
                if abs(Fraction(a) - b) > tt * b:
                    return ("component %d outside the PROVED bound %.3e of the standard model (class size %d): "
                            "code %r exact %s" % (i, float(tt), len(C), a, float(b)))
        same = (parts["f"] == impl)
        ctx.count("fidelity:stat:%s" % ("bit-identical" if same else "differs"))
        if not same:
            return "Float instance of the model does not reproduce the code's bits"
        return None
    return cmp


def rows_str(S):
    """rows of the (k x n) array, ordered by first support index, as bit patterns"""
    rows = [list(r) for r in S]
    rows.sort(key=lambda r: next((i for i, v in enumerate(r) if v != 0), len(r)))
    return ";".join(fxs(r) for r in rows), rows


# ----------------------------------------------------------------------------


def run(ctx):
    import scipy.sparse as sp
    from quantecon.markov import gth_solve
    from quantecon.markov.core import MarkovChain, mc_compute_stationary

    g = Gen(ctx)
    rng = ctx.rng
    cases = []
    nmax = ctx.n(8, 12)
    ctx.rule = ("random stochastic matrices n=1..%d with planted block structure (1-4 recurrent classes, cyclic / dense / "
                "mixed, transient states in between, random state order), entries dyadic / small-integer ratios / nearly "
                "decomposable (down to 1e-12); generator and general Metzler matrices; each through gth_solve with "
                "overwrite x use_jit x C/F order and through MarkovChain dense / CSR; a case is non-trivial when n>=3 and "
                "the matrix is not the identity; distinct by request line" % nmax)

    def spec_gth(key, A, x, F, classes, what, tol=None):
        """gth_solve's output on (possibly reducible) A must be the exact stationary vector of one recurrent class"""
        n = len(F)
        sup = [i for i in range(n) if float(x[i]) != 0]
        cl = next((c for c in classes if c == sup), None)
        if cl is None:
            ctx.spec_fail(key, "%s: support %s is not a recurrent class (classes %s)" % (what, sup, classes),
                          {"op": what, "A": fxm(A), "A_float": np.asarray(A, dtype=float).tolist(), "x": list(map(float, x))})
            return
        why = check_row(x, F, cl, exact_null(F, cl), tol if tol is not None else tol_for(n))
        if why:
            ctx.spec_fail(key, "%s: %s" % (what, why),
                          {"op": what, "A": fxm(A), "A_float": np.asarray(A, dtype=float).tolist(), "x": list(map(float, x))})

    def do_gth(A, tag, nontrivial=True):
        """A: float64 C-contiguous ndarray. Runs every configuration of the real code + two model requests."""
        n = A.shape[0]
        F = frm(A)
        classes, R = rec_classes(F)
        ctx.count("gth:classes=%d" % min(len(classes), 4))
        if len(classes) == 1 and len(classes[0]) == n:
            ctx.count("gth:irreducible")
        outs = {}
        for ow in (False, True):
            for jit in (True, False):
                for order in ("C", "F"):
                    Ain = np.array(A, order=order)
                    before = Ain.copy(order="K")
                    x = gth_solve(Ain, overwrite=ow, use_jit=jit)
                    outs[(ow, jit, order)] = x
                    changed = not np.array_equal(bits_of(before), bits_of(Ain))
                    if changed:
                        ctx.count("gth:argument-overwritten(overwrite=%s)" % ow)
                    if changed and not ow:
                        ctx.spec_fail("gth_argument_modified", "gth_solve(overwrite=False) modified its argument",
                                      {"A": fxm(A), "use_jit": jit, "order": order})
                    spec_gth("gth_solve", A, x, F, classes, "gth_solve(overwrite=%s,use_jit=%s,order=%s)" % (ow, jit, order),
                             tol=thm_tol(n) if jit else thm_tol_any(n))
        ref = outs[(False, True, "C")]
        tol = float(tol_for(n))
        for key, x in outs.items():
            same_bits = np.array_equal(bits_of(x), bits_of(ref))
            if key[1] == ref_jit and not same_bits:
                # same twin, other overwrite / memory order: the arithmetic is the same, so are the bits
                ctx.spec_fail("gth_option_dependence", "result depends on overwrite/order: %s" % (key,),
                              {"A": fxm(A), "config": key})
            if not same_bits:
                ctx.count("gth:numpy-twin-bits-differ-from-jit")
                if np.any(np.abs(x - ref) > 2 * tol * np.abs(ref)):
                    ctx.spec_fail("gth_option_dependence", "use_jit twins disagree beyond rounding: %s" % (key,),
                                  {"A": fxm(A), "config": key})
        # first index with no path to a larger index is in the support (docstring claim; counted only)
        istar = next(i for i in range(n) if not any(R[i][j] for j in range(i + 1, n)))
        ctx.count("gth:docstring-first-index-in-support:%s" % (float(ref[istar]) != 0))
        for jit in (1, 0):
            x = outs[(False, bool(jit), "C")]
            cases.append(Case("C02 gth n=%d jit=%d A=%s" % (n, jit, fxm(A)), fxs(x), nontrivial=nontrivial and n >= 3,
                              cmp=mk_gth_cmp(ctx, n, jit), tag="gth:" + tag))
        return ref

    ref_jit = True

    def do_stat(A, tag, forms=("dense", "csr")):
        n = A.shape[0]
        F = frm(A)
        classes, _ = rec_classes(F)
        ctx.count("stat:classes=%d" % min(len(classes), 4))
        ntrans = n - sum(len(c) for c in classes)
        if ntrans:
            ctx.count("stat:has-transient")
        if len(classes) >= 3 and ntrans:
            ctx.count("stat:>=3-classes-with-transient")
        pis = [exact_null(F, c) for c in classes]
        impl_strs = []
        for form in forms:
            if form == "dense":
                Pin = np.array(A, order=rng.choice("CF"))
            elif form == "csr":
                Pin = sp.csr_matrix(A)
            elif form == "csc":
                Pin = sp.csc_matrix(A)
            else:
                Pin = sp.coo_matrix(A)
            keep = Pin.copy()
            mc = MarkovChain(Pin)
            S = mc.stationary_distributions
            S2 = mc.stationary_distributions
            if S2 is not S:
                ctx.count("stat:cache-miss")
            same_in = (np.array_equal(bits_of(keep), bits_of(Pin)) if form == "dense"
                       else np.array_equal(keep.toarray(), Pin.toarray()))
            if not same_in:
                ctx.spec_fail("stat_argument_modified", "MarkovChain(P).stationary_distributions modified P (%s)" % form,
                              {"P": fxm(A), "form": form})
            s, rows = rows_str(S)
            impl_strs.append(s)
            replay = {"op": "stat", "form": form, "P": fxm(A), "P_float": A.tolist(), "got": np.asarray(S).tolist()}
            if S.ndim != 2 or S.shape[1] != n or len(rows) != len(classes):
                ctx.spec_fail("stationary_distributions", "%d rows for %d recurrent classes %s (%s)" % (
                    len(rows), len(classes), classes, form), replay)
                continue
            for x, c, pi in zip(rows, classes, pis):
                why = check_row(x, F, c, pi, tol_for(n))
                if why:
                    ctx.spec_fail("stationary_distributions", "%s input: %s" % (form, why), replay)
                    break
        if len(set(impl_strs)) > 1:
            ctx.count("stat:forms-differ-in-bits")
            ctx.spec_fail("stationary_distributions_forms", "dense and sparse inputs give different results",
                          {"P": fxm(A), "forms": forms})
        cases.append(Case("C02 stat n=%d P=%s" % (n, fxm(A)), impl_strs[0], nontrivial=n >= 3,
                          cmp=mk_stat_cmp(ctx, n), tag="stat:" + tag))

    # ---- corpus (fixed matrices, run first) ------------------------------------------------
    fixed = [
        np.array([[1.0]]),
        np.eye(2), np.eye(3),
        np.array([[0.0, 1.0], [1.0, 0.0]]),
        np.array([[0.4, 0.6], [0.2, 0.8]]),
        np.array([[0, 1, 0], [0, 0, 1], [1, 0, 0]], dtype=float),
        np.array([[1, 0, 0, 0], [0.5, 0, 0.5, 0], [0, 0, 0.5, 0.5], [0, 0, 0.25, 0.75]]),
        # three classes {0},{2,3},{5} with transient 1,4 between them
        np.array([[1, 0, 0, 0, 0, 0], [.25, .25, .25, 0, .25, 0], [0, 0, .5, .5, 0, 0], [0, 0, .75, .25, 0, 0],
                  [0, .25, 0, .25, .25, .25], [0, 0, 0, 0, 0, 1]]),
        # recurrent class at the end, transient first (the reduction never breaks early)
        np.array([[.5, .5, 0], [0, .5, .5], [0, 0, 1]]),
        # nearly decomposable
        np.array([[1 - 1e-12, 1e-12, 0], [0, 0.5, 0.5], [1e-9, 0, 1 - 1e-9]]),
    ]
    for A in fixed:
        do_gth(np.array(A, dtype=float), "fixed")
        do_stat(np.array(A, dtype=float), "fixed")

    # corpus files: one case per line, `stat <rows>` / `gth <rows>` (entries as decimal or p/q), or
    # `csr <n> | <data> | <indices> | <indptr>` (a CSR representation, stored zeros allowed)
    cdir = ctx.corpus_dir
    for fn in sorted(os.listdir(cdir)) if os.path.isdir(cdir) else []:
        if not (fn.startswith("c02_") and fn.endswith(".txt")):
            continue
        for line in open(os.path.join(cdir, fn)):
            line = line.split("#")[0].strip()
            if not line:
                continue
            kind, rest = line.split(" ", 1)
            ctx.count("corpus:" + kind)
            if kind in ("stat", "gth"):
                A = np.array([[float(Fraction(t)) for t in r.split(",")] for r in rest.split(";")], dtype=float)
                do_gth(A, "corpus")
                if kind == "stat":
                    do_stat(A, "corpus")
            elif kind == "csr":
                n_s, d_s, i_s, p_s = [t.strip() for t in rest.split("|")]
                n = int(n_s)
                data = [float(Fraction(t)) for t in d_s.split(",")]
                Psp = sp.csr_matrix((np.array(data), np.array([int(t) for t in i_s.split(",")], dtype=np.int32),
                                     np.array([int(t) for t in p_s.split(",")], dtype=np.int32)), shape=(n, n))
                A = Psp.toarray()
                Fd = frm(A)
                classes, _ = rec_classes(Fd)
                S = MarkovChain(Psp).stationary_distributions
                _, rows = rows_str(S)
                ok = len(rows) == len(classes) and all(
                    check_row(x, Fd, c, exact_null(Fd, c), tol_for(n)) is None for x, c in zip(rows, classes))
                if not ok:
                    ctx.spec_fail("csr_stored_zero", "corpus CSR input: rows %s for recurrent classes %s" % (
                        np.asarray(S).tolist(), classes), {"op": "stat-csr", "line": line})

    # ---- random stochastic matrices ------------------------------------------------------------
    N = ctx.n(400, 4000)
    for it in range(N):
        n = rng.randint(1, nmax) if it % 3 else rng.randint(max(1, nmax - 3), nmax)
        F, planted, style = g.chain(n)
        A = to_np(F)
        ctx.count("gen:style=" + style)
        ctx.count("gen:n=%d" % n)
        do_gth(A, "stochastic")
        forms = ("dense", "csr") if it % 5 else ("dense", "csr", "csc", "coo")
        do_stat(A, "stochastic", forms)
        # generator c (P - I): same off-diagonal pattern => same answer
        if it % 2 == 0:
            c = rng.choice([1.0, 1.0, 2.0, 0.5, 3.0, 10.0])
            Q = c * (A - np.eye(n))
            xq = do_gth(Q, "generator")
            xp = gth_solve(A)
            tol = float(tol_for(n))
            if np.array_equal(bits_of(xq), bits_of(xp)):
                ctx.count("generator:bit-identical-to-stochastic")
            elif np.any(np.abs(xq - xp) > 2 * tol * np.abs(xp)):
                ctx.spec_fail("gth_generator", "gth_solve(c(P-I)) differs from gth_solve(P)", {"P": fxm(A), "c": c})

    # ---- >= 3 classes with transient states, every run -------------------------------------------
    for it in range(ctx.n(100, 800)):
        n = rng.randint(5, nmax)
        F, planted, style = g.chain(n, nclasses=rng.choice([3, 3, 4]))
        A = to_np(F)
        do_gth(A, "multi")
        do_stat(A, "multi")

    # ---- general Metzler matrices (rate matrices with arbitrary diagonal) -------------------------
    for it in range(ctx.n(200, 1600)):
        n = rng.randint(1, nmax)
        A = to_np(g.metzler(n))
        do_gth(A, "metzler")
        # the diagonal is never read: replacing it changes nothing
        B = A.copy()
        np.fill_diagonal(B, [rng.randint(-5, 5) for _ in range(n)])
        if not np.array_equal(bits_of(gth_solve(A)), bits_of(gth_solve(B))):
            ctx.spec_fail("gth_reads_diagonal", "gth_solve depends on the diagonal", {"A": fxm(A), "B": fxm(B)})

    # ---- other input types -------------------------------------------------------------------------
    for it in range(ctx.n(10, 40)):
        n = rng.randint(2, nmax)
        perm = list(range(n))
        rng.shuffle(perm)
        Pint = np.zeros((n, n), dtype=int)
        for i, j in enumerate(perm):
            Pint[i, j] = 1
        keep = Pint.copy()
        for ow in (False, True):
            x = gth_solve(Pint, overwrite=ow)
            if not np.array_equal(keep, Pint):
                ctx.spec_fail("gth_argument_modified", "gth_solve modified an integer argument", {"A": Pint.tolist(), "overwrite": ow})
        x2 = gth_solve(Pint.tolist())
        ctx.count("types:int-permutation")
        A = Pint.astype(float)
        if not np.array_equal(bits_of(x), bits_of(gth_solve(A))) or not np.array_equal(bits_of(x2), bits_of(x)):
            ctx.spec_fail("gth_input_type", "int / list input gives another result than float input", {"A": Pint.tolist()})
        do_stat(A, "permutation")
        S = mc_compute_stationary(Pint)
        if rows_str(S)[0] != rows_str(MarkovChain(A).stationary_distributions)[0]:
            ctx.spec_fail("mc_compute_stationary", "differs from MarkovChain(P).stationary_distributions", {"P": Pint.tolist()})

    # ---- argument forms (dtype x container x memory layout x sparse format) + histories ---------------------
    # Every accepted representation of the same numbers must give the stationary vector of exactly those numbers
    # (float32 / float16 entries are exact rationals).  Results are kept alive and re-examined at the end.
    import sys as _sys
    import warnings as _warnings
    hist = []            # (label, result array, snapshot at return time)

    def keep(label, x):
        hist.append((label, x, np.array(x, copy=True)))

    FLOATS = [np.float64, np.float32, np.float16, np.longdouble]
    INTS = [np.int8, np.int16, np.int32, np.int64, np.uint8, np.uint16, np.uint32, np.uint64, np.bool_]

    def as_passed(F, dt):
        """the float64 array of the values that an array of dtype dt actually holds for the rational matrix F"""
        return np.array([[float(v) for v in row] for row in F], dtype=float).astype(dt).astype(float)

    def layouts(arr, floats_only_matrix=True):
        """name -> builder() of an object holding exactly arr's values (rebuilt for every call)"""
        nloc = arr.shape[0]

        def strided():
            big = np.zeros((2 * nloc, 3 * nloc), dtype=arr.dtype)
            big[::2, ::3] = arr
            return big[::2, ::3]

        def negstride():
            return np.ascontiguousarray(arr[::-1, ::-1])[::-1, ::-1]

        def readonly():
            r = arr.copy()
            r.flags.writeable = False
            return r
        d = {"C": lambda: np.array(arr, order="C"), "F": lambda: np.array(arr, order="F"),
             "strided": strided, "negstride": negstride, "Tview": lambda: np.ascontiguousarray(arr.T).T,
             "readonly": readonly, "list": lambda: arr.tolist(), "tuple": lambda: tuple(map(tuple, arr.tolist()))}
        if arr.dtype.kind == "f" and arr.dtype != np.longdouble:
            d["matrix"] = lambda: np.matrix(arr)
        return d

    def run_gth_forms(V, arr, tagdt, nforms):
        """V: float64 values as passed; arr: the same values in the dtype under test"""
        n = V.shape[0]
        F = frm(V)
        classes, _ = rec_classes(F)
        lay = layouts(arr)
        names = ["C"] + rng.sample([k for k in lay if k != "C"], min(nforms, len(lay) - 1))
        first = None
        for name in names:
            for ow in (False, True):
                if ow and name == "readonly":
                    continue
                for jit in (True, False):
                    obj = lay[name]()
                    snap = np.array(obj, copy=True) if isinstance(obj, np.ndarray) else None
                    with _warnings.catch_warnings():
                        _warnings.simplefilter("ignore")
                        x = gth_solve(obj, overwrite=ow, use_jit=jit)
                    what = "gth_solve(<%s %s>, overwrite=%s, use_jit=%s)" % (tagdt, name, ow, jit)
                    ctx.count("forms:gth:%s" % tagdt)
                    ctx.count("forms:gth-layout:%s" % name)
                    if not (isinstance(x, np.ndarray) and x.dtype == np.float64 and x.shape == (n,)):
                        ctx.spec_fail("gth_solve_forms", "%s: result is not a float64 vector of length n" % what,
                                      {"A": fxm(V), "dtype": tagdt, "layout": name})
                        continue
                    sup = [i for i in range(n) if float(x[i]) != 0]
                    cl = next((c for c in classes if c == sup), None)
                    why = ("support %s is not a recurrent class %s" % (sup, classes)) if cl is None else \
                        check_row(x, F, cl, exact_null(F, cl), thm_tol(n) if jit else thm_tol_any(n))
                    if why:
                        ctx.spec_fail("gth_solve_forms", "%s: %s" % (what, why),
                                      {"op": what, "A_values_as_passed": fxm(V), "A_float": V.tolist(), "dtype": tagdt,
                                       "layout": name, "overwrite": ow, "use_jit": jit, "x": list(map(float, x))})
                    if snap is not None and not ow and not np.array_equal(snap, np.asarray(obj)):
                        ctx.spec_fail("gth_argument_modified", "%s modified its argument" % what,
                                      {"A": fxm(V), "dtype": tagdt, "layout": name})
                    if isinstance(obj, np.ndarray) and np.shares_memory(x, obj):
                        ctx.spec_fail("results_share_memory", "%s: the result shares memory with the argument" % what,
                                      {"A": fxm(V), "dtype": tagdt, "layout": name})
                    keep(what, x)
                    if first is None:
                        first = x
                    if not ow and name == "C":
                        cases.append(Case("C02 gth n=%d jit=%d A=%s" % (n, int(jit), fxm(V)), fxs(x), nontrivial=n >= 3,
                                          cmp=mk_gth_cmp(ctx, n, int(jit)), tag="gth:forms:" + tagdt))

    def sparse_forms(arr):
        d = {}
        for fmt in ("csr", "csc", "coo", "lil", "dok", "bsr", "dia"):
            d[fmt + "_matrix"] = (lambda fmt=fmt: getattr(sp, fmt + "_matrix")(arr))
            d[fmt + "_array"] = (lambda fmt=fmt: getattr(sp, fmt + "_array")(arr))

        def csr_i64():
            S = sp.csr_matrix(arr)
            S.indices = S.indices.astype(np.int64)
            S.indptr = S.indptr.astype(np.int64)
            return S
        d["csr_int64idx"] = csr_i64
        return d

    def run_mc_forms(V, arr, tagdt, ndense, nsparse):
        n = V.shape[0]
        F = frm(V)
        classes, _ = rec_classes(F)
        pis = [exact_null(F, c) for c in classes]
        lay = layouts(arr)
        lay.pop("readonly", None)
        builders = [("dense:" + k, lay[k]) for k in ["C"] + rng.sample([k for k in lay if k != "C"], min(ndense, len(lay) - 1))]
        if arr.dtype != np.float16 and arr.dtype != np.longdouble:
            spf = sparse_forms(arr)
            builders += [("sparse:" + k, spf[k]) for k in rng.sample(sorted(spf), min(nsparse, len(spf)))]
        first = True
        for name, b in builders:
            obj = b()
            with _warnings.catch_warnings():
                _warnings.simplefilter("ignore")
                if rng.random() < 0.25:
                    S = mc_compute_stationary(obj)
                    mc = None
                    name += ":mc_compute_stationary"
                else:
                    mc = MarkovChain(obj)
                    S = mc.stationary_distributions
            ctx.count("forms:mc:%s" % tagdt)
            ctx.count("forms:mc-form:%s" % name.split(":")[1])
            what = "MarkovChain(<%s %s>).stationary_distributions" % (tagdt, name)
            replay = {"op": what, "P_values_as_passed": fxm(V), "P_float": V.tolist(), "dtype": tagdt, "form": name,
                      "got": np.asarray(S).tolist()}
            s_, rows = rows_str(S)
            if not (isinstance(S, np.ndarray) and S.dtype == np.float64 and S.ndim == 2 and S.shape[1] == n
                    and len(rows) == len(classes)):
                ctx.spec_fail("stationary_distributions_forms", "%s: %d rows for recurrent classes %s" % (
                    what, len(rows), classes), replay)
                continue
            for x, c, pi in zip(rows, classes, pis):
                why = check_row(x, F, c, pi, thm_tol(len(c)))
                if why:
                    ctx.spec_fail("stationary_distributions_forms", "%s: %s" % (what, why), replay)
                    break
            keep(what, S)
            hist_keepalive.append(mc)
            if first:
                first = False
                cases.append(Case("C02 stat n=%d P=%s" % (n, fxm(V)), s_, nontrivial=n >= 3,
                                  cmp=mk_stat_cmp(ctx, n), tag="stat:forms:" + tagdt))

    hist_keepalive = []
    for it in range(ctx.n(40, 300)):
        n = rng.randint(2, nmax) if it % 4 else rng.randint(2, 3)
        dt = FLOATS[it % 4] if it % 3 else np.float32
        style = "dyadic" if dt in (np.float16, np.longdouble) else rng.choice(["dyadic", "int", "int", "tiny"])
        Fr, _, _ = g.chain(n, style=style, nclasses=rng.choice([1, 1, 2, 3]))
        V = as_passed(Fr, dt)
        arr = V.astype(dt)
        run_gth_forms(V, arr, dt.__name__, ctx.n(2, 4))
        run_mc_forms(V, arr, dt.__name__, ctx.n(2, 4), ctx.n(3, 6))
        if it % 3 == 0:                       # a generator / Metzler matrix in the same dtype
            Mz = as_passed(g.metzler(n), dt)
            run_gth_forms(Mz, Mz.astype(dt), dt.__name__, ctx.n(1, 3))
    for it in range(ctx.n(27, 180)):
        n = rng.randint(2, nmax)
        dt = INTS[it % len(INTS)]
        # 0/1 stochastic matrix of a random map (cycles = recurrent classes, tails transient)
        fmap = [rng.randrange(n) for _ in range(n)]
        V = np.zeros((n, n))
        for i_, j_ in enumerate(fmap):
            V[i_, j_] = 1.0
        run_mc_forms(V, V.astype(dt), dt.__name__, ctx.n(2, 3), ctx.n(2, 5))
        # integer Metzler matrix (non-negative off-diagonals, diagonal 0 for unsigned / bool)
        hi = 1 if dt is np.bool_ else 9
        W = np.array([[0 if i_ == j_ else (rng.randint(1, hi) if rng.random() < 0.5 else 0) for j_ in range(n)]
                      for i_ in range(n)], dtype=float)
        if dt not in (np.bool_,) and np.dtype(dt).kind == "i":
            np.fill_diagonal(W, [-rng.randint(0, 20) for _ in range(n)])
        run_gth_forms(W, W.astype(dt), dt.__name__, ctx.n(2, 3))

    # histories: in-place solves of equal size, through every route, results held by the caller
    for it in range(ctx.n(12, 60)):
        n = rng.randint(2, min(5, nmax))
        mats = []
        while len(mats) < 3:
            Fr, _, _ = g.chain(n, style="dyadic", nclasses=1)
            if rec_classes(Fr)[0] == [list(range(n))]:        # irreducible
                mats.append(to_np(Fr))
        x1 = gth_solve(mats[0].copy(), overwrite=True)
        keep("history: gth_solve(A1, overwrite=True) n=%d" % n, x1)
        mc1 = MarkovChain(sp.csr_matrix(mats[1]))
        keep("history: MarkovChain(csr irreducible n=%d).stationary_distributions" % n, mc1.stationary_distributions)
        hist_keepalive.append(mc1)
        x2 = gth_solve(mats[2].copy(), overwrite=True, use_jit=False)
        keep("history: gth_solve(A2, overwrite=True, use_jit=False) n=%d" % n, x2)
        # a reducible chain with a recurrent class of exactly n states (dense and sparse)
        big = np.zeros((n + 2, n + 2))
        big[:n, :n] = mats[0]
        big[n, n] = 1.0
        big[n + 1, 0] = 0.5
        big[n + 1, n] = 0.5
        for form in (big, sp.csr_matrix(big)):
            mc2 = MarkovChain(form)
            keep("history: MarkovChain(reducible with a class of %d states).stationary_distributions" % n,
                 mc2.stationary_distributions)
            hist_keepalive.append(mc2)
        mc3 = MarkovChain(sp.csr_matrix(mats[2]))
        keep("history: second sparse irreducible chain n=%d" % n, mc3.stationary_distributions)
        hist_keepalive.append(mc3)
        for xa, Aa, lab in ((x1, mats[0], "x1"), (x2, mats[2], "x2"), (mc1.stationary_distributions[0], mats[1], "mc1"),
                            (mc3.stationary_distributions[0], mats[2], "mc3")):
            Fa = frm(Aa)
            why = check_row(xa, Fa, list(range(n)), exact_null(Fa, list(range(n))), tol_for(n))
            if why:
                ctx.spec_fail("result_changed_later", "history n=%d: %s held by the caller is no longer the stationary vector of "
                              "its matrix after later solves: %s" % (n, lab, why),
                              {"n": n, "which": lab, "A": fxm(Aa), "now": list(map(float, xa))})
        ctx.count("history:sequences")

    # every result ever returned (this section and do_gth's `outs` are still referenced): unchanged, disjoint, private
    for label, x, snapv in hist:
        if not np.array_equal(bits_of(np.ascontiguousarray(x)), bits_of(np.ascontiguousarray(snapv))):
            ctx.spec_fail("result_changed_later", "a returned result was rewritten by a later call: %s" % label,
                          {"label": label, "at_return": snapv.tolist(), "now": np.asarray(x).tolist()})
    ivals = sorted(((x.__array_interface__["data"][0], x.__array_interface__["data"][0] + x.nbytes, k)
                    for k, (label, x, _) in enumerate(hist) if x.nbytes), key=lambda t: t[0])
    for (a0, a1, ka), (b0, b1, kb) in zip(ivals, ivals[1:]):
        if b0 < a1 and hist[ka][1] is not hist[kb][1] and np.shares_memory(hist[ka][1], hist[kb][1]):
            ctx.spec_fail("results_share_memory", "two results returned by different calls share memory: %s / %s" % (
                hist[ka][0], hist[kb][0]), {"a": hist[ka][0], "b": hist[kb][0]})
    ctx.count("history:results-held", len(hist))
    modstate = []
    for modname in ("quantecon.markov.gth_solve", "quantecon.markov.core"):
        for nm, val in list(vars(_sys.modules[modname]).items()):
            vals = [val] if isinstance(val, np.ndarray) else (
                list(val.values()) if isinstance(val, dict) else (list(val) if isinstance(val, (list, tuple, set)) else []))
            for v in vals:
                if isinstance(v, np.ndarray):
                    modstate.append((modname + "." + nm, v))
    for nm, v in modstate:
        for label, x, _ in hist:
            if np.may_share_memory(x, v) and np.shares_memory(x, v):
                ctx.spec_fail("result_aliases_module_state", "a returned result shares memory with module state %s: %s" % (nm, label),
                              {"module_attr": nm, "label": label})
                break
    ctx.count("history:module-arrays-scanned", len(modstate))

    # ---- copy semantics: the caller's array after the call, over argument forms x options x histories ----------
    # model: QEModel.C02 `worksInPlace` / `argAfter` / `gthCalls` (op `gthow`): in place exactly for a C-contiguous float64
    # ndarray (subclasses included) with overwrite=True; otherwise the argument is left as it was.
    class _Sub(np.ndarray):
        pass

    def ow_forms(V):
        nloc = V.shape[0]

        def strided():
            big = np.zeros((2 * nloc, 3 * nloc))
            big[::2, ::3] = V
            return big[::2, ::3]

        def rowslice():
            big = np.zeros((nloc + 2, nloc))
            big[1:nloc + 1] = V
            return big[1:nloc + 1]
        return {"C": lambda: np.array(V, order="C"), "F": lambda: np.array(V, order="F"), "strided": strided,
                "rowslice-view": rowslice, "negstride": lambda: np.ascontiguousarray(V[::-1, ::-1])[::-1, ::-1],
                "matrix": lambda: np.matrix(V), "subclass": lambda: np.array(V).view(_Sub),
                "float32": lambda: V.astype(np.float32), "list": lambda: V.tolist()}

    def mk_ow_cmp(jit, n_):
        # The model's sums are left-to-right.  That is the code's order for the Numba kernel (any n) and for the
        # NumPy twin while every pivot-row slice has < 8 elements (n <= 8: np.sum adds such a slice sequentially).
        # For the NumPy twin with n >= 9 np.sum is pairwise (8 accumulators), so the reduced matrix may differ
        # in the last bits: there the comparison is the zero / changed pattern exactly and the values inside the
        # proved any-order bound, and the case is counted.
        exact_order = jit or n_ <= 8

        def cmp(mo, impl):
            if impl.startswith("ERR") or mo.startswith("ERR"):
                return None if mo == impl else "error kinds differ"
            pm = dict(p_.split("=", 1) for p_ in mo.split(" "))
            pi_ = dict(p_.split("=", 1) for p_ in impl.split(" "))
            if exact_order:
                ctx.count("gthow:compared-bit-for-bit")
                if pm["A"] != pi_["A"]:
                    return "contents of the caller's array after the call differ from the model's argAfter"
                if jit and pm["x"] != pi_["x"]:
                    return "result of the last call differs in bits"
                return None
            ctx.count("gthow:numpy-twin-n>=9:compared-within-proved-bound")
            tolf = float(thm_tol_any(n_))
            am = [unfx(t) for r_ in pm["A"].split(";") for t in r_.split(",")]
            ai = [unfx(t) for r_ in pi_["A"].split(";") for t in r_.split(",")]
            if len(am) != len(ai):
                return "shape of the caller's array differs"
            if pm["A"] != pi_["A"]:
                ctx.count("gthow:numpy-twin-n>=9:bits-differ")
            for a_, b_ in zip(am, ai):
                if (a_ == 0) != (b_ == 0):
                    return "zero pattern of the caller's array after the call differs from the model's argAfter"
                if abs(a_ - b_) > tolf * max(abs(a_), abs(b_)):
                    return "caller's array after the call differs from the model's argAfter beyond the proved any-order bound"
            return None
        return cmp

    for it in range(ctx.n(30, 200)):
        n = rng.randint(1, nmax) if it % 5 else 1
        if it % 3 == 0:
            V = to_np(g.metzler(n))
        else:
            Fr, _, _ = g.chain(n, style=rng.choice(["dyadic", "int"]))
            V = to_np(Fr)
        forms = ow_forms(V)
        for name in ["C"] + rng.sample([k for k in forms if k != "C"], ctx.n(3, 5)):
            if name == "float32":
                V_used = V.astype(np.float32).astype(float)
            else:
                V_used = V
            for ow in (False, True):
                jit = rng.random() < 0.6
                reps = rng.choice([1, 1, 2, 3])
                obj = forms[name]()
                isnd = isinstance(obj, np.ndarray)
                f64 = bool(isnd and obj.dtype == np.float64)
                cc = bool(isnd and obj.flags.c_contiguous)
                with _warnings.catch_warnings():
                    _warnings.simplefilter("ignore")
                    for _ in range(reps):
                        x = gth_solve(obj, overwrite=ow, use_jit=jit)
                after = np.array(obj, dtype=float)
                inplace = not np.array_equal(bits_of(after), bits_of(np.ascontiguousarray(V_used)))
                ctx.count("copy-semantics:%s:overwrite=%s:%s" % (name, ow, "modified" if inplace else "untouched"))
                if inplace and not ow:
                    ctx.spec_fail("gth_argument_modified", "gth_solve(<%s>, overwrite=False) modified its argument" % name,
                                  {"A": fxm(V_used), "form": name, "use_jit": jit, "reps": reps})
                cases.append(Case("C02 gthow n=%d ow=%d nd=%d f64=%d cc=%d reps=%d A=%s" % (
                    n, int(ow), int(isnd), int(f64), int(cc), reps, fxm(V_used)),
                    "x=%s A=%s" % (fxs(x), fxm(after)), nontrivial=(n >= 3 and ow), cmp=mk_ow_cmp(jit, n),
                    tag="gthow:" + ("inplace" if (ow and isnd and f64 and cc) else "copy")))
    for it in range(ctx.n(4, 12)):                     # malformed: non-square in the in-place mode
        n = rng.randint(2, 4)
        B = np.full((n, n + 1), 1.0 / (n + 1))
        try:
            gth_solve(B, overwrite=True)
            out = "no-error"
        except ValueError:
            out = "ERR:ValueError"
        ctx.count("copy-semantics:nonsquare:" + out)
        cases.append(Case("C02 gthow n=%d ow=1 nd=1 f64=1 cc=1 reps=1 A=%s" % (n, fxm(B)), out, nontrivial=False,
                          tag="gthow:malformed"))

    # ---- malformed -------------------------------------------------------------------------------------
    def err_of(f):
        try:
            f()
            return "no-error"
        except ValueError:
            return "ERR:ValueError"
        except Exception as e:  # noqa
            return "ERR:" + type(e).__name__
    for it in range(ctx.n(12, 40)):
        n = rng.randint(2, 5)
        m = rng.choice([k for k in range(1, 6) if k != n])
        B = np.full((n, m), 1.0 / m)
        out = err_of(lambda: gth_solve(B))
        ctx.count("malformed:gth-nonsquare:" + out)
        if out != "ERR:ValueError":
            ctx.spec_fail("gth_nonsquare", "gth_solve on a %dx%d matrix: %s" % (n, m, out), {"shape": [n, m]})
        cases.append(Case("C02 gth n=%d jit=1 A=%s" % (n, fxm(B)), out, nontrivial=False, tag="malformed"))
        out = err_of(lambda: MarkovChain(B))
        if out != "ERR:ValueError":
            ctx.spec_fail("mc_nonsquare", "MarkovChain on a %dx%d matrix: %s" % (n, m, out), {"shape": [n, m]})
        cases.append(Case("C02 stat n=%d P=%s" % (n, fxm(B)), out, nontrivial=False, tag="malformed"))
        F, _, _ = g.chain(n, style="dyadic")
        A = to_np(F)
        i, j = rng.randrange(n), rng.randrange(n)
        kind = rng.choice(["neg", "rowsum"])
        if kind == "neg":
            A[i, j] = -0.25
        else:
            A[i, j] += 0.25
        out = err_of(lambda: MarkovChain(A).stationary_distributions)
        ctx.count("malformed:mc-%s:%s" % (kind, out))
        if out != "ERR:ValueError":
            ctx.spec_fail("mc_invalid_accepted", "MarkovChain accepted an invalid matrix (%s)" % kind, {"P": A.tolist()})
        cases.append(Case("C02 stat n=%d P=%s" % (n, fxm(A)), out, nontrivial=False, tag="malformed"))

    # ---- CSR input with explicitly stored zeros ------------------------------------------------------------
    # The same stochastic matrix, another (legal) CSR representation: entries that are 0.0 but present in the
    # structure.  The answer must not depend on it.
    for it in range(ctx.n(40, 300)):
        n = rng.randint(2, min(6, nmax))
        F, planted, style = g.chain(n, style="dyadic", nclasses=rng.choice([1, 2, 2, 3]))
        A = to_np(F)
        classes, _ = rec_classes(frm(A))
        data, indices, indptr = [], [], [0]
        nstored0 = 0
        for i in range(n):
            for j in range(n):
                if A[i, j] != 0:
                    data.append(A[i, j]); indices.append(j)
                elif rng.random() < 0.35:
                    data.append(0.0); indices.append(j); nstored0 += 1
            indptr.append(len(data))
        Psp = sp.csr_matrix((np.array(data, dtype=float), np.array(indices, dtype=np.int32), np.array(indptr, dtype=np.int32)),
                            shape=(n, n))
        S = MarkovChain(Psp).stationary_distributions
        D = MarkovChain(A).stationary_distributions
        ctx.count("stored-zero:cases")
        s, rows = rows_str(S)
        ok = len(rows) == len(classes)
        if ok:
            for x, c in zip(rows, classes):
                if check_row(x, frm(A), c, exact_null(frm(A), c), tol_for(n)):
                    ok = False
        if not ok:
            ctx.count("stored-zero:wrong")
            ctx.spec_fail("csr_stored_zero",
                          "MarkovChain(CSR with explicitly stored zeros).stationary_distributions has %d rows %s for recurrent "
                          "classes %s (dense input gives %d rows)" % (len(rows), np.asarray(S).tolist(), classes, len(D)),
                          {"op": "stat-csr", "n": n, "data": data, "indices": indices, "indptr": indptr,
                           "dense": A.tolist(), "got": np.asarray(S).tolist(), "expected_classes": classes})

    # the model's E(n) (used by the theorems) and the harness's copy of the recurrence must agree
    for k in range(1, nmax + 1):
        cases.append(Case("C02 ebound n=%d" % k, str(err_bound(k)), nontrivial=False, tag="ebound"))
    ctx.assumptions.append(
        "component-wise relative accuracy: PROVED in the standard model of rounded arithmetic (QE.C02.gthSolve_accuracy: "
        "every component within (1+u)^E(n)-1, E(1..8)=2,11,44,157,542,1847,6232,20825; gthSolve_accuracy_double: "
        "<= 1e-12*n^3 for n<=8 at u=2^-53) for the sequential Numba kernel, and for EVERY evaluation order of the sums and "
        "dot products with E(n)+1 factors (gthSolveAnyOrder_accuracy; sum_any_tree, dot_fma; gthSolveNp_accuracy for the "
        "use_jit=False twin: NumPy pairwise np.sum, BLAS dot in any blocking, with or without FMA); both twins are judged by "
        "these proved bounds, the envelope 1e-12*n^3 is only counted. ASSUMED: every single IEEE operation obeys the standard "
        "model on these inputs (no underflow/overflow/subnormals; extended-precision accumulation inside BLAS is covered)")
    ctx.run_cases(cases)
    worst_np = ctx.extra.pop("_worst_rel_np", {})
    worst = ctx.extra.pop("_worst_rel", {})
    ctx.extra["accuracy_bound_vs_envelope"] = [
        {"n": k, "E(n)": err_bound(k), "proved_bound_u=2^-53": float(thm_tol(k)), "harness_envelope_1e-12*n^3": float(tol_for(k)),
         "larger": "envelope" if tol_for(k) > thm_tol(k) else "proved bound",
         "worst_observed_rel_err_jit": float(worst.get(k, 0)),
         "proved_bound_any_order_(E(n)+1)": float(thm_tol_any(k)),
         "worst_observed_rel_err_numpy_twin": float(worst_np.get(k, 0))}
        for k in range(1, nmax + 1)]
    jit_id = ctx.counters.get("fidelity:jit:bit-identical", 0)
    jit_all = jit_id + ctx.counters.get("fidelity:jit:differs", 0)
    np_id = ctx.counters.get("fidelity:numpy:bit-identical", 0)
    np_all = np_id + ctx.counters.get("fidelity:numpy:differs", 0)
    ctx.extra["trace_fidelity"] = {"jit_kernel": "%d/%d" % (jit_id, jit_all), "numpy_twin": "%d/%d" % (np_id, np_all),
                                   "stationary_distributions": "%d/%d" % (
                                       ctx.counters.get("fidelity:stat:bit-identical", 0),
                                       ctx.counters.get("fidelity:stat:bit-identical", 0) + ctx.counters.get("fidelity:stat:differs", 0))}
