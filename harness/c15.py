"""C15 — approximate solvers deliver the accuracy they report: correspondence + spec run.

What is tied to the code, and how
  * compute_fixed_point(method='iteration') on affine(-clipped) maps whose Python body performs its
    floating-point operations in a fixed order: the model at Float reproduces the returned point
    bit for bit, the number of evaluations and the warning exactly; the model at Rat is compared
    inside 1e-9 (discrete outputs exactly unless a stopping test sits within 1e-10 of its threshold).
  * compute_fixed_point(method='imitation_game') / mclennan_tourky: every call of T, of
    _lemke_howson_tbl and of _get_mixed_actions is recorded (wrappers installed on the module
    attributes; nothing under /repo is edited).  (a) `igstepf`: for each pass of lines 255-269 the
    model at Float gets the stored history (X[:m], Y[:m]) and must reproduce rho, the bases, the
    number of pivots and LH's flag bit for bit / exactly, and the next point inside 1e-12;
    (b) `igf/ig/mt mode=replay`: the model's own loop (buffers included) replays the points the
    code visited and must return the same point, flag and iteration count; (c) `mode=real`: the
    model computes everything itself (short runs), compared exactly / inside 1e-9.
  * _is_epsilon_nash, _best_response_selection at exact rationals on visited and random profiles.
Spec oracles (Fractions, independent of the model), keys: iteration_flag / iteration_residual /
iteration_fixed_point_distance / iteration_warning / iteration_count, ig_residual / ig_warning /
ig_false_warning / ig_returned_point / ig_call_pattern / ig_history, mt_probability_vector /
mt_epsilon_nash / mt_false_negative / mt_not_converged_early / mt_num_iter / mt_image_pure,
is_epsilon_nash, polym_lcp_nash / polym_lcp_convergence / polym_lcp_flag.
polym_lcp_solver is also tied to the model of Howson's LCP: `howf` (Float) must reproduce the pivot sequence
(column:row of every _pivoting call of the main loop), the final basis, the flag, num_iter and the returned profile
bit for bit; `how` (Rat, the code's tolerances / tolerances 0, generic payoffs) the same with the profile inside 1e-9.
Back-tracking is reached on purpose: a screening stream keeps the starts whose run back-tracks, and the corpus
harness/corpus/c15_howson_moved.json holds 40 four-player runs that restart a level while the slack w_{p,start_p}
is basic in another row (counters howson:*).
The certificate "rho from Lemke-Howson is a probability vector" (hypothesis of the convexity theorems) is
counted (lh:*), not raised: it is not part of the property.
"""
import itertools
import sys
import warnings
from fractions import Fraction

import numpy as np

from .common import Case, fx, fxs, fxm, ints, rat, rats, ratm, parse_rats, unfx

FILES = ["quantecon/_compute_fp.py", "quantecon/game_theory/mclennan_tourky.py",
         "quantecon/game_theory/howson_lcp.py", "quantecon/game_theory/lemke_howson.py",
         "quantecon/optimize/pivoting.py"]

if hasattr(sys, "set_int_max_str_digits"):
    sys.set_int_max_str_digits(0)   # exact rationals of the model's own imitation-game runs can be thousands of digits long

ENV = Fraction(1, 10 ** 9)        # rounding envelope: model Rat vs code double
SLACK = Fraction(1, 10 ** 9)      # relative slack granted to the code's own float evaluation of a test
FRAG = Fraction(1, 10 ** 10)      # a decision closer than this to its threshold is not compared
TOL_BR = Fraction(1e-8)           # Player.tol


def F(v):
    return [Fraction(float(t)) for t in v]


def kvs(s):
    return dict(t.split("=", 1) for t in s.split(" ") if "=" in t)


class NarrowTableaux(Exception):
    pass


# ----------------------------------------------------------------------------
# maps with a fixed operation order

class AffMap:
    """T(v)_i = clip(sum_j A[i][j]*v[j] + b[i]); every operation an IEEE double operation in this order"""

    def __init__(self, A, b, box):
        self.A = [[float(a) for a in r] for r in A]
        self.b = [float(t) for t in b]
        self.box = box
        self.n = len(b)
        self.calls_in, self.calls_out = [], []
        self.scalar = False      # scalar flavour: T acts on Python/NumPy floats (the `v = new_v` path of line 137)

    def __call__(self, v):
        if self.scalar:
            x = float(v)
            s = 0.0 + self.A[0][0] * x
            s = s + self.b[0]
            if self.box is not None:
                lo, hi = self.box
                if s < lo:
                    s = lo
                if s > hi:
                    s = hi
            self.calls_in.append(np.array([x]))
            self.calls_out.append(np.array([s]))
            return s
        n = self.n
        out = np.empty(n)
        for i in range(n):
            s = 0.0
            row = self.A[i]
            for j in range(n):
                s = s + row[j] * float(v[j])
            s = s + self.b[i]
            if self.box is not None:
                lo, hi = self.box
                if s < lo:
                    s = lo
                if s > hi:
                    s = hi
            out[i] = s
        self.calls_in.append(np.array(v, dtype=float).copy())
        self.calls_out.append(out.copy())
        return out

    def exact(self, v):
        """the same map on Fractions"""
        out = []
        for i in range(self.n):
            s = sum((Fraction(a) * x for a, x in zip(self.A[i], v)), Fraction(0)) + Fraction(self.b[i])
            if self.box is not None:
                s = min(max(s, Fraction(self.box[0])), Fraction(self.box[1]))
            out.append(s)
        return out

    def kappa(self):
        return max(sum(abs(Fraction(a)) for a in r) for r in self.A)

    def wire(self, f1, fm, fl):
        lo, hi = self.box if self.box is not None else (0.0, 0.0)
        return "n=%d A=%s b=%s clip=%d lo=%s hi=%s" % (self.n, fm(self.A), fl(self.b), 0 if self.box is None else 1,
                                                    f1(lo), f1(hi))


def solve_exact(A, b):
    """x with (I - A) x = b over Fractions, or None"""
    n = len(b)
    Mx = [[(Fraction(1) if i == j else Fraction(0)) - Fraction(A[i][j]) for j in range(n)] + [Fraction(b[i])]
          for i in range(n)]
    for k in range(n):
        p = next((i for i in range(k, n) if Mx[i][k] != 0), None)
        if p is None:
            return None
        Mx[k], Mx[p] = Mx[p], Mx[k]
        pv = Mx[k][k]
        Mx[k] = [t / pv for t in Mx[k]]
        for i in range(n):
            if i != k and Mx[i][k] != 0:
                f = Mx[i][k]
                Mx[i] = [a - f * c for a, c in zip(Mx[i], Mx[k])]
    return [Mx[i][n] for i in range(n)]


def gen_aff(ctx, kind):
    rng = ctx.rng
    n = rng.randint(1, 4)
    den = rng.choice([4, 8, 16])
    if kind == "contraction":
        kap = rng.choice([Fraction(1, 4), Fraction(1, 2), Fraction(3, 4), Fraction(7, 8), Fraction(15, 16)])
        A = []
        for _ in range(n):
            w = [rng.randint(-den, den) for _ in range(n)]
            s = sum(abs(t) for t in w) or 1
            # row sum of |.| equals kap * (something <= 1), dyadic after rounding down to 1/1024
            row = [Fraction(int(Fraction(t, s) * kap * 1024), 1024) for t in w]
            A.append(row)
        box = None
    elif kind == "nonexp":           # permutation / sign matrices: modulus exactly 1
        perm = list(range(n))
        rng.shuffle(perm)
        A = [[Fraction(rng.choice([1, -1])) if j == perm[i] else Fraction(0) for j in range(n)] for i in range(n)]
        box = None
    elif kind == "expansive":
        A = [[Fraction(rng.randint(-2 * den, 2 * den), den) for _ in range(n)] for _ in range(n)]
        box = None
    else:                            # "brouwer": any affine map followed by the projection on a box
        A = [[Fraction(rng.randint(-2 * den, 2 * den), den) for _ in range(n)] for _ in range(n)]
        box = (0.0, 1.0) if rng.random() < 0.7 else (-1.0, 2.0)
    b = [Fraction(rng.randint(-den, den), den) for _ in range(n)]
    if box is not None:
        v = [Fraction(rng.randint(0, den), den) for _ in range(n)]
    else:
        v = [Fraction(rng.randint(-2 * den, 2 * den), den) for _ in range(n)]
    return AffMap(A, b, box), [float(t) for t in v]


def tol_form(ctx, tol, what):
    """a tolerance as Python float / np.float64 / np.float32 / 0-d array; returns (argument, the value it denotes)"""
    f = ctx.rng.choice(["py", "py", "np.float64", "np.float32", "0-d"])
    ctx.count("arg-form:%s:%s" % (what, f))
    if f == "np.float32":
        return np.float32(tol), float(np.float32(tol))
    return {"py": tol, "np.float64": np.float64(tol), "0-d": np.array(tol)}[f], tol


def int_form(ctx, k, what):
    f = ctx.rng.choice(["py", "py", "np.int64", "np.int32", "np.intp", "np.uint8" if 0 <= k < 256 else "np.int64", "np.int8" if 0 <= k < 128 else "np.uint8" if k < 256 else "np.int32", "0-d"])
    ctx.count("arg-form:%s:%s" % (what, f))
    return {"py": k, "np.int64": np.int64(k), "np.int32": np.int32(k), "np.intp": np.intp(k), "np.uint8": np.uint8(k % 256), "np.int8": np.int8(k % 128),
            "0-d": np.array(k)}[f]


def arg_forms(ctx, tol, mi):
    """error_tol / max_iter / verbose / print_skip in their argument forms; returns them and the tolerance denoted"""
    a_tol, tol_eff = tol_form(ctx, tol, "error_tol")
    return a_tol, int_form(ctx, mi, "max_iter"), int_form(ctx, 1, "verbose"), int_form(ctx, 5, "print_skip"), tol_eff


def v_form(ctx, T, v0):
    """the starting point as ndarray / list / tuple, or (dimension 1, scalar flavour) as Python float / np.float64 / int"""
    r = ctx.rng
    if T.scalar:
        x = v0[0]
        forms = ["float", "np.float64"] + (["int", "np.int64"] if float(x).is_integer() else [])
        form = r.choice(forms)
        ctx.count("arg-form:v:scalar-%s" % form)
        return {"float": float(x), "np.float64": np.float64(x), "int": int(x), "np.int64": np.int64(int(x))}[form] \
            if form in ("float", "np.float64") or float(x).is_integer() else float(x)
    form = r.choice(["ndarray", "ndarray", "list", "tuple"])
    ctx.count("arg-form:v:%s" % form)
    return np.array(v0) if form == "ndarray" else (list(v0) if form == "list" else tuple(v0))


# ----------------------------------------------------------------------------
# recording wrappers around the imitation-game internals

class Recorder:
    def __init__(self):
        import quantecon._compute_fp as cfp
        self.cfp = cfp
        self.orig_lh = cfp._lemke_howson_tbl
        self.orig_ma = cfp._get_mixed_actions
        self.steps = []

    def __enter__(self):
        rec = self

        def lh(tableaux, bases, init_pivot, max_iter):
            out = rec.orig_lh(tableaux, bases, init_pivot=init_pivot, max_iter=max_iter)
            rec.steps.append({"m": int(tableaux[0].shape[0]), "conv": bool(out[0]), "piv": int(out[1]),
                              "b0": [int(t) for t in bases[0]], "b1": [int(t) for t in bases[1]],
                              "init_pivot": int(init_pivot)})
            return out

        def ma(tableaux, bases):
            out = rec.orig_ma(tableaux, bases)
            rec.steps[-1]["rho"] = np.array(out[1], dtype=float).copy()
            return out

        self.cfp._lemke_howson_tbl = lh
        self.cfp._get_mixed_actions = ma
        return self

    def __exit__(self, *a):
        self.cfp._lemke_howson_tbl = self.orig_lh
        self.cfp._get_mixed_actions = self.orig_ma
        return False


def step_cases(ctx, cases, rec, xs, ys, tag):
    """(a): one `igstepf` case per recorded pass of lines 255-269; also the rho certificate"""
    for k, st in enumerate(rec.steps):
        m = st["m"]
        if m != k + 2 or m > len(ys) or "rho" not in st:
            ctx.spec_fail("ig_history", "pass %d of the imitation loop ran on m=%d stored points" % (k, m),
                          {"op": tag, "k": k, "m": m})
            continue
        rho = st["rho"]
        # certificate used by the convexity theorems (hypothesis h3): rho is a probability vector.
        # Not part of the property itself (a run whose rho degenerates must merely not be reported as
        # converged with a bad point - that is what ig_residual / mt_probability_vector / mt_epsilon_nash
        # test), so a failure is counted and recorded in the evidence, not raised.
        ctx.count("lh:passes-checked")
        if len(rho) != m or any(Fraction(float(t)) < -Fraction(1, 10 ** 12) for t in rho) or \
                abs(sum(F(rho)) - 1) > Fraction(1, 10 ** 12) or not st["conv"]:
            ctx.count("lh:rho-not-a-probability-vector(certificate h3 fails)")
            if "first_bad_rho" not in ctx.extra:
                ctx.extra["first_bad_rho"] = {"op": tag, "m": m, "lh_converged": st["conv"], "rho": list(map(float, rho)),
                                              "X": [list(map(float, r)) for r in xs[:m]],
                                              "Y": [list(map(float, r)) for r in ys[:m]]}
        else:
            ctx.count("lh:rho-probability-vector")
        if st["init_pivot"] != m - 1:
            ctx.spec_fail("ig_init_pivot", "init_pivot=%d for m=%d" % (st["init_pivot"], m), {"op": tag})
        cost = (st["piv"] + 2) * m * (2 * m + 1)          # entries touched by the model's pivots
        if m > ctx.n(40, 300) or st["piv"] > 5000 or ctx.counters["igstep:model-work"] + cost > ctx.n(3, 30) * 10 ** 8:
            # (the model is run on a bounded amount of work so that a tree whose runs never converge
            #  cannot turn the check into a time-out)
            ctx.count("igstep:skipped(m, pivots or total work too large for the model run)")
            continue
        ctx.count("igstep:model-work", cost)
        nxt = xs[m] if m < len(xs) else None
        impl = "conv=%d piv=%d b0=%s b1=%s rho=%s" % (st["conv"], st["piv"], ints(st["b0"]), ints(st["b1"]), fxs(rho))

        def cmp(mo, impl_s, nxt=nxt, m=m):
            head, _, xpart = mo.rpartition(" x=")
            if head != impl_s:
                return "tableaux / Lemke-Howson / rho differ"
            if nxt is not None:
                mx = [Fraction(unfx(t)) for t in xpart.split(",")]
                if len(mx) != len(nxt):
                    return "next point has another length"
                for a, c in zip(mx, F(nxt)):
                    if abs(a - c) > Fraction(m, 10 ** 13) * max(1, abs(c)):
                        return "next point differs: model %r code %r" % (float(a), float(c))
            return None
        ctx.count("igstep:m=%s" % (m if m <= 4 else "5-9" if m <= 9 else "10-39" if m < 40 else "40+"))
        ctx.count("igstep:pivots", st["piv"])
        if len(set(tuple(map(float, r)) for r in ys[:m])) < m:
            ctx.count("igstep:duplicate-images(degenerate)")
        cases.append(Case("C15 igstepf X=%s Y=%s" % (fxm(xs[:m]), fxm(ys[:m])), impl, cmp=cmp, tag="igstepf"))


# ----------------------------------------------------------------------------
# games

def gen_game(ctx):
    rng = ctx.rng
    N = rng.choice([2, 2, 3, 3, 4])
    maxa = 4 if N <= 3 else 3
    nums = [rng.randint(1 if rng.random() < 0.1 else 2, maxa) for _ in range(N)]
    kind = rng.choice(["int", "int", "dyadic", "float", "common", "neartie", "positive", "positive"])
    pays = []
    for i in range(N):
        shape = nums[i:] + nums[:i]
        size = int(np.prod(shape))
        if kind == "int":
            arr = [float(rng.randint(-5, 5)) for _ in range(size)]
        elif kind == "dyadic":
            arr = [rng.randint(-40, 40) / 8.0 for _ in range(size)]
        elif kind == "float":
            arr = [rng.uniform(-1, 1) for _ in range(size)]
        elif kind == "positive":    # strictly positive payoffs (a non-normalised profile can pass is_nash here)
            arr = [float(rng.randint(1, 9)) for _ in range(size)]
        elif kind == "neartie":     # payoffs that differ by less / slightly more than Player.tol = 1e-8
            arr = [float(rng.randint(0, 1)) + rng.choice([0.0, 3e-9, -3e-9, 6e-9]) for _ in range(size)]
        else:
            arr = [float(rng.randint(0, 2)) for _ in range(size)]
        pays.append(np.array(arr).reshape(shape))
    return nums, pays, kind


INT_TYPES = [int, np.int8, np.int16, np.int32, np.int64, np.uint8, np.uint64, np.intp]


def gen_init(ctx, nums):
    """an initial profile in one of the argument forms the API accepts.
    Returns (init object, wire forms for the model's `flatinit`, the profile it denotes as Fractions, description).
    In the domain of the property: pure actions as integer-typed scalars (Python int, NumPy int8..int64, uint8/64,
    intp - also as elements of an integer ndarray / list / tuple), mixed actions as 1-d float64 / float32 (dyadic) /
    integer arrays, lists or tuples that are probability vectors."""
    rng = ctx.rng
    N = len(nums)
    # whole-profile forms: an integer ndarray of pure actions (its elements are NumPy integers)
    if rng.random() < 0.25:
        ty = rng.choice(INT_TYPES[1:])
        acts = [rng.randrange(n) for n in nums]
        cont = rng.choice(["ndarray", "tuple", "list"])
        if cont == "ndarray":
            init = np.array(acts, dtype=ty)
        else:
            init = [ty(a) for a in acts]
            init = tuple(init) if cont == "tuple" else init
        ctx.count("init-form:pure-profile:%s-of-%s" % (cont, np.dtype(ty).name))
        return init, ["n%d" % a for a in acts], [[Fraction(int(k == a)) for k in range(n)] for a, n in zip(acts, nums)]
    init, wire, denotes = [], [], []
    for n in nums:
        t = rng.random()
        if t < 0.45:
            a = rng.randrange(n)
            ty = rng.choice(INT_TYPES)
            init.append(ty(a))
            wire.append(("p%d" if ty is int else "n%d") % a)
            denotes.append([Fraction(int(k == a)) for k in range(n)])
            ctx.count("init-form:pure:%s" % ("int" if ty is int else np.dtype(ty).name))
        else:
            if t < 0.75:
                den = rng.choice([2, 4, 8])       # dyadic weights: exact in float32 as well
                w = [0] * n
                for _ in range(den):
                    w[rng.randrange(n)] += 1
                vals = [Fraction(x, den) for x in w]
            elif t < 0.85:
                a = rng.randrange(n)               # a pure action written as a 0/1 vector
                vals = [Fraction(int(k == a)) for k in range(n)]
            else:
                wf = np.array([rng.random() for _ in range(n)])
                wf = wf / wf.sum()
                vals = [Fraction(float(x)) for x in wf]
            dyadic = all(v.denominator in (1, 2, 4, 8) for v in vals)
            zero_one = all(v in (0, 1) for v in vals)
            forms = ["f64", "list", "tuple"] + (["f32"] if dyadic else []) + (["intarr", "intlist"] if zero_one else [])
            form = rng.choice(forms)
            fl = [float(v) for v in vals]
            if form == "f64":
                obj = np.array(fl)
            elif form == "f32":
                obj = np.array(fl, dtype=np.float32)
            elif form == "list":
                obj = fl
            elif form == "tuple":
                obj = tuple(fl)
            elif form == "intarr":
                obj = np.array([int(v) for v in vals], dtype=rng.choice([np.int64, np.int32, np.uint8]))
            else:
                obj = [int(v) for v in vals]
            init.append(obj)
            wire.append("v" + rats(vals))
            denotes.append(vals)
            ctx.count("init-form:mixed:%s" % form)
    cont = rng.choice(["tuple", "list"])
    return (tuple(init) if cont == "tuple" else init), wire, denotes


def init_repr(init):
    out = []
    for t in init:
        if isinstance(t, (list, tuple, np.ndarray)) and np.ndim(t) == 1:
            out.append({"type": type(t).__name__ + (":" + str(t.dtype) if isinstance(t, np.ndarray) else ""),
                        "value": [float(x) for x in t]})
        else:
            out.append({"type": type(t).__name__, "value": float(t)})
    return {"container": type(init).__name__ + (":" + str(init.dtype) if isinstance(init, np.ndarray) else ""), "entries": out}


def exact_payoff_vector(nums, pays_q, i, prof):
    """u_i(a, x_{-i}) for every own action a, by the definition (sum over the opponents' pure profiles)"""
    N = len(nums)
    order = [(i + j) % N for j in range(N)]          # axes of player i's array
    opp = order[1:]
    out = []
    arr = pays_q[i]
    for a in range(nums[i]):
        tot = Fraction(0)
        for idx in itertools.product(*[range(nums[p]) for p in opp]):
            w = Fraction(1)
            for p, ai in zip(opp, idx):
                w *= prof[p][ai]
                if w == 0:
                    break
            if w != 0:
                tot += w * arr[(a,) + idx]
        out.append(tot)
    return out


def q_arrays(pays):
    out = []
    for P in pays:
        Q = np.empty(P.shape, dtype=object)
        for idx in np.ndindex(*P.shape):
            Q[idx] = Fraction(float(P[idx]))
        out.append(Q)
    return out


def split(nums, x):
    out, k = [], 0
    for n in nums:
        out.append(list(x[k:k + n]))
        k += n
    return out


def nash_margins(nums, pays_q, prof_q, eps):
    """(min over players of  u_i(x) - (max_a u_i(a,x_-i) - eps),  min BR-threshold distance)"""
    gain, brm = None, None
    for i in range(len(nums)):
        pv = exact_payoff_vector(nums, pays_q, i, prof_q)
        u = sum(p * w for p, w in zip(pv, prof_q[i]))
        g = u - (max(pv) - eps)
        gain = g if gain is None else min(gain, g)
        for p in pv:
            d = abs(p - (max(pv) - TOL_BR))
            brm = d if brm is None else min(brm, d)
    return gain, brm


def game_wire(nums, pays):
    return "nums=%s pays=%s" % (ints(nums), ratm([F(P.ravel()) for P in pays]))


# ----------------------------------------------------------------------------

def run(ctx):
    import quantecon as qe
    import quantecon._compute_fp as cfp
    import importlib
    mt_mod = importlib.import_module("quantecon.game_theory.mclennan_tourky")
    from quantecon.game_theory import NormalFormGame, Player

    # guard (whole run): the Numba kernel that fills the imitation-game tableaux must only ever see m x (2m+1) views
    orig_init_ig = cfp._initialize_tableaux_ig

    def guard_init_ig(X, Y, tableaux, bases):
        m = X.shape[0]
        if tableaux[0].shape != (m, 2 * m + 1) or tableaux[1].shape != (m, 2 * m + 1):
            raise NarrowTableaux("_initialize_tableaux_ig called for m=%d on tableau views of shape %s" % (m, tableaux[0].shape))
        return orig_init_ig(X, Y, tableaux, bases)
    cfp._initialize_tableaux_ig = guard_init_ig
    try:
        _run(ctx, qe, cfp, mt_mod, NormalFormGame, Player)
    finally:
        cfp._initialize_tableaux_ig = orig_init_ig


def _run(ctx, qe, cfp, mt_mod, NormalFormGame, Player):
    import importlib
    cases = []
    ctx.rule = ("affine maps with dyadic coefficients (contractions of known modulus, isometries, expansive maps, "
                "affine maps projected on a box = Brouwer maps), dimension 1-4, tolerances 1e-2..1e-8 and max_iter "
                "from 1 up; N-player games N in {2,3,4}, <=4 actions, integer/dyadic/float payoffs, pure and mixed "
                "starts, epsilon in {1e-2,1e-3,1e-4}; a case is non-trivial when the loop makes at least two "
                "evaluations (iteration), when a Lemke-Howson pass is involved (imitation) or when the profile is "
                "not pure (predicates); distinct by request line")

    # ---- argument checks -------------------------------------------------------------------------
    for mi, vb, me in [(0, 1, "iteration"), (-3, 0, "imitation_game"), (1, 3, "iteration"), (5, -1, "iteration"),
                       (5, 1, "newton"), (1, 2, "imitation_game"), (3, 0, "iteration"), (0, 5, "bogus")]:
        T = AffMap([[0.5]], [1.0], None)
        try:
            with warnings.catch_warnings():
                warnings.simplefilter("ignore")
                import io, contextlib
                with contextlib.redirect_stdout(io.StringIO()):
                    qe.compute_fixed_point(T, np.array([0.0]), 1e-3, mi, vb, 5, me)
            out = "ok"
        except ValueError:
            out = "ERR:ValueError"
            ctx.count("argcheck:ValueError")
        cases.append(Case("C15 argcheck maxiter=%d verbose=%d method=%s" % (mi, vb, me), out, nontrivial=False, tag="argcheck"))

    # ---- compute_fixed_point, method='iteration' ---------------------------------------------------
    kinds = ["contraction"] * 5 + ["nonexp", "expansive", "brouwer", "brouwer"]
    for _ in range(ctx.n(400, 1500)):
        kind = ctx.rng.choice(kinds)
        T, v0 = gen_aff(ctx, kind)
        tol = ctx.rng.choice([1e-2, 1e-3, 1e-4, 1e-6, 1e-8, 0.25, 0.0])
        mi = ctx.rng.choice([1, 2, 3, 5, 10, 50, 50, 200])
        T.scalar = (T.n == 1 and ctx.rng.random() < 0.4)
        if T.scalar:
            ctx.count("iter:scalar-argument")
        with warnings.catch_warnings(record=True) as wl:
            warnings.simplefilter("always")
            a_tol, a_mi, a_vb, a_ps, tol = arg_forms(ctx, tol, mi)
            v = qe.compute_fixed_point(T, v_form(ctx, T, v0), a_tol, a_mi, a_vb, a_ps, "iteration")
        v = np.atleast_1d(v)
        warned = any(issubclass(w.category, RuntimeWarning) and "max_iter attained" in str(w.message) for w in wl)
        its = len(T.calls_in)
        err = float(np.max(np.abs(T.calls_out[-1] - T.calls_in[-1])))
        ctx.count("iter:%s" % kind)
        ctx.count("iter:warned" if warned else "iter:converged")
        if its == mi and not warned:
            ctx.count("iter:converged-at-last-allowed-step")
        # --- spec (exact): the returned point is T of the previous one, flag <=> error > tol, and the
        #     accuracy the docstring promises for contractions / non-expansive maps
        vq = F(v)
        tolq = Fraction(tol)
        kap = T.kappa()
        replay = {"op": "iteration", "A": T.A, "b": T.b, "box": T.box, "v0": v0, "tol": tol, "max_iter": mi,
                  "returned": [float(t) for t in v], "warned": warned, "evaluations": its}
        if its > mi or its < 1:
            ctx.spec_fail("iteration_count", "%d evaluations with max_iter=%d" % (its, mi), replay)
        if not warned:
            step = max(abs(a - c) for a, c in zip(F(T.calls_out[-1]), F(T.calls_in[-1])))
            if step > tolq:
                ctx.spec_fail("iteration_flag", "no warning although the last step %.3e > tol" % float(step), replay)
            if kap <= 1:
                res = max(abs(a - c) for a, c in zip(T.exact(vq), vq))
                if res > tolq * (1 + SLACK) + Fraction(1, 10 ** 13):
                    ctx.spec_fail("iteration_residual", "no warning, modulus %s, but max|T(v)-v| = %.6e > tol = %g"
                                  % (kap, float(res), tol), replay)
            else:
                res = max(abs(a - c) for a, c in zip(T.exact(vq), vq))
                if res > tolq:
                    ctx.count("iter:expansive-witness(residual>tol, no warning; not promised)")
            if kap < 1 and T.box is None:
                xstar = solve_exact(T.A, T.b)
                dist = max(abs(a - c) for a, c in zip(vq, xstar))
                if dist > tolq / (1 - kap) * (1 + SLACK) + Fraction(1, 10 ** 12):
                    ctx.spec_fail("iteration_fixed_point_distance", "no warning, modulus %s, distance to the fixed point "
                                  "%.6e > tol/(1-modulus)" % (kap, float(dist)), replay)
                ctx.count("iter:distance-to-exact-fixed-point-checked")
        else:
            if its != mi:
                ctx.spec_fail("iteration_warning", "warning after %d < max_iter=%d evaluations" % (its, mi), replay)
        impl = "v=%s it=%d warn=%d err=%s" % (fxs(v), its, warned, fx(err))
        cases.append(Case("C15 iterf %s v=%s tol=%s maxiter=%d" % (T.wire(fx, fxm, fxs), fxs(v0), fx(tol), mi), impl,
                          nontrivial=its >= 2, tag="iterf"))
        if mi <= 50:
            def cmp(mo, impl_s, its=its, warned=warned, v=v, tolq=tolq, T=T):
                d = kvs(mo)
                # fragile if some step's exact error is within FRAG of tol
                frag = False
                for a, c in zip(T.calls_out, T.calls_in):
                    e = max(abs(p - q) for p, q in zip(F(a), F(c)))
                    if abs(e - tolq) <= FRAG:
                        frag = True
                if frag:
                    ctx.count("iter:rat-fragile-skipped")
                    return None
                if int(d["it"]) != its or int(d["warn"]) != int(warned):
                    return "iteration count / warning differ"
                for a, c in zip(parse_rats(d["v"]), F(v)):
                    if abs(a - c) > ENV * max(1, abs(c)):
                        return "point differs by %.3e" % float(abs(a - c))
                return None
            cases.append(Case("C15 iter %s v=%s tol=%s maxiter=%d" % (T.wire(fx, fxm, fxs), fxs(v0), fx(tol), mi), impl,
                              nontrivial=its >= 2, cmp=cmp, tag="iter"))

    # ---- compute_fixed_point, method='imitation_game' -------------------------------------------------
    def ig_case(T, v0, tol, mi, kind, b0=None):
        T.scalar = (T.n == 1 and ctx.rng.random() < 0.4)
        if T.scalar:
            ctx.count("ig:scalar-argument")
        with Recorder() as rec, warnings.catch_warnings(record=True) as wl:
            warnings.simplefilter("always")
            a_tol, a_mi, a_vb, a_ps, tol = arg_forms(ctx, tol, mi)
            try:
                v = qe.compute_fixed_point(T, v_form(ctx, T, v0), a_tol, a_mi, a_vb, a_ps, "imitation_game")
            except NarrowTableaux as e:
                ctx.spec_fail("ig_narrow_tableaux_8bit_max_iter", str(e), {"op": "imitation_game", "A": T.A, "b": T.b, "box": T.box,
                              "v0": v0, "tol": tol, "max_iter": repr(a_mi)})
                return
        warned = any(issubclass(w.category, RuntimeWarning) and "max_iter attained" in str(w.message) for w in wl)
        # T is evaluated twice at every visited point (line 191/228 and inside is_approx_fp)
        xs, ys = T.calls_in[::2], T.calls_out[::2]
        its = len(xs)
        replay = {"op": "imitation_game", "A": T.A, "b": T.b, "box": T.box, "v0": v0, "tol": tol, "max_iter": mi,
                  "returned": [float(t) for t in np.atleast_1d(v)], "warned": warned}
        ctx.count("ig:%s" % kind)
        ctx.count("ig:warned" if warned else "ig:converged")
        ctx.count("ig:lh-passes", len(rec.steps))
        if any(not np.all(np.isfinite(x)) for x in T.calls_in):
            ctx.spec_fail("ig_nonfinite_point", "the imitation-game loop evaluated T at a non-finite point "
                          "(the map sends its bounded domain into itself)", replay)
            return
        if len(T.calls_in) != 2 * its or any(not np.array_equal(a, b) for a, b in zip(T.calls_in[::2], T.calls_in[1::2])):
            ctx.spec_fail("ig_call_pattern", "T was not evaluated twice at every visited point", replay)
            return
        if its > mi:
            ctx.spec_fail("ig_iteration_count", "%d points visited with max_iter=%d" % (its, mi), replay)
        vq = F(np.atleast_1d(v))
        res = max(abs(a - c) for a, c in zip(T.exact(vq), vq))
        tolq = Fraction(tol)
        if not warned and res > tolq * (1 + SLACK) + Fraction(1, 10 ** 13):
            ctx.spec_fail("ig_residual", "no warning but max|T(v)-v| = %.6e > tol = %g" % (float(res), tol), replay)
        if warned and its != mi:
            ctx.spec_fail("ig_warning", "warning after %d < max_iter=%d iterations" % (its, mi), replay)
        if warned and res <= tolq * (1 - SLACK) - Fraction(1, 10 ** 13):
            ctx.spec_fail("ig_false_warning", "warning although the returned point has residual %.3e <= tol" % float(res), replay)
        if not np.array_equal(np.atleast_1d(v), xs[-1]):
            ctx.spec_fail("ig_returned_point", "the returned point is not the last point visited", replay)
        step_cases(ctx, cases, rec, xs, ys, "imitation_game")
        impl = "x=%s conv=%d it=%d" % (fxs(np.atleast_1d(v)), not warned, its)
        base = "%s v=%s tol=%s maxiter=%d" % (T.wire(fx, fxm, fxs), fxs(v0), fx(tol), mi)
        b0 = b0 or ctx.rng.choice([1, 2, 3, 256])
        cases.append(Case("C15 igf %s mode=replay xs=%s buff0=%d" % (base, fxm(xs), b0), impl,
                          nontrivial=len(rec.steps) >= 1, tag="igf-replay"))
        if mi <= 60:
            # trace fidelity (reported, never an alarm): the model at Float on its own, its own rho.dot(Y) in
            # sequential order vs the code's BLAS product
            def fid(mo, impl_s):
                ctx.count("fidelity:igf-real:" + ("bit-identical" if mo == impl_s else
                                                  "same-flag-and-count" if mo.split(" ")[1:] == impl_s.split(" ")[1:]
                                                  else "differs"))
                return None
            cases.append(Case("C15 igf %s mode=real xs=- buff0=%d" % (base, b0), impl, cmp=fid,
                              nontrivial=False, tag="igf-real-fidelity"))
        frag = any(abs(max(abs(a - c) for a, c in zip(F(y), F(x))) - tolq) <= FRAG for x, y in zip(xs, ys))
        if frag:
            ctx.count("ig:fragile-threshold")
        # (bounded by max_iter, not by what the code happened to do: the model's own run must stay small
        #  even if the code stops early for a wrong reason)
        if mi <= ctx.n(10, 12) and not frag:
            # the model on its own, exact rationals
            def cmp(mo, impl_s, v=v, warned=warned, its=its):
                d = kvs(mo)
                if int(d["conv"]) != int(not warned) or int(d["it"]) != its:
                    return "flag / iteration count differ"
                for a, c in zip(parse_rats(d["x"]), F(np.atleast_1d(v))):
                    if abs(a - c) > ENV * max(1, abs(c)):
                        return "point differs by %.3e" % float(abs(a - c))
                return None
            cases.append(Case("C15 ig %s mode=real xs=- buff0=%d" % (base, b0), impl, cmp=cmp,
                              nontrivial=len(rec.steps) >= 1, tag="ig-real"))


    for _ in range(ctx.n(150, 500)):
        # (the domain of the property: contractions and Brouwer maps on boxes; isometries as a bounded extra)
        kind = ctx.rng.choice(["contraction", "contraction", "brouwer", "brouwer", "brouwer", "nonexp"])
        T, v0 = gen_aff(ctx, kind)
        tol = ctx.rng.choice([1e-2, 1e-3, 1e-4, 1e-6, 0.0])
        mi = ctx.rng.choice([1, 2, 3, 4, 6, 10, 25, 50])
        ig_case(T, v0, tol, mi, kind)
    # runs longer than the initial buffer of 2**8 rows (lines 243-253: the arrays are re-allocated)
    long_maps = [([[0.5, -0.75], [0.75, 0.5]], [0.3, 0.1], None), ([[0, -1.5, 0], [1.5, 0, 0.25], [0.5, 0.5, -1]], [1, 0.2, 0.4], (0.0, 1.0)),
                 ([[0, -1], [1, 0]], [1, 0], (0.0, 1.0))]
    for A, b, box in long_maps[:ctx.n(1, 3)]:
        T = AffMap(A, b, box)
        ig_case(T, [0.25] * len(b), 0.0, ctx.rng.choice([258, 300]), "long(>256 iterations)", b0=256)
        if len(T.calls_in) // 2 > 257:
            ctx.count("ig:buffer-reallocated-in-code")

    # ---- mclennan_tourky ------------------------------------------------------------------------------
    orig_brs, orig_eps = mt_mod._best_response_selection, mt_mod._is_epsilon_nash
    for _ in range(ctx.n(150, 600)):
        nums, pays, kind = gen_game(ctx)
        N = len(nums)
        g = NormalFormGame([Player(P) for P in pays])
        init, init_wire, init_denotes = gen_init(ctx, nums)
        eps = ctx.rng.choice([1e-2, 1e-3, 1e-4])
        mi = ctx.rng.choice([1, 2, 3, 5, 8, 20, 60, 200])
        # epsilon / max_iter in their argument forms; the call itself positional / keyword / with defaults
        eps_arg, eps = tol_form(ctx, eps, "epsilon")
        mi_arg = int_form(ctx, mi, "max_iter(mt)")
        visited, images, flags = [], [], []

        def brs(x, g, indptr=None):
            out = orig_brs(x, g, indptr)
            visited.append(np.array(x, dtype=float).copy())
            images.append(out.copy())
            return out

        def ien(x, g, epsilon, indptr=None):
            r = orig_eps(x, g, epsilon, indptr)
            flags.append(bool(r))
            return r
        mt_mod._best_response_selection, mt_mod._is_epsilon_nash = brs, ien
        try:
            with Recorder() as rec:
                NE, res = mt_mod.mclennan_tourky(g, init, eps_arg, mi_arg, full_output=True)
        except NarrowTableaux as e:
            ctx.spec_fail("ig_narrow_tableaux_8bit_max_iter", str(e), {"op": "mclennan_tourky", "nums": nums,
                          "payoff_arrays": [P.tolist() for P in pays], "init": init_repr(init), "epsilon": eps, "max_iter": repr(mi_arg)})
            continue
        finally:
            mt_mod._best_response_selection, mt_mod._is_epsilon_nash = orig_brs, orig_eps
        xs, ys = visited, images
        pays_q = q_arrays(pays)
        epsq = Fraction(eps)
        replay = {"op": "mclennan_tourky", "nums": nums, "payoff_arrays": [P.tolist() for P in pays],
                  "init": init_repr(init), "epsilon": eps, "max_iter": mi,
                  "NE": [list(map(float, a)) for a in NE], "converged": bool(res.converged), "num_iter": int(res.num_iter)}
        ctx.count("mt:N=%d" % N)
        ctx.count("mt:payoffs=%s" % kind)
        ctx.count("mt:converged" if res.converged else "mt:not-converged")
        ctx.count("mt:lh-passes", len(rec.steps))
        # --- spec
        # the run starts from the profile the argument denotes (pure action k -> e_k, mixed action -> itself)
        want0 = [t for blk in init_denotes for t in blk]
        if len(xs) < 1 or F(xs[0]) != want0:
            ctx.spec_fail("mt_init_profile", "the first point visited %s is not the initial profile given %s"
                          % (list(map(float, xs[0])) if xs else None, [float(t) for t in want0]), replay)
        cases.append(Case("C15 flatinit nums=%s init=%s" % (ints(nums), "|".join(init_wire)),
                          rats(F(xs[0])) if xs else "-", nontrivial=any(w[0] != "p" for w in init_wire), tag="flatinit"))
        prof_q = [F(a) for a in NE]
        gain, _ = nash_margins(nums, pays_q, prof_q, epsq)
        if res.converged:
            for i, a in enumerate(prof_q):
                if len(a) != nums[i] or any(t < -Fraction(1, 10 ** 12) for t in a) or abs(sum(a) - 1) > ENV:
                    ctx.spec_fail("mt_probability_vector", "converged, but player %d's action %s is not a probability vector"
                                  % (i, list(map(float, a))), replay)
            if gain < -SLACK:
                ctx.spec_fail("mt_epsilon_nash", "converged, but some player can gain %.6e more than epsilon=%g"
                              % (float(-gain), eps), replay)
            if res.num_iter > mi:
                ctx.spec_fail("mt_num_iter", "num_iter %d > max_iter %d" % (res.num_iter, mi), replay)
        else:
            if res.num_iter != mi:
                ctx.spec_fail("mt_not_converged_early", "not converged after %d < max_iter=%d iterations" % (res.num_iter, mi), replay)
            if gain > SLACK:
                ctx.spec_fail("mt_false_negative", "not converged although the returned profile is an epsilon-Nash "
                              "equilibrium with margin %.3e" % float(gain), replay)
        if res.num_iter != len(xs):
            ctx.spec_fail("mt_num_iter", "num_iter=%d but %d points visited" % (res.num_iter, len(xs)), replay)
        # hypothesis (h2) of mt_profile_prob_partial: every image is a profile of pure actions
        for y in ys:
            for blk in split(nums, F(y)):
                if sorted(blk) != [Fraction(0)] * (len(blk) - 1) + [Fraction(1)]:
                    ctx.spec_fail("mt_image_pure", "_best_response_selection returned %s" % list(map(float, y)), replay)
        # --- correspondence
        step_cases(ctx, cases, rec, xs, ys, "mclennan_tourky")
        gw = game_wire(nums, pays)
        frag = False
        for k, x in enumerate(xs):
            pq = split(nums, F(x))
            gk, brk = nash_margins(nums, pays_q, pq, epsq)
            pure = all(t in (0, 1) for t in F(x))
            if abs(gk) <= FRAG:
                frag = True
                ctx.count("mt:nash-threshold-fragile")
            else:
                cases.append(Case("C15 isnash %s x=%s eps=%s" % (gw, rats(F(x)), rat(epsq)), "nash=%d" % flags[k],
                                  cmp=lambda mo, im: None if mo.split(" ")[0] == im else "epsilon-Nash verdicts differ",
                                  nontrivial=not pure, tag="isnash"))
            if brk <= FRAG:
                ctx.count("mt:br-threshold-fragile")
            else:
                cases.append(Case("C15 brsel %s x=%s tol=%s" % (gw, rats(F(x)), rat(TOL_BR)), rats(F(ys[k])),
                                  nontrivial=not pure, tag="brsel"))
        x0 = xs[0]
        impl = "x=%s conv=%d it=%d" % (rats(F(np.concatenate(NE))), res.converged, res.num_iter)
        if not frag:
            cases.append(Case("C15 mt %s x0=%s eps=%s tolbr=%s maxiter=%d mode=replay xs=%s" % (
                gw, rats(F(x0)), rat(epsq), rat(TOL_BR), mi, ratm([F(x) for x in xs])), impl,
                nontrivial=len(rec.steps) >= 1, tag="mt-replay"))
            brfrag = any(nash_margins(nums, pays_q, split(nums, F(x)), epsq)[1] <= FRAG for x in xs)
            if mi <= 8 and not brfrag:
                # the model on its own (exact rationals, its own Lemke-Howson)
                def cmp(mo, impl_s, NE=NE, res=res):
                    d = kvs(mo)
                    if int(d["conv"]) != int(res.converged) or int(d["it"]) != res.num_iter:
                        return "flag / iteration count differ"
                    for a, c in zip(parse_rats(d["x"]), F(np.concatenate(NE))):
                        if abs(a - c) > ENV:
                            return "profile differs by %.3e" % float(abs(a - c))
                    return None
                cases.append(Case("C15 mt %s x0=%s eps=%s tolbr=%s maxiter=%d mode=real xs=-" % (
                    gw, rats(F(x0)), rat(epsq), rat(TOL_BR), mi), impl, cmp=cmp,
                    nontrivial=len(rec.steps) >= 1, tag="mt-real"))

    # random profiles for the predicates (not only visited points)
    for _ in range(ctx.n(150, 600)):
        nums, pays, kind = gen_game(ctx)
        g = NormalFormGame([Player(P) for P in pays])
        init, init_wire, init_denotes = gen_init(ctx, nums)
        indptr = np.concatenate([[0], np.cumsum(nums)])
        x = mt_mod._flatten_action_profile(init, indptr)
        if F(x) != [t for blk in init_denotes for t in blk]:
            ctx.spec_fail("flatten_action_profile", "_flatten_action_profile gave %s" % list(map(float, x)),
                          {"nums": nums, "init": init_repr(init)})
        cases.append(Case("C15 flatinit nums=%s init=%s" % (ints(nums), "|".join(init_wire)), rats(F(x)),
                          nontrivial=any(w[0] != "p" for w in init_wire), tag="flatinit"))
        eps = ctx.rng.choice([1e-2, 1e-3, 1e-4, 0.5, 2.0])
        pays_q = q_arrays(pays)
        pq = split(nums, F(x))
        gk, brk = nash_margins(nums, pays_q, pq, Fraction(eps))
        flag = bool(mt_mod._is_epsilon_nash(x, g, eps, indptr))
        img = mt_mod._best_response_selection(x, g, indptr)
        gw = game_wire(nums, pays)
        pure = all(t in (0, 1) for t in F(x))
        if abs(gk) > FRAG:
            if flag != (gk >= 0):
                ctx.spec_fail("is_epsilon_nash", "_is_epsilon_nash=%s but exact margin %.3e" % (flag, float(gk)),
                              {"nums": nums, "payoff_arrays": [P.tolist() for P in pays], "x": list(map(float, x)), "epsilon": eps})
            ctx.count("isnash:%s" % flag)
            cases.append(Case("C15 isnash %s x=%s eps=%s" % (gw, rats(F(x)), rat(Fraction(eps))), "nash=%d" % flag,
                              cmp=lambda mo, im: None if mo.split(" ")[0] == im else "epsilon-Nash verdicts differ",
                              nontrivial=not pure, tag="isnash"))
        if brk > FRAG:
            cases.append(Case("C15 brsel %s x=%s tol=%s" % (gw, rats(F(x)), rat(TOL_BR)), rats(F(img)),
                              nontrivial=not pure, tag="brsel"))

    # ---- polym_lcp_solver: spec run (exact Nash / probability vectors / convergence) + correspondence with the
    #      model of Howson's LCP (pivot sequence, final basis, flag, count: exact; profile: bits at Float) -------
    from quantecon.game_theory import PolymatrixGame, polym_lcp_solver
    import importlib as _il
    how_mod = _il.import_module("quantecon.game_theory.howson_lcp")
    orig_piv, orig_lex = how_mod._pivoting, how_mod._lex_min_ratio_test
    how_rec = {"piv": [], "basis": None}

    def piv_rec(tableau, pivot_col, pivot_row):
        how_rec["piv"].append((int(pivot_col), int(pivot_row)))
        return orig_piv(tableau, pivot_col, pivot_row)

    def sol_rec(tableau, basis, z):
        how_rec["basis"] = [int(t) for t in basis]
        return orig_sol(tableau, basis, z)
    orig_sol = how_mod._get_solution
    def back_stats(nums, st, trace):
        """generator steering only: replay the bookkeeping of the recorded pivots and count the back-tracking
        steps and the retro starts at which the slack finishing_y is basic in another row"""
        N, ta = len(nums), sum(nums)
        n = ta + N
        ind = [sum(nums[:i]) for i in range(N)]
        basis = list(range(n))
        for pl in range(N):
            basis[ta + pl] = n + ind[pl] + st[pl]
        pl, back, moved, retro = 0, 0, 0, False
        for col, row in trace:
            if not (0 <= pl < N):
                break
            fx = n + ind[pl] + st[pl]
            fy, fv = fx - n, ta + n + pl
            if retro and fy in basis and basis[fy] != fy:
                moved += 1
            retro = False
            leaving, basis[row] = basis[row], col
            if leaving in (fx, fy):
                pl += 1
            elif leaving == fv:
                pl -= 1
                back += 1
                retro = True
        return back, moved

    def gen_poly(N=None, generic=None):
        N = N or ctx.rng.choice([2, 2, 3, 3, 4, 4])
        nums = [ctx.rng.randint(2, 4) for _ in range(N)]
        generic = (ctx.rng.random() < 0.6) if generic is None else generic
        mats = {}
        if generic:
            kind = "generic"
        else:
            kind = ctx.rng.choice(["int-3..3", "int-3..3", "int0..99", "int-10..10", "min-and-max-in-one-matrix"])
        for i in range(N):
            for j in range(N):
                if i != j:
                    if generic:
                        mats[(i, j)] = [[ctx.rng.uniform(-1, 1) for _ in range(nums[j])] for _ in range(nums[i])]
                    elif kind == "int0..99":
                        mats[(i, j)] = [[float(ctx.rng.randint(0, 99)) for _ in range(nums[j])] for _ in range(nums[i])]
                    elif kind == "int-10..10":
                        mats[(i, j)] = [[float(ctx.rng.randint(-10, 10)) for _ in range(nums[j])] for _ in range(nums[i])]
                    elif kind == "min-and-max-in-one-matrix":
                        mats[(i, j)] = [[float(ctx.rng.randint(20, 60)) for _ in range(nums[j])] for _ in range(nums[i])]
                    else:
                        mats[(i, j)] = [[float(ctx.rng.randint(-3, 3)) for _ in range(nums[j])] for _ in range(nums[i])]
        if kind == "min-and-max-in-one-matrix":
            # one head-to-head matrix (not the first one) holds both the global minimum and the global maximum
            keys = list(mats)
            k = ctx.rng.choice(keys[1:])
            M = mats[k]
            cells = [(a, b) for a in range(len(M)) for b in range(len(M[0]))]
            (a1, b1), (a2, b2) = ctx.rng.sample(cells, 2)
            M[a1][b1] = float(ctx.rng.randint(0, 10))
            M[a2][b2] = float(ctx.rng.randint(80, 99))
        ctx.count("polym:payoffs:%s" % kind)
        return N, nums, generic, mats

    def mk_pg(mats):
        """build the game; its range_of_payoffs() is judged exactly (definition) and tied to the model's hRange"""
        pg = PolymatrixGame(mats)   # noqa
        lo, hi = pg.range_of_payoffs()
        allv = [t for v in mats.values() for r in v for t in r]
        if Fraction(float(lo)) != Fraction(min(allv)) or Fraction(float(hi)) != Fraction(max(allv)):
            ctx.spec_fail("polym_range_of_payoffs", "range_of_payoffs() = (%r, %r), the entries range over (%r, %r)"
                          % (float(lo), float(hi), min(allv), max(allv)),
                          {"op": "PolymatrixGame.range_of_payoffs", "matrices": {"%d,%d" % k: v for k, v in mats.items()}})
        cases.append(Case("C15 range pm=%s" % ratm([F(np.array(v).ravel()) for v in mats.values()]),
                          "%s,%s" % (rat(Fraction(float(lo))), rat(Fraction(float(hi)))),
                          nontrivial=len(mats) >= 2, tag="range"))
        return pg

    def poly_case(N, nums, generic, mats, pg, matq, scale, st, cap=None):
        cap = cap if cap is not None else ctx.rng.choice([3000, 3000, 3000, 3000, 1, 2, 5, 9])
        how_rec["piv"], how_rec["basis"] = [], None
        how_mod._pivoting, how_mod._get_solution = piv_rec, sol_rec
        try:
            sform = ctx.rng.choice(["list", "tuple", "ndarray", "0-d", "bool"])
            sty = ctx.rng.choice(INT_TYPES)
            if sform == "ndarray":
                st_arg = np.array(st, dtype=(np.int64 if sty is int else sty))
            elif sform == "0-d":
                st_arg = [np.array(a, dtype=(np.int64 if sty is int else sty)) for a in st]
            elif sform == "bool" and max(st) <= 1:
                st_arg = [bool(a) for a in st]
            else:
                st_arg = [sty(a) for a in st]
                st_arg = tuple(st_arg) if sform == "tuple" else st_arg
            ctx.count("arg-form:polym-start:%s" % sform)
            cap_arg = cap if ctx.rng.random() < 0.5 else np.int64(cap)
            NE, res = polym_lcp_solver(pg, starting_player_actions=st_arg, max_iter=cap_arg, full_output=True)
        finally:
            how_mod._pivoting, how_mod._get_solution = orig_piv, orig_sol
        # --- correspondence: the N initial pivots are not part of the trace
        trace = how_rec["piv"][N:]
        pairs = [(i, j) for i in range(N) for j in range(N) if i != j]
        impl = "conv=%d it=%d piv=%s basis=%s ne=%s" % (res.converged, res.num_iter,
                                                        ",".join("%d:%d" % t for t in trace) if trace else "-",
                                                        ints(how_rec["basis"]), fxs(np.concatenate(NE)))

        def hcmp(mo, impl_s, exact=True, NE=NE, tagc="howf"):
            if " | " not in mo:
                return "model answered " + mo
            head, ghost = mo.split(" | ")
            g = kvs(ghost)
            if exact:
                ok = head == impl_s
            else:
                hm, hi = head.rsplit(" ne=", 1), impl_s.rsplit(" ne=", 1)
                ok = hm[0] == hi[0] and all(abs(a - c) <= ENV for a, c in zip(parse_rats(hm[1]), F(np.concatenate(NE))))
            if not ok:
                return "pivot sequence / basis / flag / count / profile differ"
            if tagc == "how0" and kvs(head)["conv"] == "1":
                ctx.count("howson:tol0-generic:converged:certificate-%s" % (
                    "holds" if g["cert"] == "1" and g["allfound"] == "1" and g["negp"] == "0" else "fails"))
            if tagc == "howf":
                ctx.count("howson:N=%s:runs" % g["N"])
                for k in ("back", "rx", "ry", "moved"):
                    if int(g[k]):
                        ctx.count("howson:N=%s:runs-with-%s" % (g["N"], {"back": "backtracking", "rx": "retro-enters-finishing_x",
                                  "ry": "retro-enters-finishing_y", "moved": "retro-with-slack-in-another-row"}[k]))
                ctx.count("howson:backtracking-steps", int(g["back"]))
                if kvs(head)["conv"] == "1":
                    ctx.count("howson:converged:certificate-%s" % ("holds" if g["cert"] == "1" and g["allfound"] == "1" else "fails"))
            return None
        req = "nums=%s start=%s pm=%%s maxiter=%d fuel=%d" % (ints(nums), ints(st), cap, 2 * cap + 50 if cap >= 0 else 20000)
        cases.append(Case("C15 howf " + req % fxm([np.array(mats[k]).ravel() for k in pairs]), impl, cmp=hcmp,
                          nontrivial=len(trace) >= 2, tag="howf"))
        if not generic:
            # degenerate (integer) games at tolerances 0: the exact run may legitimately take another path than the
            # code's floating-point run, so nothing is compared; recorded: does the model's own converged run carry the
            # certificate (ghost flags clean, final right-hand side >= 0, complementary basis)?
            def rec0(mo, impl_s):
                if " | " in mo:
                    head, ghost = mo.split(" | ")
                    g = kvs(ghost)
                    if kvs(head)["conv"] == "1":
                        ctx.count("howson:tol0-integer:converged:certificate-%s" % (
                            "holds" if g["cert"] == "1" and g["allfound"] == "1" and g["negp"] == "0" else "fails"))
                return None
            cases.append(Case("C15 how " + req % ratm([F(np.array(mats[k]).ravel()) for k in pairs]) + " tolpiv=0 toldiff=0",
                              impl, cmp=rec0, nontrivial=False, tag="how-tol0-integer(record-only)"))
        if generic:
            rq = ratm([F(np.array(mats[k]).ravel()) for k in pairs])
            cases.append(Case("C15 how " + req % rq + " tolpiv=%s toldiff=%s" % (rat(Fraction(1e-10)), rat(Fraction(1e-15))),
                              impl, cmp=lambda mo, im, NE=NE: hcmp(mo, im, exact=False, NE=NE, tagc="how"),
                              nontrivial=len(trace) >= 2, tag="how"))
            cases.append(Case("C15 how " + req % rq + " tolpiv=0 toldiff=0", impl,
                              cmp=lambda mo, im, NE=NE: hcmp(mo, im, exact=False, NE=NE, tagc="how0"),
                              nontrivial=len(trace) >= 2, tag="how-tol0"))
        replay = {"op": "polym_lcp_solver", "matrices": {"%d,%d" % k: v for k, v in mats.items()}, "start": list(st),
                  "max_iter": cap, "NE": [list(map(float, a)) for a in NE], "converged": bool(res.converged),
                  "num_iter": int(res.num_iter)}
        ctx.count("polym:%s:%s" % ("generic" if generic else "integer", "converged" if res.converged else "gave-up(max_iter=%d)" % cap))
        if res.converged:
            prof = [F(a) for a in NE]
            bad = None
            for i, a in enumerate(prof):
                if len(a) != nums[i] or any(t < -Fraction(1, 10 ** 9) for t in a) or abs(sum(a) - 1) > ENV:
                    bad = "player %d's action %s is not a probability vector" % (i, list(map(float, a)))
            for i in range(N):
                pv = [sum((sum((matq[(i, j)][a][b] * prof[j][b] for b in range(nums[j])), Fraction(0))
                           for j in range(N) if j != i), Fraction(0)) for a in range(nums[i])]
                u = sum(p * w for p, w in zip(pv, prof[i]))
                if max(pv) - u > Fraction(1, 10 ** 8) * scale:
                    bad = bad or "player %d can gain %.3e" % (i, float(max(pv) - u))
            if bad:
                ctx.spec_fail("polym_lcp_nash", "converged, but " + bad, replay)
        elif cap >= 3000 and generic:
            ctx.spec_fail("polym_lcp_convergence", "generic payoffs, no convergence within %d pivots" % cap, replay)
        elif res.num_iter != cap:
            ctx.spec_fail("polym_lcp_flag", "not converged after %d != max_iter=%d pivots" % (res.num_iter, cap), replay)
        return NE, res


    for _ in range(ctx.n(40, 250)):
        N, nums, generic, mats = gen_poly()
        pg = mk_pg(mats)
        matq = {k: [[Fraction(t) for t in r] for r in v] for k, v in mats.items()}
        scale = 1 + max(abs(t) for v in matq.values() for r in v for t in r) * N
        starts = list(itertools.product(*[range(n) for n in nums]))
        if len(starts) > ctx.n(12, 81):
            starts = ctx.rng.sample(starts, ctx.n(12, 81))
        for st in starts:
            poly_case(N, nums, generic, mats, pg, matq, scale, st)

    # the default `max_iter=-1` ("never give up") only on the docstring's matching pennies: a tree that cycles must
    # not be able to hang the check, so every generated run has a finite cap
    mp = {(0, 1): [[1., -1.], [-1., 1.]], (1, 0): [[-1., 1.], [1., -1.]]}
    poly_case(2, [2, 2], True, mp, PolymatrixGame(mp), {k: [[Fraction(t) for t in r] for r in v] for k, v in mp.items()},
              Fraction(3), (0, 0), cap=-1)

    # corpus (runs first in spirit: fixed inputs found by an offline search over ~440 four-player games): runs whose
    # back-tracking restarts while the slack w_{p,start_p} is basic in a row other than its original one - the
    # situation in which `finishing_y in basis` and an O(1) look-up `basis[finishing_y] == finishing_y` differ
    import json as _json
    import os as _os
    cpath = _os.path.join(ctx.corpus_dir, "c15_howson_moved.json")
    if _os.path.exists(cpath):
        for ent in _json.load(open(cpath)):
            nums = ent["nums"]
            N = len(nums)
            mats = {tuple(int(t) for t in k.split(",")): v for k, v in ent["matrices"].items()}
            generic = ent["kind"] == "generic"
            pg = mk_pg(mats)
            matq = {k: [[Fraction(t) for t in r] for r in v] for k, v in mats.items()}
            scale = 1 + max(abs(t) for v in matq.values() for r in v for t in r) * N
            ctx.count("howson:corpus-cases")
            poly_case(N, nums, generic, mats, pg, matq, scale, tuple(ent["start"]), cap=3000)

    # back-tracking stream: all pure starts of further games are screened with the code itself; every start whose
    # run back-tracks (leaving variable = finishing_v) becomes a case (full run, max_iter=-1 / 3000)
    for _ in range(ctx.n(25, 150)):
        N, nums, generic, mats = gen_poly(N=ctx.rng.choice([3, 4, 4]))
        pg = mk_pg(mats)
        matq = {k: [[Fraction(t) for t in r] for r in v] for k, v in mats.items()}
        scale = 1 + max(abs(t) for v in matq.values() for r in v for t in r) * N
        kept = 0
        for st in itertools.product(*[range(n) for n in nums]):
            how_rec["piv"] = []
            how_mod._pivoting = piv_rec
            try:
                polym_lcp_solver(pg, starting_player_actions=list(st), max_iter=3000)
            finally:
                how_mod._pivoting = orig_piv
            ctx.count("howson:screened-starts")
            back, moved = back_stats(nums, st, how_rec["piv"][N:])
            if back and (kept < 6 or moved):
                kept += 1
                poly_case(N, nums, generic, mats, pg, matq, scale, st, cap=3000)

    # ---- HISTORIES on one object / in one process, KEPT RESULTS, ALIASING ------------------------------------------
    # Every result returned earlier is kept (live object + its bytes at return time) and re-judged after every later
    # call: it must be bitwise unchanged; no returned array may share memory with an input, with an earlier result
    # or with the object's own arrays (documented exceptions are modelled: method='iteration' updates an ndarray `v`
    # in place and returns that very object; a run that stops at its first evaluation returns the point it was
    # given); inputs are bitwise unchanged; every answer is a function of the arguments only: the same call on a
    # freshly built object gives the same bits.
    kept = []

    def keep(label, arrs, replay):
        arrs = [np.asarray(a) for a in arrs]
        kept.append((label, arrs, [a.tobytes() for a in arrs], replay))

    def rejudge(after):
        for label, arrs, bts, rp in kept:
            for a, b in zip(arrs, bts):
                if a.tobytes() != b:
                    ctx.spec_fail("kept_result_changed", "the result of %s changed after %s" % (label, after),
                                  {"earlier": rp, "after": after})
        ctx.count("history:kept-results-rejudged", len(kept))

    def no_share(label, arrs, others, what, replay):
        for a in arrs:
            for o in others:
                if isinstance(o, np.ndarray) and isinstance(a, np.ndarray) and np.shares_memory(a, o):
                    ctx.spec_fail("aliasing:" + what, "%s returned an array sharing memory with %s" % (label, what), replay)
        ctx.count("aliasing:checked:" + what)

    # compute_fixed_point, both methods interleaved on one map object
    for _ in range(ctx.n(6, 40)):
        kind = ctx.rng.choice(["contraction", "brouwer"])
        T, _v = gen_aff(ctx, kind)
        T.scalar = False
        kept.clear()
        first = None
        for step in range(ctx.rng.randint(3, 6)):
            den = 8
            v0 = [ctx.rng.randint(0, den) / den for _ in range(T.n)]
            meth = ctx.rng.choice(["iteration", "imitation_game"])
            tol = ctx.rng.choice([1e-2, 1e-4, 0.0])
            mi = ctx.rng.choice([1, 2, 5, 30])
            v = np.array(v0)
            vb = v.tobytes()
            n_before = len(T.calls_in)
            with warnings.catch_warnings(record=True) as wl:
                warnings.simplefilter("always")
                r = qe.compute_fixed_point(T, v, tol, mi, 1, 5, meth)
            warned = any("max_iter attained" in str(w.message) for w in wl)
            evals = len(T.calls_in) - n_before
            rp = {"op": "compute_fixed_point", "A": T.A, "b": T.b, "box": T.box, "v0": v0, "tol": tol, "max_iter": mi,
                  "method": meth, "history_step": step, "returned": [float(t) for t in np.atleast_1d(r)]}
            ctx.count("history:cfp:%s" % meth)
            if meth == "iteration":
                # documented: an ndarray v is modified in place; the object returned is v itself
                if r is not v:
                    ctx.spec_fail("iteration_returns_v", "method='iteration' did not return the (updated) array it was given", rp)
            else:
                its = evals // 2
                if its == 1:
                    if r is not v and np.shares_memory(np.asarray(r), v):
                        ctx.spec_fail("aliasing:input", "imitation_game returned a view of v", rp)
                else:
                    no_share("compute_fixed_point(imitation_game)", [np.asarray(r)], [v], "input", rp)
                if v.tobytes() != vb:
                    ctx.spec_fail("input_modified", "method='imitation_game' modified v", rp)
                rq = F(np.atleast_1d(r))
                resid = max(abs(a - c) for a, c in zip(T.exact(rq), rq))
                if not warned and resid > Fraction(tol) * (1 + SLACK) + Fraction(1, 10 ** 13):
                    ctx.spec_fail("ig_residual", "no warning but max|T(v)-v| = %.6e > tol = %g" % (float(resid), tol), rp)
            no_share("compute_fixed_point", [np.asarray(r)], [a for _, arrs, _, _ in kept for a in arrs], "earlier-result", rp)
            keep("compute_fixed_point call %d (%s)" % (step, meth), [r], rp)
            rejudge("compute_fixed_point call %d (%s)" % (step, meth))
            if first is None:
                first = (v0, tol, mi, meth, np.asarray(r).tobytes(), warned)
        # the first call again, on a fresh map object: same bits (the answer is a function of the arguments only)
        v0, tol, mi, meth, b0, w0 = first
        T2 = AffMap(T.A, T.b, T.box)
        with warnings.catch_warnings(record=True) as wl:
            warnings.simplefilter("always")
            r2 = qe.compute_fixed_point(T2, np.array(v0), tol, mi, 1, 5, meth)
        if np.asarray(r2).tobytes() != b0 or any("max_iter attained" in str(w.message) for w in wl) != w0:
            ctx.spec_fail("history_dependence", "compute_fixed_point gave another answer when the same call was repeated",
                          {"A": T.A, "b": T.b, "box": T.box, "v0": v0, "tol": tol, "max_iter": mi, "method": meth})

    # mclennan_tourky: several calls on ONE game object, interleaved with its other methods and with other games
    other_games = []
    for _ in range(ctx.n(12, 80)):
        nums, pays, kind = gen_game(ctx)
        N = len(nums)
        pristine = [P.copy() for P in pays]
        g = NormalFormGame([Player(P) for P in pays])
        other_games.append((nums, g))
        own = lambda: [pl.payoff_array for pl in g.players]
        own_bytes = [a.tobytes() for a in own()]
        pays_q = q_arrays(pristine)
        kept.clear()
        for step in range(ctx.rng.randint(2, 5)):
            init, init_wire, init_denotes = gen_init(ctx, nums)
            init_arrs = [t for t in (init if not isinstance(init, np.ndarray) else [init]) if isinstance(t, np.ndarray)]
            init_bytes = [t.tobytes() for t in init_arrs]
            eps = ctx.rng.choice([1e-2, 1e-3, 1e-4])
            mi = ctx.rng.choice([1, 2, 5, 30, 100])
            # interleave: the game's own queries, and a run on another game of the process
            t = ctx.rng.randrange(4)
            if t == 0:
                g.is_nash(tuple(0 for _ in nums))
            elif t == 1:
                g.players[0].best_response(tuple(0 for _ in nums[1:]) if N > 2 else 0)
            elif t == 2 and len(other_games) > 1:
                n2, g2 = ctx.rng.choice(other_games[:-1])
                mt_mod.mclennan_tourky(g2, None, 1e-2, 3)
            NE, res = mt_mod.mclennan_tourky(g, init, eps, mi, full_output=True)
            rp = {"op": "mclennan_tourky", "nums": nums, "payoff_arrays": [P.tolist() for P in pristine], "init": init_repr(init),
                  "epsilon": eps, "max_iter": mi, "history_step": step, "NE": [list(map(float, a)) for a in NE],
                  "converged": bool(res.converged), "num_iter": int(res.num_iter)}
            ctx.count("history:mt:calls-on-one-game")
            if [a.tobytes() for a in own()] != own_bytes:
                ctx.spec_fail("game_modified", "mclennan_tourky modified the game's payoff arrays", rp)
            if [t.tobytes() for t in init_arrs] != init_bytes:
                ctx.spec_fail("input_modified", "mclennan_tourky modified init", rp)
            no_share("mclennan_tourky", list(NE), own(), "object-arrays", rp)
            no_share("mclennan_tourky", list(NE), init_arrs, "input", rp)
            no_share("mclennan_tourky", list(NE), [a for _, arrs, _, _ in kept for a in arrs], "earlier-result", rp)
            # oracle
            prof_q = [F(a) for a in NE]
            gain, _ = nash_margins(nums, pays_q, prof_q, Fraction(eps))
            if res.converged:
                if any(len(a) != n or any(x < -Fraction(1, 10 ** 12) for x in a) or abs(sum(a) - 1) > ENV for a, n in zip(prof_q, nums)):
                    ctx.spec_fail("mt_probability_vector", "converged, but the profile is not made of probability vectors", rp)
                if gain < -SLACK:
                    ctx.spec_fail("mt_epsilon_nash", "converged, but some player can gain %.6e more than epsilon=%g" % (float(-gain), eps), rp)
            elif res.num_iter != mi:
                ctx.spec_fail("mt_not_converged_early", "not converged after %d < max_iter=%d iterations" % (res.num_iter, mi), rp)
            if res.num_iter > mi:
                ctx.spec_fail("mt_num_iter", "num_iter %d > max_iter %d" % (res.num_iter, mi), rp)
            # the same call on a freshly built game object
            gf = NormalFormGame([Player(P.copy()) for P in pristine])
            NEf, resf = mt_mod.mclennan_tourky(gf, init, eps, mi, full_output=True)
            if [a.tobytes() for a in NEf] != [a.tobytes() for a in NE] or resf.converged != res.converged or resf.num_iter != res.num_iter:
                ctx.spec_fail("history_dependence", "mclennan_tourky on a used game object differs from the same call on a fresh one", rp)
            keep("mclennan_tourky call %d" % step, list(NE), rp)
            rejudge("mclennan_tourky call %d" % step)

    # polym_lcp_solver: several calls on ONE PolymatrixGame, interleaved with its other methods
    for _ in range(ctx.n(8, 50)):
        N, nums, generic, mats = gen_poly()
        pg = mk_pg(mats)
        pristine = {k: np.array(v, dtype=float) for k, v in mats.items()}
        matq = {k: [[Fraction(t) for t in r] for r in v] for k, v in mats.items()}
        scale = 1 + max(abs(t) for v in matq.values() for r in v for t in r) * N
        kept.clear()
        for step in range(ctx.rng.randint(2, 5)):
            st = tuple(ctx.rng.randrange(n) for n in nums)
            t = ctx.rng.randrange(3)
            if t == 0:
                pg.range_of_payoffs()
            elif t == 1:
                pg.to_nfg()
            NE, res = poly_case(N, nums, generic, mats, pg, matq, scale, st)   # oracle + correspondence inside
            rp = {"op": "polym_lcp_solver", "matrices": {"%d,%d" % k: v for k, v in mats.items()}, "start": list(st),
                  "history_step": step, "NE": [list(map(float, a)) for a in NE]}
            ctx.count("history:polym:calls-on-one-game")
            for k, v in pg.polymatrix.items():
                if np.asarray(v, dtype=float).tobytes() != pristine[k].tobytes():
                    ctx.spec_fail("game_modified", "polym_lcp_solver modified polymatrix[%s]" % (k,), rp)
            no_share("polym_lcp_solver", list(NE), [np.asarray(v) for v in pg.polymatrix.values()], "object-arrays", rp)
            no_share("polym_lcp_solver", list(NE), [a for _, arrs, _, _ in kept for a in arrs], "earlier-result", rp)
            pf = PolymatrixGame({k: v.copy() for k, v in pristine.items()})
            NEf, resf = polym_lcp_solver(pf, starting_player_actions=list(st), max_iter=int(res.max_iter), full_output=True)
            if [a.tobytes() for a in NEf] != [a.tobytes() for a in NE] or resf.converged != res.converged or resf.num_iter != res.num_iter:
                ctx.spec_fail("history_dependence", "polym_lcp_solver on a used game object differs from the same call on a fresh one", rp)
            keep("polym_lcp_solver call %d" % step, list(NE), rp)
            rejudge("polym_lcp_solver call %d" % step)

    # regression case for the fixed finding ig_narrow_tableaux_8bit_max_iter (fix beafa6b: buff_size = min(int(max_iter), ...)):
    # an 8-bit max_iter >= 128 used to make `buff_size*2+1` wrap around and the tableaux too narrow; long runs with
    # np.uint8 max_iter go through both entry points, judged like every other run (the guard below has been active for
    # the whole harness run: _initialize_tableaux_ig never executes on views that are not m x (2m+1))
    Tm = AffMap([[0, -1.5, 0], [1.5, 0, 0.25], [0.5, 0.5, -1]], [1, 0.2, 0.4], (0.0, 1.0))
    rp8 = {"op": "compute_fixed_point", "A": Tm.A, "b": Tm.b, "box": Tm.box, "v0": [.25, .25, .25], "tol": 1e-9,
           "max_iter": "np.uint8(200)", "method": "imitation_game"}
    try:
        with warnings.catch_warnings(record=True) as wl:
            warnings.simplefilter("always")
            r8 = qe.compute_fixed_point(Tm, np.array([.25, .25, .25]), 1e-9, np.uint8(200), 1, 5, "imitation_game")
        w8 = any("max_iter attained" in str(w.message) for w in wl)
        with warnings.catch_warnings():
            warnings.simplefilter("ignore")
            Tm2 = AffMap(Tm.A, Tm.b, Tm.box)
            rref = qe.compute_fixed_point(Tm2, np.array([.25, .25, .25]), 1e-9, 200, 1, 5, "imitation_game")
        its8 = len(Tm.calls_in) // 2
        rq8 = F(r8)
        resid8 = max(abs(a - c) for a, c in zip(Tm.exact(rq8), rq8))
        ctx.count("regression:8bit-max_iter:iterations", its8)
        if np.asarray(r8).tobytes() != np.asarray(rref).tobytes() or its8 > 200 or (w8 and its8 != 200) or \
                (not w8 and resid8 > Fraction(1e-9) * (1 + SLACK) + Fraction(1, 10 ** 13)):
            ctx.spec_fail("ig_narrow_tableaux_8bit_max_iter", "max_iter=np.uint8(200) and max_iter=200 give different answers "
                          "/ the accuracy contract fails (%d iterations)" % its8, rp8)
    except NarrowTableaux as e:
        ctx.spec_fail("ig_narrow_tableaux_8bit_max_iter", str(e), rp8)

    # polym_lcp_solver's handling of starting_player_actions: None (default), valid lists, and a malformed stream
    # (wrong length, an action equal to / above the player's number of actions) -> AssertionError
    for _ in range(ctx.n(40, 200)):
        N = ctx.rng.choice([2, 3, 4])
        nums = [ctx.rng.randint(1, 4) for _ in range(N)]
        mats = {(i, j): [[float(ctx.rng.randint(-3, 3)) for _ in range(nums[j])] for _ in range(nums[i])]
                for i in range(N) for j in range(N) if i != j}
        pg = PolymatrixGame(mats)
        t = ctx.rng.randrange(6)
        if t == 0:
            st = None
        elif t == 1:
            st = [ctx.rng.randrange(n) for n in nums][:-1]
        elif t == 2:
            st = [ctx.rng.randrange(n) for n in nums] + [0]
        elif t == 3:
            st = [ctx.rng.randrange(n) for n in nums]
            q = ctx.rng.randrange(N)
            st[q] = nums[q] + ctx.rng.choice([0, 0, 1, 5])
        else:
            st = [ctx.rng.randrange(n) for n in nums]
        try:
            _, res = polym_lcp_solver(pg, starting_player_actions=st, max_iter=0, full_output=True)
            eff = res.init
            eff = [eff[k] for k in range(N)] if isinstance(eff, dict) else list(eff)
            out = "ok:" + ints(eff)
        except AssertionError:
            out = "ERR:AssertionError"
        ctx.count("polymstart:%s" % ("None" if st is None else out.split(":")[0] + (":AssertionError" if out.startswith("ERR") else "")))
        cases.append(Case("C15 polymstart nums=%s start=%s" % (ints(nums), "none" if st is None else ints(st)), out,
                          nontrivial=st is not None, tag="polymstart"))

    # init forms outside the documented domain ("an integer or an array of floats"): 0-d arrays, bools, float scalars.
    # What the code does with them is part of the model (`flattenInitForms`) and compared exactly; no verdict of the
    # property is attached (the start is not a profile of probability vectors).
    for _ in range(ctx.n(40, 200)):
        nums = [ctx.rng.randint(1, 4) for _ in range(ctx.rng.choice([2, 3, 4]))]
        init, wire = [], []
        for n in nums:
            a = ctx.rng.randrange(n)
            form = ctx.rng.choice(["0-d", "0-d-float", "bool", "np.bool_", "float", "np.float64", "int", "np.int16"])
            if form == "0-d":
                init.append(np.array(a)); wire.append("z%d" % a)
            elif form == "0-d-float":
                init.append(np.array(a / 2.0)); wire.append("z" + rat(Fraction(a, 2)))
            elif form == "bool":
                init.append(bool(a % 2)); wire.append("b%d" % (a % 2))
            elif form == "np.bool_":
                init.append(np.bool_(a % 2)); wire.append("B%d" % (a % 2))
            elif form == "float":
                init.append(float(a)); wire.append("s%d" % a)
            elif form == "np.float64":
                init.append(np.float64(a)); wire.append("s%d" % a)
            elif form == "int":
                init.append(a); wire.append("p%d" % a)
            else:
                init.append(np.int16(a)); wire.append("n%d" % a)
            ctx.count("init-form:outside-domain:%s" % form)
        indptr = np.concatenate([[0], np.cumsum(nums)])
        x = mt_mod._flatten_action_profile(init, indptr)
        cases.append(Case("C15 flatinit nums=%s init=%s" % (ints(nums), "|".join(wire)), rats(F(x)), tag="flatinit-outside-domain"))

    # mclennan_tourky argument checks
    for N, L in [(1, 1), (2, 1), (2, 3), (3, 3), (3, 2)]:
        g = NormalFormGame([Player(np.zeros((2,) * N)) for _ in range(N)]) if N >= 2 else NormalFormGame([Player(np.zeros(2))])
        try:
            mt_mod.mclennan_tourky(g, (0,) * L, max_iter=1)
            out = "ok"
        except NotImplementedError:
            out = "ERR:NotImplementedError"
        except ValueError:
            out = "ERR:ValueError"
        ctx.count("mtargcheck:%s" % out)
        cases.append(Case("C15 mtargcheck N=%d initlen=%d" % (N, L), out, nontrivial=False, tag="mtargcheck"))

    ctx.assumptions.append("hypothesis (h3) of mt_profile_prob_lh_partial / dotRows_blocks_prob: rho returned by Lemke-Howson "
                           "on each imitation game is a probability vector; examined on every recorded pass (counters lh:*), "
                           "held on %d of %d passes of this run" % (ctx.counters["lh:rho-probability-vector"],
                                                                   ctx.counters["lh:passes-checked"]))
    ctx.run_cases(cases)
