"""C04 — linprog_simplex / minmax: correspondence + spec run.

Correspondence (model = lean/QEModel/C04.lean, driver qedriver_c04):
  * `lp float`     the model at Float with the code's tolerances must reproduce the code
                   bit for bit: status, num_iter, fun, x, lambd, final basis   (exact)
  * `lp rat`       the model at Rat with tolerances 0 and with the code's tolerances
                   (exact rationals of the doubles) must give the same status (exact) and,
                   on success, the same optimal value inside 1e-9          (envelope)
  * `minmax float` bit for bit (v, x, y); `minmax rat`: v inside 1e-9
  * `init`, `pivot`, `lexmin`, `pivcol`: the kernels one by one, bit for bit (tableaux with forced
                   first-pass ties and with proportional rows = unresolvable ties)
  * `lp float` again on capped runs (max_iter 0..6: status 1 in either phase, the
                   `max_iter - num_iter` hand-over) and on real-valued LPs up to 8 rows x 10 columns
                   (generic doubles against the tolerance comparisons), bit for bit
  * `lpstat rat`   instrumented replay of the model: branch counters (degenerate pivots, ratio ties,
                   entering-column ties, clean-up pivots, artificials left basic); must end in the
                   same basis as the plain run
Spec run (exact Fractions, independent of the model's correctness):
  * status 0: the code's own (x, lambd, fun) must be a primal-dual certificate:
    x >= 0, A_ub x <= b_ub, A_eq x = b_eq, lambd_ub >= 0, A'lambd >= c, c.x = fun = b.lambd
    (each inside 1e-9) — by weak duality this certifies optimality whatever produced it;
  * the true class of every LP is established by a certificate that is *verified here
    exactly* (optimal primal-dual pair, Farkas vector, feasible point + improving ray); the
    certificate is proposed by the exact Rat model, but its verification does not depend on
    the model.  The code's status must be the verified class (0 / 2 / 3); its `fun` must be
    the certified optimal value inside 1e-9.
  * optional output / work arguments and histories: `tableau=`, `basis=`, `x=`, `lambd=` given or omitted
    in all 16 combinations, pre-filled with garbage / NaN / 1e300 / earlier contents, reused over sequences
    of LPs of equal shape (mixed ub/eq rows) and cleared by the caller between calls; every result must be
    bit-identical to the buffer-free call (`buffer_dependence`), must not alias buffers / inputs / earlier
    results unless it *is* the supplied buffer (`result_aliases_buffer`), inputs stay bitwise unchanged
    (`input_mutated`), and EVERY earlier result is re-read after every later call: unchanged bits
    (`earlier_result_overwritten`) and still an exact primal-dual certificate (`earlier_result_certificate`).
    Argument forms (int64, float32, Fortran-ordered, strided, NumPy-scalar options, lists) must give the
    float64 answer (`argument_form`); minmax likewise.
  * `solvetab float`: `solve_tableau` called directly as a public entry point on caller-built canonical
    tableaux (arbitrary lexicographic block, both `skip_aux`, caps 0..10^6): status, num_iter, final
    basis and final tableau bit for bit.  `mmguard rat`: minmax's pivot row (first argmax of column 0),
    the tie guard `minmaxUniqueMax` judged on A itself, `minmaxLexOK = minmaxUniqueMax`, and a replay of
    the inner simplex run with cycle detection (`minmax_cycle`, `minmax_status`).  Malformed stream: empty
    / ragged matrices, over-long basis — code raises, model answers `bad-op`.
  * termination: `lpcycle rat` replays Phase 2 with a record of the bases visited; a recurring basis
    (the exact run cycles) is a spec failure `lex_cycle`; `lexStartOK` (hypothesis of the theorem
    `linprog_terminates_lex`) is counted, status 1 under `lexStartOK` is a spec failure.
  * minmax: x, y probability vectors, min_j (x'A)_j >= v - tol, max_i (Ay)_i <= v + tol.
"""
from fractions import Fraction

import numpy as np

from .common import Case, fx, fxs, fxm, ints, intm, rat, parse_rats, parse_ints, unfx

FILES = ["quantecon/optimize/linprog_simplex.py", "quantecon/optimize/pivoting.py",
         "quantecon/optimize/minmax.py"]

FEA_TOL, TOL_PIV, TOL_RATIO_DIFF = 1e-6, 1e-7, 1e-13
TOL = Fraction(1, 10 ** 9)
F = Fraction


# ----------------------------------------------------------------------------
# exact linear algebra on small lists

def dot(u, v):
    return sum((F(a) * F(b) for a, b in zip(u, v)), F(0))


def matvec(A, x):
    return [dot(r, x) for r in A]


def tmatvec(A, y, n):
    """A' y  (A has len(y) rows, n columns)"""
    return [sum((F(A[i][j]) * F(y[i]) for i in range(len(A))), F(0)) for j in range(n)]


class LPD:
    """integer / dyadic LP data"""
    __slots__ = ("c", "Aub", "bub", "Aeq", "beq", "n", "m", "k", "stream")

    def __init__(self, c, Aub, bub, Aeq, beq, stream=""):
        self.c, self.Aub, self.bub, self.Aeq, self.beq = c, Aub, bub, Aeq, beq
        self.n, self.m, self.k = len(c), len(Aub), len(Aeq)
        self.stream = stream

    def replay(self):
        return {"c": [str(v) for v in self.c], "A_ub": [[str(v) for v in r] for r in self.Aub],
                "b_ub": [str(v) for v in self.bub], "A_eq": [[str(v) for v in r] for r in self.Aeq],
                "b_eq": [str(v) for v in self.beq], "stream": self.stream}

    def arrays(self):
        n = self.n
        f = lambda v: np.array([float(e) for e in v], dtype=float)
        fm = lambda A: np.array([[float(e) for e in r] for r in A], dtype=float).reshape(len(A), n)
        return f(self.c), fm(self.Aub), f(self.bub), fm(self.Aeq), f(self.beq)

    def wire(self, enc, encm):
        return "n=%d m=%d k=%d c=%s Aub=%s bub=%s Aeq=%s beq=%s" % (
            self.n, self.m, self.k, enc(self.c), encm(self.Aub), enc(self.bub), encm(self.Aeq), enc(self.beq))


# ----------------------------------------------------------------------------
# exact certificate verification (the spec oracle)

def primal_violation(lp, x, tol):
    """None if x is primal feasible inside tol, else a description"""
    if len(x) != lp.n:
        return "x has wrong length"
    for j, v in enumerate(x):
        if v < -tol:
            return "x[%d]=%s < 0" % (j, float(v))
    for i, (r, b) in enumerate(zip(lp.Aub, lp.bub)):
        if dot(r, x) > F(b) + tol:
            return "A_ub row %d: %s > %s" % (i, float(dot(r, x)), b)
    for i, (r, b) in enumerate(zip(lp.Aeq, lp.beq)):
        if abs(dot(r, x) - F(b)) > tol:
            return "A_eq row %d: %s != %s" % (i, float(dot(r, x)), b)
    return None


def dual_violation(lp, lam, tol):
    if len(lam) != lp.m + lp.k:
        return "lambd has wrong length"
    for i in range(lp.m):
        if lam[i] < -tol:
            return "lambd[%d]=%s < 0 on an inequality row" % (i, float(lam[i]))
    A = list(lp.Aub) + list(lp.Aeq)
    red = tmatvec(A, lam, lp.n)
    for j in range(lp.n):
        if red[j] < F(lp.c[j]) - tol:
            return "dual row %d: (A'lambd)=%s < c=%s" % (j, float(red[j]), lp.c[j])
    return None


def optimal_cert_violation(lp, x, lam, fun, tol):
    v = primal_violation(lp, x, tol)
    if v:
        return "primal infeasible: " + v
    v = dual_violation(lp, lam, tol)
    if v:
        return "dual infeasible: " + v
    cx = dot(lp.c, x)
    bl = dot(list(lp.bub) + list(lp.beq), lam)
    if abs(cx - fun) > tol:
        return "c.x=%s != fun=%s" % (float(cx), float(fun))
    if abs(bl - fun) > tol:
        return "b.lambd=%s != fun=%s" % (float(bl), float(fun))
    return None


def farkas_violation(lp, y):
    """y certifies infeasibility: y_ub >= 0, A'y >= 0, b.y < 0 (exactly)"""
    if len(y) != lp.m + lp.k:
        return "wrong length"
    if any(v < 0 for v in y[:lp.m]):
        return "y_ub has a negative entry"
    A = list(lp.Aub) + list(lp.Aeq)
    if any(v < 0 for v in tmatvec(A, y, lp.n)):
        return "A'y has a negative entry"
    if not dot(list(lp.bub) + list(lp.beq), y) < 0:
        return "b.y is not negative"
    return None


def ray_violation(lp, x, d):
    v = primal_violation(lp, x, F(0))
    if v:
        return "base point infeasible: " + v
    if len(d) != lp.n or any(v < 0 for v in d):
        return "ray not >= 0"
    if any(dot(r, d) > 0 for r in lp.Aub):
        return "A_ub d > 0"
    if any(dot(r, d) != 0 for r in lp.Aeq):
        return "A_eq d != 0"
    if not dot(lp.c, d) > 0:
        return "c.d is not positive"
    return None


# ----------------------------------------------------------------------------
# calling the real code

def call_linprog(lp, max_iter=10 ** 6):
    from quantecon.optimize.linprog_simplex import linprog_simplex, PivOptions
    c, Aub, bub, Aeq, beq = lp.arrays()
    L = lp.m + lp.k
    tableau = np.empty((L + 1, lp.n + lp.m + L + 1))
    basis = np.empty(L, dtype=np.int_)
    res = linprog_simplex(c, A_ub=Aub, b_ub=bub, A_eq=Aeq, b_eq=beq, max_iter=max_iter,
                          piv_options=PivOptions(FEA_TOL, TOL_PIV, TOL_RATIO_DIFF),
                          tableau=tableau, basis=basis)
    return res, basis


def impl_string(res, basis):
    """canonical string of the code's answer, same layout as the Float model's"""
    phase1_failed = (res.fun == -np.inf)
    if phase1_failed:
        return "st=%d it=%d fun=-inf x=- lam=- basis=%s" % (res.status, res.num_iter, ints(basis))
    return "st=%d it=%d fun=%s x=%s lam=%s basis=%s" % (
        res.status, res.num_iter, fx(res.fun), fxs(res.x), fxs(res.lambd), ints(basis))


def parse_model(out):
    d = {}
    for tok in out.split(" "):
        k, _, v = tok.partition("=")
        d[k] = v
    return d


# ----------------------------------------------------------------------------
# generators

def rint(rng, lo, hi, pzero=0.0):
    if rng.random() < pzero:
        return 0
    return rng.randint(lo, hi)


def gen_lp(rng, stream):
    R = rng
    n = R.randint(1, 6)
    if stream == "ub":
        m, k = R.randint(1, 5), 0
    elif stream == "eq":
        m, k = 0, R.randint(1, 4)
    elif stream == "empty":
        m, k = 0, 0
    else:
        L = R.randint(2, 5)
        m = R.randint(1, L - 1)
        k = L - m
    pz = R.choice([0.0, 0.3, 0.6])
    row = lambda: [rint(R, -3, 3, pz) for _ in range(n)]
    Aub = [row() for _ in range(m)]
    Aeq = [row() for _ in range(k)]
    bub = [R.randint(-1, 3) for _ in range(m)]
    beq = [R.randint(-1, 3) for _ in range(k)]
    c = [rint(R, -3, 3, 0.2) for _ in range(n)]
    if stream == "negb":
        bub = [R.randint(-3, 0) for _ in range(m)]
        beq = [R.randint(-3, 0) for _ in range(k)]
    elif stream == "degenerate":
        bub = [0 if R.random() < 0.8 else R.randint(0, 2) for _ in range(m)]
        beq = [0 if R.random() < 0.8 else R.randint(0, 2) for _ in range(k)]
        if m >= 2 and R.random() < 0.5:          # duplicated / proportional rows
            Aub[-1] = list(Aub[0])
            bub[-1] = bub[0]
    elif stream == "cone":
        # all right-hand sides 0: every pivot is degenerate, ties are decided by the lexicographic passes only
        bub = [0] * m
        beq = [0] * k
        if k >= 2 and R.random() < 0.5:
            i, j = R.sample(range(k), 2)
            sgn = R.choice([1, -1])
            Aeq[j] = [sgn * a for a in Aeq[i]]
    elif stream == "bounded":
        # a positive row keeps the feasible set bounded: mostly status 0 with real work
        Aub = [[R.randint(0, 3) for _ in range(n)] for _ in range(m)]
        if m:
            Aub[0] = [R.randint(1, 3) for _ in range(n)]
        bub = [R.randint(0, 3) for _ in range(m)]
        Aeq = [[R.randint(0, 2) for _ in range(n)] for _ in range(k)]
        beq = [R.randint(0, 2) for _ in range(k)]
        c = [R.randint(-1, 3) for _ in range(n)]
    elif stream == "feasible":
        # b built from a 0/1 point so that the LP is feasible with b of either sign
        x0 = [R.randint(0, 1) for _ in range(n)]
        small = lambda: [rint(R, -2, 2, 0.5) for _ in range(n)]
        Aub = [small() for _ in range(m)]
        Aeq = [small() for _ in range(k)]
        bub = [max(-3, min(3, sum(a * b for a, b in zip(r, x0)) + R.randint(0, 1))) for r in Aub]
        beq = [sum(a * b for a, b in zip(r, x0)) for r in Aeq]
        if any(abs(v) > 3 for v in beq):
            return gen_lp(rng, stream)
    elif stream == "redundant":
        # equalities with a dependent row, consistent (redundant) or not (contradictory)
        k = max(k, 2)
        small = lambda: [rint(R, -1, 1, 0.3) for _ in range(n)]
        Aeq = [small() for _ in range(k)]
        x0 = [R.randint(0, 1) for _ in range(n)]
        beq = [sum(a * b for a, b in zip(r, x0)) for r in Aeq]
        i, j = R.sample(range(k), 2) if k >= 2 else (0, 0)
        t = R.choice([i, j, None]) if k >= 3 else None
        dst = R.choice([q for q in range(k) if q not in (i, j)]) if k >= 3 else j
        if k >= 3:
            Aeq[dst] = [a + b for a, b in zip(Aeq[i], Aeq[j])]
            beq[dst] = beq[i] + beq[j]
        else:
            s = R.choice([1, -1, 2])
            Aeq[j] = [s * a for a in Aeq[i]]
            beq[j] = s * beq[i]
        if R.random() < 0.4:
            beq[dst] += R.choice([-1, 1])          # contradictory
        if m + k > 5:
            m = 5 - k
            Aub, bub = Aub[:m], bub[:m]
        if any(abs(v) > 3 for v in beq) or any(abs(v) > 3 for r in Aeq for v in r):
            return gen_lp(rng, stream)
    return LPD(c, Aub, bub, Aeq, beq, stream)


def fixed_lps():
    """hand-picked instances: the module's doctests, Beale's cycling example (dyadic data),
    Klee-Minty n=3, degenerate / redundant / contradictory corner cases"""
    q = Fraction
    out = [
        LPD([2, 4, 1, 1], [[2, 1, 0, 0], [0, 1, 4, 1], [1, 3, 0, 1]], [3, 3, 4], [], [], "doc1"),
        LPD([2, -3, 1, 1], [], [], [[1, 2, 1, 1], [1, -2, 2, 1], [3, -1, 0, -1]], [3, -2, -1], "doc2"),
        LPD([1, 1, -4], [[-3, -3, 1], [1, 1, 2]], [9, 10], [], [], "doc3"),
        # Beale's cycling example (dyadic variant): cycles under the textbook rule without anti-cycling
        LPD([q(3, 4), -20, q(1, 2), -6],
            [[q(1, 4), -8, -1, 9], [q(1, 2), -12, q(-1, 2), 3], [0, 0, 1, 0]], [0, 0, 1], [], [], "beale"),
        # Klee-Minty cube, n = 3
        LPD([4, 2, 1], [[1, 0, 0], [4, 1, 0], [8, 4, 1]], [5, 25, 125], [], [], "klee-minty"),
        # all-zero rows / columns
        LPD([1, 0], [[0, 0]], [0], [], [], "zero-row-unbounded"),
        LPD([0, 0], [[0, 0]], [-1], [], [], "zero-row-infeasible"),
        LPD([-1, -1], [], [], [[0, 0]], [0], "zero-eq-row"),
        LPD([1, 1], [], [], [[1, 1], [1, 1]], [1, 1], "duplicate-eq"),
        LPD([1, 1], [], [], [[1, 1], [1, 1]], [1, 2], "contradictory-eq"),
        LPD([1, 1], [], [], [[1, 1], [-1, -1]], [1, -1], "negated-duplicate-eq"),
        LPD([1, -1], [[1, -1]], [-1], [[1, 1]], [3], "neg-b-ub"),
        LPD([1], [[1]], [-1], [], [], "x<=-1"),
        LPD([1], [[-1]], [-1], [], [], "x>=1-unbounded"),
        LPD([-1], [[-1]], [-1], [], [], "x>=1-min"),
        LPD([0], [], [], [], [], "L=0,c=0"),
        LPD([-1, 0], [], [], [], [], "L=0,c<=0"),
        LPD([0, 2], [], [], [], [], "L=0,unbounded"),
    ]
    return out


# ----------------------------------------------------------------------------
# LP cases

def lp_cases(ctx, lp, cases, max_iter=10 ** 6, float_only=False):
    res, basis = call_linprog(lp, max_iter)
    if float_only:
        # real-valued data (outside the property's well-scaled domain): only the bit-for-bit tie, which
        # exercises the tolerance comparisons of the kernels on generic doubles
        ctx.count("lp-real:status=%d" % int(res.status))
        tolf = "fea=%s piv=%s diff=%s" % (fx(FEA_TOL), fx(TOL_PIV), fx(TOL_RATIO_DIFF))
        cases.append(Case("C04 lp float %s maxiter=%d %s" % (lp.wire(fxs, fxm), max_iter, tolf),
                          impl_string(res, basis), nontrivial=res.num_iter > 2,
                          cmp=lambda mo, im: None if mo.rsplit(" cert=", 1)[0] == im else "Float model and code differ",
                          tag="lp-float-real"))
        return
    if max_iter < 10 ** 6:
        # capped run: only the bit-for-bit tie (status 1 paths, `max_iter - num_iter` hand-over)
        ctx.count("lp-capped:status=%d" % int(res.status))
        tolf = "fea=%s piv=%s diff=%s" % (fx(FEA_TOL), fx(TOL_PIV), fx(TOL_RATIO_DIFF))
        if res.num_iter > max_iter + lp.m + lp.k:
            ctx.spec_fail("iteration_cap", "num_iter=%d exceeds max_iter=%d by more than the clean-up allows"
                          % (res.num_iter, max_iter), lp.replay())
        cases.append(Case("C04 lp float %s maxiter=%d %s" % (lp.wire(fxs, fxm), max_iter, tolf),
                          impl_string(res, basis), nontrivial=True,
                          cmp=lambda mo, im: None if mo.rsplit(" cert=", 1)[0] == im else "Float model and code differ",
                          tag="lp-float-capped"))
        return
    st = int(res.status)
    ctx.count("lp:status=%d" % st)
    ctx.count("lp:stream=" + lp.stream)
    if bool(res.success) != (st == 0):
        ctx.spec_fail("success_flag", "success=%s with status=%d" % (res.success, st), lp.replay())
    fun = F(float(res.fun)) if np.isfinite(res.fun) else None
    finite = fun is not None and bool(np.all(np.isfinite(res.x))) and bool(np.all(np.isfinite(res.lambd)))
    code_x = [F(float(v)) for v in res.x] if finite else None
    code_lam = [F(float(v)) for v in res.lambd] if finite else None

    # (1) spec on the code's own output, no model involved
    if st == 0:
        if not finite:
            ctx.spec_fail("linprog_certificate", "status 0 with non-finite fun / x / lambd", lp.replay())
        else:
            why = optimal_cert_violation(lp, code_x, code_lam, fun, TOL)
            if why:
                rp = lp.replay()
                rp.update({"x": [float(v) for v in res.x], "lambd": [float(v) for v in res.lambd],
                           "fun": float(res.fun), "status": st})
                ctx.spec_fail("linprog_certificate", "status 0 but (x, lambd, fun) is not an optimal "
                              "primal-dual pair: " + why, rp)
            else:
                ctx.count("lp:code-certificate-verified")
            if any(v != 0 for v in lp.bub + lp.beq) and any(v < 0 for v in lp.bub + lp.beq):
                ctx.count("lp:status0-with-negative-b")
    elif st == 1:
        ctx.spec_fail("iteration_limit", "status 1 with max_iter=10**6 on a tiny LP", lp.replay())

    nontrivial = res.num_iter > 2

    # (2) trace fidelity made exact: Float model, code's tolerances, bit for bit
    tolf = "fea=%s piv=%s diff=%s" % (fx(FEA_TOL), fx(TOL_PIV), fx(TOL_RATIO_DIFF))
    impl = impl_string(res, basis)

    def cmp_float(mo, im):
        head = mo.rsplit(" cert=", 1)[0]
        if st in (1, 2, 3) and res.fun == -np.inf:
            # x / lambd are uninitialised memory in the code; compare the rest
            ok = head == im
        else:
            ok = head == im
        if ok:
            ctx.count("lp:float-bit-exact")
            return None
        return "Float model and code differ"

    cases.append(Case("C04 lp float %s maxiter=1000000 %s" % (lp.wire(fxs, fxm), tolf), impl,
                      nontrivial=nontrivial, cmp=cmp_float, tag="lp-float"))

    # (3) exact Rat model: status exactly, value inside 1e-9; certificate verified here
    memo = {}

    def cmp_stat(mo, im):
        d = parse_model(mo)
        if d["st"] != str(st):
            return "replay status differs"
        if memo.get("basis") != d["basis"]:
            return "instrumented replay ends in another basis than the model run"
        for key in ("degenerate", "ties", "colties", "cleanup", "artleft"):
            if int(d[key]) > 0:
                ctx.count("lp:with-" + key)
        ctx.count("lp:pivots=%s" % ("0" if d["pivots"] == "0" else "1-3" if int(d["pivots"]) <= 3 else
                                    "4-7" if int(d["pivots"]) <= 7 else "8+"))
        return None

    def mk_cmp(label):
        def cmp_rat(mo, im):
            d = parse_model(mo)
            mst = int(d["st"])
            cert = parse_rats(d["cert"])
            truth = None
            if mst == 0:
                mx, ml, mf = parse_rats(d["x"]), parse_rats(d["lam"]), F(d["fun"])
                why = optimal_cert_violation(lp, mx, ml, mf, F(0)) if label == "tol0" else \
                    optimal_cert_violation(lp, mx, ml, mf, TOL)
                if why:
                    return "model's optimal pair does not verify exactly: " + why
                truth = ("optimal", mf)
            elif mst == 2:
                why = farkas_violation(lp, cert)
                if why:
                    if label == "tol0":
                        return "model's Farkas vector does not verify: " + why
                else:
                    truth = ("infeasible", None)
            elif mst == 3:
                if d["fun"] == "-inf":
                    return "model reports unbounded in Phase 1"
                why = ray_violation(lp, parse_rats(d["x"]), cert)
                if why:
                    if label == "tol0":
                        return "model's ray does not verify: " + why
                else:
                    truth = ("unbounded", None)
            else:
                return "model hit the iteration cap"
            if truth is not None:
                ctx.count("lp:class-certified:" + truth[0])
                want = {"optimal": 0, "infeasible": 2, "unbounded": 3}[truth[0]]
                if st != want:
                    rp = lp.replay()
                    rp.update({"code_status": st, "certified_class": truth[0],
                               "certificate": [str(v) for v in (cert if mst != 0 else parse_rats(d["x"]))]})
                    ctx.spec_fail("linprog_status", "the LP is %s (certificate verified exactly) but the code "
                                  "reports status %d" % (truth[0], st), rp)
                elif truth[0] == "optimal" and fun is not None and abs(fun - truth[1]) > TOL:
                    rp = lp.replay()
                    rp.update({"code_fun": float(res.fun), "optimal_value": str(truth[1])})
                    ctx.spec_fail("linprog_value", "optimal value is %s, code returned %r" % (truth[1], float(res.fun)), rp)
            if mst != st:
                return "status differs (model %d, code %d)" % (mst, st)
            if mst == 0 and abs(F(d["fun"]) - fun) > TOL:
                return "optimal value differs"
            if label == "tol0":
                memo["basis"] = d["basis"]
            if mst == 0 and label == "tol0":
                if parse_rats(d["x"]) == code_x:
                    ctx.count("lp:rat-x-identical")
                if int(d["it"]) == res.num_iter:
                    ctx.count("lp:rat-same-iteration-count")
            return None
        return cmp_rat

    enc = lambda v: ",".join(rat(e) for e in v) if len(v) else "-"
    encm = lambda A: ";".join(enc(r) for r in A) if len(A) else "-"
    cases.append(Case("C04 lp rat %s maxiter=1000000 fea=0 piv=0 diff=0" % lp.wire(enc, encm), "st=%d" % st,
                      nontrivial=nontrivial, cmp=mk_cmp("tol0"), tag="lp-rat-tol0"))
    cases.append(Case("C04 lp rat %s maxiter=1000000 %s" % (lp.wire(enc, encm), tolf), "st=%d" % st,
                      nontrivial=nontrivial, cmp=mk_cmp("codetol"), tag="lp-rat-codetol"))
    cases.append(Case("C04 lpstat rat %s maxiter=1000000 fea=0 piv=0 diff=0" % lp.wire(enc, encm), "st=%d" % st,
                      nontrivial=False, cmp=cmp_stat, tag="lp-stat"))

    # (4) termination: `lexStartOK` (hypothesis of the theorem linprog_terminates_lex) and a replay of
    #     Phase 2 that detects a recurring basis (the only way the exact run can fail to terminate)
    def cmp_cycle(mo, im):
        d = parse_model(mo)
        if d["lexok"] != d["lexstart"]:
            return "lexStartOK and the replay's lexRowsOK disagree"
        if d["cycled"] == "1":
            rp = lp.replay()
            rp.update({"model": mo, "code_status": st, "code_num_iter": int(res.num_iter)})
            ctx.spec_fail("lex_cycle", "the exact model revisits a basis in Phase 2 (lexicographic rule cycles)", rp)
            return "model cycles"
        if d["st"] != str(st):
            return "replay status differs"
        if int(d["cleanup"]) > 0:
            ctx.count("term:cleanup-pivot")
        if int(d["negcleanup"]) > 0:
            ctx.count("term:cleanup-pivot-on-negative-element")
        if d["lexstart"] == "0":
            ctx.count("term:lexStartOK-fails")
            if int(d["pivots"]) > 0:
                ctx.count("term:lexStartOK-fails-and-phase2-pivots")
        else:
            ctx.count("term:lexStartOK-holds")
            if st == 1:
                ctx.spec_fail("lex_terminates", "status 1 although lexStartOK holds", lp.replay())
        return None

    cases.append(Case("C04 lpcycle rat %s maxiter=100000 fea=0 piv=0 diff=0" % lp.wire(enc, encm), "st=%d" % st,
                      nontrivial=False, cmp=cmp_cycle, tag="lp-cycle"))


# ----------------------------------------------------------------------------
# minmax

def minmax_cases(ctx, A, cases, tol, integer, tag):
    from quantecon.optimize.minmax import minmax
    m, n = len(A), len(A[0])
    Af = np.array([[float(v) for v in r] for r in A], dtype=float)
    v, x, y = minmax(Af)
    Aq = [[F(float(e)) for e in r] for r in A]
    xq, yq, vq = [F(float(e)) for e in x], [F(float(e)) for e in y], F(float(v))
    why = None
    if any(e < -tol for e in xq) or abs(sum(xq) - 1) > tol:
        why = "x is not a probability vector"
    elif any(e < -tol for e in yq) or abs(sum(yq) - 1) > tol:
        why = "y is not a probability vector"
    else:
        lo = min(sum(xq[i] * Aq[i][j] for i in range(m)) for j in range(n))
        hi = max(sum(Aq[i][j] * yq[j] for j in range(n)) for i in range(m))
        if lo < vq - tol * (1 + abs(vq)):
            why = "min_j (x'A)_j = %s < v = %s" % (float(lo), float(vq))
        elif hi > vq + tol * (1 + abs(vq)):
            why = "max_i (Ay)_i = %s > v = %s" % (float(hi), float(vq))
    if why:
        ctx.spec_fail("minmax_certificate", why, {"A": [[str(e) for e in r] for r in A], "v": float(v),
                                                  "x": [float(e) for e in x], "y": [float(e) for e in y]})
    else:
        ctx.count("minmax:certificate-verified")
    pure = any(all(Aq[i][j] <= Aq[i][jj] for jj in range(n)) and all(Aq[i][j] >= Aq[ii][j] for ii in range(m))
               for i in range(m) for j in range(n))
    ctx.count("minmax:saddle-point" if pure else "minmax:mixed")
    tolf = "fea=%s piv=%s diff=%s" % (fx(FEA_TOL), fx(TOL_PIV), fx(TOL_RATIO_DIFF))
    impl = "v=%s x=%s y=%s" % (fx(v), fxs(x), fxs(y))

    def cmp_float(mo, im):
        d = parse_model(mo)
        got = "v=%s x=%s y=%s" % (d["v"], d["x"], d["y"])
        if got == im:
            ctx.count("minmax:float-bit-exact")
            return None
        return "Float model and code differ"

    cases.append(Case("C04 minmax float m=%d n=%d A=%s maxiter=1000000 %s" % (m, n, fxm(Af), tolf), impl,
                      nontrivial=not pure, cmp=cmp_float, tag=tag + "-float"))
    if integer:
        def cmp_rat(mo, im):
            d = parse_model(mo)
            if d["st"] != "0":
                return "model status %s" % d["st"]
            mv, mx, my = F(d["v"]), parse_rats(d["x"]), parse_rats(d["y"])
            # the model's exact answer must itself be an exact certificate
            if any(e < 0 for e in mx) or sum(mx) != 1 or any(e < 0 for e in my) or sum(my) != 1:
                return "model's x / y are not probability vectors"
            lo = min(sum(mx[i] * Aq[i][j] for i in range(m)) for j in range(n))
            hi = max(sum(Aq[i][j] * my[j] for j in range(n)) for i in range(m))
            if not (lo == mv == hi):
                return "model's (v, x, y) is not an exact saddle certificate"
            if abs(mv - vq) > TOL:
                ctx.spec_fail("minmax_value", "value of the game is %s (exact certificate), code returned %r"
                              % (mv, float(v)), {"A": [[str(e) for e in r] for r in A], "v": float(v)})
                return "value differs"
            return None
        # the tie guard of the theorems minmax_value_certified / minmax_guard_iff: pivrow = first argmax of
        # column 0, `uniq` = the maximum is attained once; judged here on A itself (exact)
        col0 = [Aq[i][0] for i in range(m)]
        pyrow = col0.index(max(col0))
        pyuniq = sum(1 for e in col0 if e == max(col0)) == 1

        def cmp_guard(mo, im):
            d = parse_model(mo)
            if d["cycled"] == "1":
                ctx.spec_fail("minmax_cycle", "the exact model of minmax's simplex run revisits a basis",
                              {"A": [[str(e) for e in r] for r in A], "model": mo})
                return "model cycles"
            if d["st"] != "0":
                ctx.spec_fail("minmax_status", "the exact simplex run inside minmax ends with status %s (minmax ignores "
                              "it)" % d["st"], {"A": [[str(e) for e in r] for r in A], "model": mo})
                return "model status"
            if int(d["pivrow"]) != pyrow:
                return "pivrow is not the first maximiser of column 0"
            if (d["uniq"] == "1") != pyuniq:
                return "minmaxUniqueMax disagrees with the matrix"
            if d["lexok"] != d["uniq"]:
                return "minmaxLexOK != minmaxUniqueMax (theorem minmax_guard_iff)"
            ctx.count("minmax:column-0-maximum-unique" if pyuniq else "minmax:column-0-maximum-tied(lex-negative start)")
            return None
        enc = lambda r: ",".join(rat(e) for e in r)
        cases.append(Case("C04 mmguard rat m=%d n=%d A=%s maxiter=1000000 fea=0 piv=0 diff=0" % (
            m, n, ";".join(enc(r) for r in A)), "guard", nontrivial=not pyuniq, cmp=cmp_guard, tag=tag + "-guard"))
        cases.append(Case("C04 minmax rat m=%d n=%d A=%s maxiter=1000000 fea=0 piv=0 diff=0" % (
            m, n, ";".join(enc(r) for r in A)), "v", nontrivial=not pure, cmp=cmp_rat, tag=tag + "-rat"))


# ----------------------------------------------------------------------------
# kernels one by one

def kernel_cases(ctx, cases, count):
    from quantecon.optimize.pivoting import _pivoting, _lex_min_ratio_test
    from quantecon.optimize.linprog_simplex import _pivot_col, _initialize_tableau, PivOptions
    R = ctx.rng
    for _ in range(count):
        L = R.randint(1, 4)
        nm = R.randint(1, 5)
        nc = nm + L + 1
        # a tableau with many ties: small integers, identity in the artificial block, rhs with zeros
        T = [[float(rint(R, -2, 3, 0.3)) for _ in range(nm)] +
             [1.0 if i == j else float(rint(R, -1, 1, 0.6)) for j in range(L)] +
             [float(R.choice([0, 0, 1, 2]))] for i in range(L)]
        T.append([float(rint(R, -2, 3, 0.3)) for _ in range(nc)])
        c = R.randrange(nm)
        mode = R.random()
        if mode < 0.5:
            # force ties in the first pass: rhs proportional to the (positive) pivot-column entry
            ratio = R.choice([0, 1, 2, 0.5])
            for i in range(L):
                if R.random() < 0.8:
                    T[i][c] = float(R.randint(1, 3))
                    T[i][-1] = ratio * T[i][c]
            if mode < 0.15 and L >= 2:
                # ... and in every lexicographic pass: two proportional rows (unresolvable tie)
                k = float(R.choice([1, 2]))
                T[1] = [k * v for v in T[0]]
        Tn = np.array(T)
        # _pivot_col
        for skip in (0, 1):
            found, pc = _pivot_col(Tn, bool(skip), PivOptions(FEA_TOL, TOL_PIV, TOL_RATIO_DIFF))
            cases.append(Case("C04 pivcol float T=%s skip=%d fea=%s" % (fxm(Tn), skip, fx(FEA_TOL)),
                              "%d %d" % (int(found), int(pc)), nontrivial=bool(found), tag="pivcol"))
        # _lex_min_ratio_test on the constraint rows
        argmins = np.empty(L, dtype=np.int_)
        sub = Tn[:-1, :].copy()
        found, row = _lex_min_ratio_test(sub, c, nm, argmins, TOL_PIV, TOL_RATIO_DIFF)
        pos = [i for i in range(L) if sub[i, c] > TOL_PIV]
        if found:
            # exact spec of the ratio test: the row minimises rhs/entry among positive entries
            ratios = {i: F(sub[i, -1]) / F(sub[i, c]) for i in pos}
            if int(row) not in ratios or ratios[int(row)] != min(ratios.values()):
                ctx.spec_fail("lex_min_ratio", "row %d does not minimise the ratio" % int(row),
                              {"T": sub.tolist(), "col": c})
            ties = sum(1 for i in pos if ratios[i] == min(ratios.values()))
            if ties >= 2:
                ctx.count("lexmin:tie-broken-lexicographically")
        elif pos:
            ctx.count("lexmin:unresolved-tie")
        else:
            ctx.count("lexmin:no-positive-entry")
        cases.append(Case("C04 lexmin float T=%s c=%d ss=%d piv=%s diff=%s" % (
            fxm(sub), c, nm, fx(TOL_PIV), fx(TOL_RATIO_DIFF)),
            "%d %d" % (int(found), int(row)),
            nontrivial=len(pos) >= 2, tag="lexmin"))
        # _pivoting
        if found:
            P = Tn.copy()
            _pivoting(P, c, int(row))
            cases.append(Case("C04 pivot float T=%s c=%d r=%d" % (fxm(Tn), c, int(row)), fxm(P),
                              nontrivial=True, tag="pivot"))
    # solve_tableau as a public entry point: caller-built canonical tableaux (unit basic columns, arbitrary
    # lexicographic block incl. lex-negative rows, rhs >= 0 with zeros), both skip_aux values, small caps
    from quantecon.optimize.linprog_simplex import solve_tableau
    for _ in range(count // 3):
        L = R.randint(1, 4)
        nb = R.randint(1, 6)
        rows = []
        for i in range(L):
            rows.append([1.0 if j == i else 0.0 for j in range(L)] + [float(rint(R, -3, 3, 0.2)) for _ in range(nb)] +
                        [float(R.randint(-2, 2)) if j != i else float(R.choice([1, 1, -1, 2])) for j in range(L)] +
                        [float(R.choice([0, 0, 1, 2, 3]))])
        rows.append([0.0] * L + [float(rint(R, -3, 3, 0.2)) for _ in range(nb)] + [0.0] * L + [0.0])
        Tn = np.array(rows)
        basis = np.arange(L, dtype=np.int_)
        skip = R.random() < 0.5
        cap = R.choice([0, 1, 2, 5, 50, 10 ** 6])
        Tw, bw = Tn.copy(), basis.copy()
        suc, st, it = solve_tableau(Tw, bw, cap, skip, PivOptions(FEA_TOL, TOL_PIV, TOL_RATIO_DIFF))
        ctx.count("solve_tableau:status=%d" % int(st))
        if bool(suc) != (int(st) == 0):
            ctx.spec_fail("success_flag", "solve_tableau: success=%s with status=%d" % (suc, st), {"T": Tn.tolist()})
        if int(it) > cap:
            ctx.spec_fail("iteration_cap", "solve_tableau: num_iter=%d > max_iter=%d" % (it, cap), {"T": Tn.tolist()})
        cases.append(Case("C04 solvetab float T=%s basis=%s skip=%d maxiter=%d fea=%s piv=%s diff=%s" % (
            fxm(Tn), ints(basis), int(skip), cap, fx(FEA_TOL), fx(TOL_PIV), fx(TOL_RATIO_DIFF)),
            "st=%d it=%d basis=%s T=%s" % (int(st), int(it), ints(bw), fxm(Tw)), nontrivial=int(it) > 1,
            tag="solve_tableau"))

    # _initialize_tableau
    ctx_np = ctx.np_rng()
    for _ in range(count // 2):
        lp = gen_lp(R, R.choice(["mixed", "negb", "ub", "eq"]))
        c, Aub, bub, Aeq, beq = lp.arrays()
        L = lp.m + lp.k
        tableau = np.round(ctx_np.standard_normal((L + 1, lp.n + lp.m + L + 1)) * 8) / 4 + 0.25
        pre = tableau.copy()
        basis = np.empty(L, dtype=np.int_)
        _initialize_tableau(Aub, bub, Aeq, beq, tableau, basis)
        # the model writes into the same pre-filled buffer (`initTableauBuf`): buffers are explicit inputs
        cases.append(Case("C04 init float n=%d m=%d k=%d Aub=%s bub=%s Aeq=%s beq=%s buf=%s" % (
            lp.n, lp.m, lp.k, fxm(Aub), fxs(bub), fxm(Aeq), fxs(beq), fxm(pre)),
            "T=%s basis=%s" % (fxm(tableau), ints(basis)), nontrivial=True, tag="init"))



# ----------------------------------------------------------------------------
# optional output / work arguments, histories, argument forms

def gen_lp_shape(R, n, m, k):
    """an LP of the given shape with mixed signs of b (integer data, |entries| <= 3)"""
    pz = R.choice([0.0, 0.3, 0.5])
    row = lambda lo, hi: [rint(R, lo, hi, pz) for _ in range(n)]
    kind = R.random()
    if kind < 0.7:      # bounded-ish: mostly status 0
        Aub = [[R.randint(0, 3) for _ in range(n)] for _ in range(m)]
        if m:
            Aub[0] = [R.randint(1, 3) for _ in range(n)]
        bub = [R.randint(0, 3) for _ in range(m)]
        x0 = [R.randint(0, 1) for _ in range(n)]
        Aeq = [row(-2, 2) for _ in range(k)]
        beq = [max(-3, min(3, sum(a * b for a, b in zip(r, x0)))) for r in Aeq]
        c = [R.randint(-1, 3) for _ in range(n)]
    else:
        Aub = [row(-3, 3) for _ in range(m)]
        Aeq = [row(-3, 3) for _ in range(k)]
        bub = [R.randint(-2, 3) for _ in range(m)]
        beq = [R.randint(-2, 3) for _ in range(k)]
        c = [rint(R, -3, 3, 0.2) for _ in range(n)]
    return LPD(c, Aub, bub, Aeq, beq, "history")


def _bits(a):
    return np.ascontiguousarray(np.asarray(a, dtype=float)).tobytes()


def history_cases(ctx, nseq):
    """sequences of solves of equal shape through caller-supplied / omitted `tableau=`, `basis=`, `x=`,
    `lambd=` (all 16 combinations), buffers pre-filled with garbage / NaN / earlier contents and scribbled
    over between calls; every earlier result is kept and re-judged after every later call"""
    from quantecon.optimize.linprog_simplex import linprog_simplex, PivOptions
    R = ctx.rng
    nprng = ctx.np_rng()
    opts = PivOptions(FEA_TOL, TOL_PIV, TOL_RATIO_DIFF)
    for q in range(nseq):
        combo = q % 16
        use_t, use_b, use_x, use_l = bool(combo & 1), bool(combo & 2), bool(combo & 4), bool(combo & 8)
        n = R.randint(1, 6)
        L = R.randint(1, 5)
        m = R.randint(0, L) if R.random() < 0.3 else R.randint(1, max(1, L - 1))
        k = L - m
        N = n + m + L
        fill = R.choice(["garbage", "nan", "prev", "huge"])
        bufs = {}
        if use_t:
            bufs["tableau"] = np.empty((L + 1, N + 1))
        if use_b:
            bufs["basis"] = np.empty(L, dtype=np.int_)
        if use_x:
            bufs["x"] = np.empty(n)
        if use_l:
            bufs["lambd"] = np.empty(L)

        def scribble(first):
            if fill == "prev" and not first:
                return
            for name, a in bufs.items():
                if name == "basis":
                    a[:] = nprng.randint(-5, N + 5, size=a.shape)
                elif fill == "nan":
                    a[...] = np.nan
                elif fill == "huge":
                    a[...] = 1e300
                else:
                    a[...] = nprng.standard_normal(a.shape) * 7
        records = []
        for t in range(R.randint(2, 5)):
            lp = gen_lp_shape(R, n, m, k)
            c, Aub, bub, Aeq, beq = lp.arrays()
            inputs = {"c": c, "A_ub": Aub, "b_ub": bub, "A_eq": Aeq, "b_eq": beq}
            before = {kk: v.tobytes() for kk, v in inputs.items()}
            scribble(t == 0)
            res = linprog_simplex(c, A_ub=Aub, b_ub=bub, A_eq=Aeq, b_eq=beq, max_iter=10 ** 6, piv_options=opts,
                                  **bufs)
            ref = linprog_simplex(c.copy(), A_ub=Aub.copy(), b_ub=bub.copy(), A_eq=Aeq.copy(), b_eq=beq.copy(),
                                  max_iter=10 ** 6, piv_options=opts)
            ctx.count("history:combo=%s%s%s%s" % ("T" if use_t else "-", "B" if use_b else "-",
                                                    "X" if use_x else "-", "L" if use_l else "-"))
            ctx.count("history:status=%d" % int(res.status))
            rp = lp.replay()
            rp.update({"supplied": sorted(bufs), "fill": fill, "step": t,
                       "earlier": [r["lp"].replay() for r in records]})
            # inputs untouched
            for kk, v in inputs.items():
                if v.tobytes() != before[kk]:
                    ctx.spec_fail("input_mutated", "linprog_simplex modified its input %s" % kk, rp)
            # buffers must not influence the result
            same = (int(res.status) == int(ref.status) and int(res.num_iter) == int(ref.num_iter)
                    and bool(res.success) == bool(ref.success) and _bits([res.fun]) == _bits([ref.fun]))
            if same and np.isfinite(ref.fun):
                same = _bits(res.x) == _bits(ref.x) and _bits(res.lambd) == _bits(ref.lambd)
            if not same:
                ctx.spec_fail("buffer_dependence", "result with supplied/pre-filled buffers %s differs from the result "
                              "of the same call without buffers (status %d/%d, fun %r/%r)" % (
                                  sorted(bufs), res.status, ref.status, float(res.fun), float(ref.fun)), rp)
            # aliasing
            others = list(inputs.values()) + [a for nm_, a in bufs.items()]
            for fld, supplied in (("x", use_x), ("lambd", use_l)):
                arr = getattr(res, fld)
                if supplied:
                    if not (np.shares_memory(arr, bufs[fld]) and arr.shape == bufs[fld].shape):
                        ctx.spec_fail("result_not_in_buffer", "res.%s is not the supplied %s= buffer" % (fld, fld), rp)
                else:
                    for o in others + [getattr(r["res"], f2) for r in records for f2 in ("x", "lambd")]:
                        if np.shares_memory(arr, o):
                            ctx.spec_fail("result_aliases_buffer", "res.%s (not supplied by the caller) shares memory "
                                          "with a work buffer, an input or an earlier result" % fld, rp)
                            break
            if np.shares_memory(res.x, res.lambd):
                ctx.spec_fail("result_aliases_buffer", "res.x and res.lambd share memory", rp)
            records.append({"lp": lp, "res": res, "x": res.x.copy(), "lambd": res.lambd.copy(),
                            "fun": float(res.fun), "status": int(res.status), "step": t})
            # the caller reuses / clears its own work buffers, then looks at every result again
            if t % 2 == 1:
                for name, a in bufs.items():
                    if name in ("tableau", "basis"):
                        a[...] = 0 if name == "basis" else np.nan
            for r in records:
                late = r["step"] < t or t % 2 == 1
                if not late:
                    continue
                rr = r["res"]
                rpl = r["lp"].replay()
                rpl.update({"supplied": sorted(bufs), "fill": fill, "solved_at_step": r["step"], "reexamined_after_step": t,
                            "later": [q2["lp"].replay() for q2 in records[r["step"] + 1:]]})
                if int(rr.status) != r["status"] or _bits([rr.fun]) != _bits([r["fun"]]):
                    ctx.spec_fail("earlier_result_overwritten", "status/fun of an earlier result changed", rpl)
                if r["status"] != 0 and not np.isfinite(r["fun"]):
                    continue
                for fld, supplied in (("x", use_x), ("lambd", use_l)):
                    if supplied and r["step"] < t:
                        continue          # the caller's own output buffer: overwritten by contract
                    if _bits(getattr(rr, fld)) != _bits(r[fld]):
                        ctx.spec_fail("earlier_result_overwritten", "res.%s of the solve at step %d changed after the "
                                      "work buffers were reused / cleared (step %d)" % (fld, r["step"], t), rpl)
                if r["status"] == 0 and not ((use_x or use_l) and r["step"] < t):
                    if not (np.all(np.isfinite(rr.x)) and np.all(np.isfinite(rr.lambd)) and np.isfinite(rr.fun)):
                        ctx.spec_fail("earlier_result_certificate", "an earlier status-0 result re-examined after later "
                                      "solves contains non-finite numbers", rpl)
                        continue
                    why = optimal_cert_violation(r["lp"], [F(float(v)) for v in rr.x], [F(float(v)) for v in rr.lambd],
                                                 F(float(rr.fun)), TOL)
                    if why:
                        ctx.spec_fail("earlier_result_certificate", "an earlier status-0 result re-examined after later "
                                      "solves is no longer a primal-dual certificate: " + why, rpl)
                    else:
                        ctx.count("history:earlier-result-recertified")


def argform_cases(ctx, count):
    """the same LP passed as int64 / float32 / Fortran-ordered / non-contiguous arrays, max_iter and the
    tolerances as NumPy scalars, lists: the answer must be the float64 C-ordered one (or a clean exception)"""
    from quantecon.optimize.linprog_simplex import linprog_simplex, PivOptions
    from quantecon.optimize.minmax import minmax
    R = ctx.rng
    opts = PivOptions(FEA_TOL, TOL_PIV, TOL_RATIO_DIFF)
    forms = {
        "int64": lambda a: a.astype(np.int64),
        "float32": lambda a: a.astype(np.float32),
        "fortran": lambda a: np.asfortranarray(a),
        "strided": lambda a: (np.repeat(a, 2, axis=-1)[..., ::2] if a.ndim else a),
    }
    if not ctx.thorough:
        # quick tier: a seed-rotated subset of the signatures (each new signature costs a Numba compilation on a
        # cold cache); thorough — and any run escalated by a changed anchor — takes all of them
        names = sorted(forms)
        pick = {names[ctx.seed % len(names)]}
        forms = {kk: v for kk, v in forms.items() if kk in pick}
    for _ in range(count):
        lp = gen_lp_shape(R, R.randint(1, 5), R.randint(1, 3), R.randint(0, 2))
        c, Aub, bub, Aeq, beq = lp.arrays()
        ref = linprog_simplex(c, A_ub=Aub, b_ub=bub, A_eq=Aeq, b_eq=beq, max_iter=10 ** 6, piv_options=opts)
        variants = [(nm_, dict(c=f(c), A_ub=f(Aub), b_ub=f(bub), A_eq=f(Aeq), b_eq=f(beq), max_iter=10 ** 6,
                               piv_options=opts)) for nm_, f in forms.items()]
        if ctx.thorough or ctx.seed % 2 == 0:
          variants.append(("numpy-scalars", dict(c=c, A_ub=Aub, b_ub=bub, A_eq=Aeq, b_eq=beq, max_iter=np.int64(10 ** 6),
                                               piv_options=PivOptions(np.float64(FEA_TOL), np.float64(TOL_PIV),
                                                                      np.float64(TOL_RATIO_DIFF)))))
        if ctx.thorough:
            variants.append(("lists", dict(c=c.tolist(), A_ub=Aub.tolist(), b_ub=bub.tolist(), A_eq=Aeq.tolist(),
                                           b_eq=beq.tolist(), max_iter=10 ** 6, piv_options=opts)))
        for nm_, kw in variants:
            cc = kw.pop("c")
            keep = {kk: (np.array(v, copy=True) if isinstance(v, np.ndarray) else None) for kk, v in kw.items()}
            try:
                r = linprog_simplex(cc, **kw)
            except Exception as e:           # a clean refusal is not a wrong answer
                ctx.count("argform:%s:ERR:%s" % (nm_, type(e).__name__))
                continue
            ctx.count("argform:%s:ok" % nm_)
            for kk, v in kw.items():
                if isinstance(v, np.ndarray) and keep[kk] is not None and v.tobytes() != keep[kk].tobytes():
                    ctx.spec_fail("input_mutated", "linprog_simplex modified its %s input %s" % (nm_, kk), lp.replay())
            ok = int(r.status) == int(ref.status) and _bits([r.fun]) == _bits([ref.fun])
            if ok and np.isfinite(ref.fun):
                ok = _bits(r.x) == _bits(ref.x) and _bits(r.lambd) == _bits(ref.lambd)
            if not ok:
                rp = lp.replay()
                rp["form"] = nm_
                ctx.spec_fail("argument_form", "the %s form of the same data gives another answer (status %d vs %d, "
                              "fun %r vs %r)" % (nm_, r.status, ref.status, float(r.fun), float(ref.fun)), rp)
    # minmax: input unchanged, other array forms give the same answer
    for _ in range(count):
        m, n = R.randint(1, 4), R.randint(1, 4)
        A = np.array([[float(R.randint(-3, 3)) for _ in range(n)] for _ in range(m)])
        keep = A.tobytes()
        v, x, y = minmax(A)
        if A.tobytes() != keep:
            ctx.spec_fail("input_mutated", "minmax modified its input", {"A": A.tolist()})
        if np.shares_memory(x, A) or np.shares_memory(y, A) or np.shares_memory(x, y):
            ctx.spec_fail("result_aliases_buffer", "minmax results share memory", {"A": A.tolist()})
        for nm_, f in forms.items():
            try:
                v2, x2, y2 = minmax(f(A))
            except Exception as e:
                ctx.count("argform:minmax-%s:ERR:%s" % (nm_, type(e).__name__))
                continue
            ctx.count("argform:minmax-%s:ok" % nm_)
            if _bits([v2]) != _bits([v]) or _bits(x2) != _bits(x) or _bits(y2) != _bits(y):
                ctx.spec_fail("argument_form", "minmax on the %s form of A gives another answer" % nm_, {"A": A.tolist()})

# ----------------------------------------------------------------------------

def run(ctx):
    R = ctx.rng
    cases = []
    ctx.rule = ("LPs with integer data |entries|<=3, <=5 rows, <=6 columns from the streams ub / eq / mixed / negb / "
                "degenerate / bounded / feasible / redundant(+contradictory) / empty plus fixed instances (doctests, "
                "Beale, Klee-Minty, zero rows, L=0), capped runs (max_iter 0..6) and real-valued LPs for the bit-for-bit tie; "
                "non-trivial = more than 2 simplex iterations; games: integer "
                "matrices <=4x4 |a|<=3 and real matrices <=8x8, non-trivial = no pure saddle point; distinct by "
                "request line")
    ctx.assumptions.append("the class (optimal / infeasible / unbounded) of every generated LP is established by an "
                           "exact certificate verified in Fractions by the harness; the certificate is proposed by the "
                           "Rat model with tolerances 0")

    for lp in fixed_lps():
        lp_cases(ctx, lp, cases)

    per = ctx.n(70, 2500)
    for stream in ["ub", "eq", "mixed", "negb", "degenerate", "bounded", "feasible", "redundant", "bounded", "feasible",
                   "cone"]:
        for _ in range(per):
            lp_cases(ctx, gen_lp(R, stream), cases)
    for _ in range(ctx.n(4, 60)):
        lp_cases(ctx, gen_lp(R, "empty"), cases)
    for _ in range(ctx.n(40, 1500)):
        lp_cases(ctx, gen_lp(R, R.choice(["bounded", "feasible", "mixed", "degenerate", "redundant"])), cases,
                 max_iter=R.randint(0, 6))

    nprng0 = ctx.np_rng()
    for _ in range(ctx.n(80, 3000)):
        n, m, k = R.randint(1, 10), R.randint(0, 5), R.randint(0, 3)
        kind = R.random()
        Aub = nprng0.standard_normal((m, n))
        Aeq = nprng0.standard_normal((k, n))
        if kind < 0.5:
            Aub = np.abs(Aub)                      # bounded-ish: more status 0
        x0 = np.abs(nprng0.standard_normal(n)) * (nprng0.random(n) < 0.5)
        bub = Aub @ x0 + np.abs(nprng0.standard_normal(m)) * (1 if kind < 0.8 else -1)
        beq = Aeq @ x0
        c = nprng0.standard_normal(n)
        lp_cases(ctx, LPD(c.tolist(), Aub.tolist(), bub.tolist(), Aeq.tolist(), beq.tolist(), "real"), cases,
                 float_only=True)

    # games
    for _ in range(ctx.n(200, 8000)):
        m, n = R.randint(1, 4), R.randint(1, 4)
        kind = R.random()
        A = [[R.randint(-3, 3) for _ in range(n)] for _ in range(m)]
        if kind < 0.1:
            v0 = R.randint(-3, 3)
            A = [[v0] * n for _ in range(m)]                       # constant
        elif kind < 0.25 and m >= 2:
            A[-1] = list(A[0])                                     # duplicated row
        elif kind < 0.35:
            A = [[-abs(v) for v in r] for r in A]                  # non-positive
        minmax_cases(ctx, A, cases, TOL, True, "minmax-int")
    if ctx.thorough:
        import itertools
        for m, n, rng_ in [(1, 1, range(-3, 4)), (1, 2, range(-3, 4)), (2, 1, range(-3, 4)), (2, 2, range(-3, 4)),
                           (2, 3, range(-1, 2)), (3, 2, range(-1, 2)), (3, 3, range(-1, 2))]:
            for vals in itertools.product(rng_, repeat=m * n):
                A = [list(vals[i * n:(i + 1) * n]) for i in range(m)]
                minmax_cases(ctx, A, cases, TOL, True, "minmax-exh")
        ctx.extra["minmax_exhaustive_scopes"] = "all integer matrices 1x1,1x2,2x1,2x2 with |a|<=3; 2x3,3x2,3x3 with |a|<=1"
    nprng = ctx.np_rng()
    for _ in range(ctx.n(80, 2500)):
        m, n = R.randint(1, 8), R.randint(1, 8)
        A = nprng.standard_normal((m, n)).tolist()
        minmax_cases(ctx, A, cases, F(1, 10 ** 6), False, "minmax-real")

    kernel_cases(ctx, cases, ctx.n(150, 5000))

    history_cases(ctx, ctx.n(96, 1600))
    argform_cases(ctx, ctx.n(25, 300))

    ctx.run_cases(cases)

    # malformed stream: empty payoff matrices — the code raises ValueError (A.min() of an empty array), the
    # model refuses the request (`bad-op`); neither side may invent an answer
    from quantecon.optimize.minmax import minmax as _mm
    bad_lines, bad_code = [], []
    for shp in [(0, 2), (2, 0), (0, 0), (0, 1)]:
        try:
            _mm(np.empty(shp))
            bad_code.append("answered")
        except ValueError:
            bad_code.append("ERR:ValueError")
        bad_lines.append("C04 minmax float m=%d n=%d A=- maxiter=1000000 fea=%s piv=%s diff=%s" % (
            shp[0], shp[1], fx(FEA_TOL), fx(TOL_PIV), fx(TOL_RATIO_DIFF)))
    bad_lines.append("C04 mmguard rat m=2 n=2 A=1,2;3 maxiter=10 fea=0 piv=0 diff=0")     # ragged
    bad_code.append("ERR:ValueError")
    bad_lines.append("C04 solvetab rat T=1,0,1;0,0,0 basis=0,1 skip=0 maxiter=5 fea=0 piv=0 diff=0")   # basis too long
    bad_code.append("ERR:ValueError")
    for line, code, mo in zip(bad_lines, bad_code, ctx.driver(bad_lines)):
        ctx.evaluations += 1
        ctx.count("malformed:%s/%s" % (code, mo))
        if (mo == "bad-op") != code.startswith("ERR"):
            ctx.mismatches.append({"request": line, "code": code, "model": mo, "why": "malformed request: one side "
                                   "answers, the other refuses"})
