"""C08 — quadrature rules: correspondence + spec run.

Correspondence (model qedriver_c08 vs the real quantecon.quad):
  * trap / simp: the exact `Rat` model against the code's doubles inside a rounding
    envelope (8 eps (|a|+|b|)); the `Float` instance of the same definitions is
    compared bit for bit and *counted* (trace fidelity, not an alarm);
  * tensor products (d = 2, 3) of every rule family: the model's gridmake / ckron applied to
    the code's own one-dimensional output must reproduce the code's d-dimensional output
    **bit for bit** (ordering of nodes and weights is a discrete output);
  * gridmake / ckron called directly on integer labels, error paths (ValueError / IndexError /
    TypeError): exact;
  * qnwunif / qnwequi weights: `Float` model, bit for bit; quadrect and the affine map of
    qnwnorm (cholesky and sqrtm factors computed by the same SciPy calls): `Rat` model, envelope;
  * the Gauss rules: the model's `Float` re-execution of the whole routine (tabulated starting
    values, three-term recurrence, Newton loop, weight formula, mirror indexing) for
    _qnwlege1, _qnwnorm1, _qnwgamma1, _qnwbeta1 and the closed form _qnwcheb1, envelope
    1e-13 .. 1e-11 relative (bit equality counted; lgamma/exp constants and cos starting values
    are supplied by the harness from the same library calls);
  * the three-term recurrences of the model at rational arguments against SciPy's
    eval_legendre / eval_genlaguerre / eval_jacobi.
Spec run (model independent, exact integer arithmetic on the code's doubles): support,
positivity, total mass and all moment conditions up to the degree the rule promises, judged
relative to sum_i w_i |x_i|^k; tensor ordering per multi-index; qnwnorm mean / covariance;
qnwlogn = exp image; qnwequi weights / box; quadrect = weights.f(nodes).
harness/corpus/c08_beta.json holds the qnwbeta inputs on which the unchanged tree is known to
fail (key `qnwbeta-n3-small-b`, listed in known_findings.txt); they are run on every check.
"""
import itertools
import math
from fractions import Fraction

import numpy as np

from .common import Case, fx, fxs, fxm, ints, rat, rats, ratm, parse_rats, parse_ratm, unfx

FILES = ["quantecon/quad.py", "quantecon/_ce_util.py"]

EPS = Fraction(1, 2 ** 52)

# relative tolerances of the moment conditions (relative to sum_i w_i |x_i|^k)
TOL = {
    "trap": Fraction(1, 10 ** 11), "simp": Fraction(1, 10 ** 11), "cheb": Fraction(1, 10 ** 11),
    "lege": Fraction(1, 10 ** 11), "unif": Fraction(1, 10 ** 11), "norm": Fraction(1, 10 ** 11),
    # _qnwgamma1 stops at |dz| <= 3e-14; _qnwbeta1 at |dz| <= 1e-10 and forms the weights from
    # p2, pp evaluated at the *previous* iterate, which limits the weights to ~1e-8 relative
    "gamma": Fraction(1, 10 ** 9), "beta": Fraction(5, 10 ** 6),
}


# ----------------------------------------------------------------------------
# exact helpers


def F(x):
    return Fraction(float(x))


def scaled_ints(v):
    """doubles -> (integers V_i, s) with v_i = V_i / 2^s exactly"""
    fr = [Fraction(float(t)) for t in v]
    s = 0
    for q in fr:
        d = q.denominator
        s = max(s, d.bit_length() - 1)
    return [q.numerator * (1 << s) // q.denominator for q in fr], s


def moment_errors(x, w, mom, K, tol):
    """exact check of  |sum w_i x_i^k - mom(k)| <= tol * sum |w_i| |x_i|^k  for k = 0..K.
    Returns list of (k, relative error as float) of the violated ones; also the worst."""
    X, s = scaled_ints(x)
    W, t = scaled_ints(w)
    pw = [1] * len(X)
    bad, worst = [], 0.0
    for k in range(K + 1):
        S = sum(wi * p for wi, p in zip(W, pw))
        SA = sum(abs(wi * p) for wi, p in zip(W, pw))
        m = Fraction(mom(k))
        sc = 1 << (t + s * k)
        # |S/sc - m| <= tol * SA/sc
        lhs = abs(S * m.denominator - m.numerator * sc)
        rhs = tol * SA * m.denominator
        if SA:
            rel = float(Fraction(lhs, SA * m.denominator))
        else:
            rel = 0.0 if lhs == 0 else float("inf")
        worst = max(worst, rel)
        if lhs > rhs:
            bad.append((k, rel))
        pw = [p * xi for p, xi in zip(pw, X)]
    return bad, worst


def dfact(k):
    r = 1
    while k > 1:
        r *= k
        k -= 2
    return r


def mom_interval(a, b):
    a, b = Fraction(a), Fraction(b)
    return lambda k: (b ** (k + 1) - a ** (k + 1)) / (k + 1)


def mom_unif(a, b):
    a, b = Fraction(a), Fraction(b)
    return lambda k: (b ** (k + 1) - a ** (k + 1)) / (k + 1) / (b - a)


def mom_norm(k):
    return 0 if k % 2 else dfact(k - 1)


def mom_beta(a, b):
    a, b = Fraction(a), Fraction(b)

    def m(k):
        r = Fraction(1)
        for j in range(k):
            r *= (a + j) / (a + b + j)
        return r
    return m


def mom_gamma(a, s):
    a, s = Fraction(a), Fraction(s)

    def m(k):
        r = Fraction(1)
        for j in range(k):
            r *= (a + j) * s
        return r
    return m


def dy(rng, lo, hi, den=64):
    """dyadic rational in [lo, hi]"""
    return Fraction(rng.randint(int(lo * den), int(hi * den)), den)


def shape_par(rng):
    """beta / gamma shape parameter in (0.2, 8), dyadic; a third of them below 1"""
    return dy(rng, 0.21, 1) if rng.random() < 0.34 else dy(rng, 1, 8)


def interval(rng):
    """a < b, |a|,|b| <= 8, b - a >= 1/8; dyadic or generic doubles"""
    while True:
        if rng.random() < 0.6:
            a, b = dy(rng, -8, 8), dy(rng, -8, 8)
        else:
            a, b = Fraction(rng.uniform(-8, 8)), Fraction(rng.uniform(-8, 8))
        if a > b:
            a, b = b, a
        if b - a >= Fraction(1, 8):
            return a, b


def env_cmp(bound):
    """comparator: model prints 'nodes|weights' as rationals, impl the same as doubles;
    |code - model| <= bound for every entry"""
    def cmp(mo, impl):
        if mo.startswith("ERR") or impl.startswith("ERR"):
            return None if mo == impl else "outputs differ"
        mp, ip = mo.split("|"), impl.split("|")
        if len(mp) != len(ip):
            return "shape differs"
        for a, b in zip(mp, ip):
            ra, rb = parse_rats(a), parse_rats(b)
            if len(ra) != len(rb):
                return "length differs (%d vs %d)" % (len(ra), len(rb))
            for u, v in zip(ra, rb):
                if abs(u - v) > bound:
                    return "entry differs by %.3e > %.3e" % (float(abs(u - v)), float(bound))
        return None
    return cmp


def run(ctx):
    # _qnwsimp1 prints a warning for every even n (numba `print` -> sys.stdout): keep the check's output clean
    import contextlib
    import io
    buf = io.StringIO()
    try:
        with contextlib.redirect_stdout(buf):
            _run(ctx)
    finally:
        for ln in buf.getvalue().splitlines():
            if not ln.startswith("WARNING qnwsimp"):
                print(ln)


def _run(ctx):
    from quantecon import quad as Q
    from quantecon._ce_util import gridmake, ckron
    import scipy.linalg as la

    rng = ctx.rng
    cases = []
    ctx.rule = ("closed-form rules: every n in 2..31 with a random interval (dyadic or generic doubles in [-8,8], "
                "b-a >= 1/8); tensor products: d in {2,3}, n_i in 1..N incl. equal n_i, every rule family; Gauss rules: "
                "n in 1..30, beta/gamma parameters dyadic in (0.2,8); qnwnorm: d<=3, SPD covariance, chol and sqrtm. "
                "A case is non-trivial when n >= 3 (closed form), every n_i >= 2 (tensor), n >= 2 (Gauss); "
                "distinct by request line")
    fid = {"trapf": [0, 0], "simpf": [0, 0], "lege": [0, 0], "gammanode": [0, 0], "gamma": [0, 0], "norm1": [0, 0], "beta": [0, 0], "cheb": [0, 0]}

    def fidelity(name):
        def cmp(mo, impl):
            fid[name][1] += 1
            if mo == impl:
                fid[name][0] += 1
            return None
        return cmp

    def pair_bits(x, w):
        return fxs(x) + "|" + fxs(w)

    worst = {}

    def spec_moments(rule, key, x, w, mom, K, replay, lo=None, hi=None, strict=False, mass=None):
        """support, positivity and the moment conditions of one 1-d rule, exactly"""
        x = np.atleast_1d(x)
        w = np.atleast_1d(w)
        if not (np.all(np.isfinite(x)) and np.all(np.isfinite(w))):
            ctx.spec_fail(key, "%s: non-finite nodes or weights" % rule, replay)
            return
        if lo is not None:
            ok = all((lo < F(t) if strict else lo <= F(t)) for t in x)
            ok = ok and (hi is None or all((F(t) < hi if strict else F(t) <= hi) for t in x))
            if not ok:
                ctx.spec_fail(key, "%s: a node lies outside the support" % rule, replay)
        if not all(float(t) > 0 for t in w):
            ctx.spec_fail(key, "%s: a weight is not positive" % rule, replay)
        bad, wr = moment_errors(x, w, mom, K, TOL[rule])
        if not bad:     # (the worst error among the rules that pass: shows the margin to the tolerance)
            worst[rule] = max(worst.get(rule, 0.0), wr)
        if bad:
            k, rel = bad[0]
            ctx.spec_fail(key, "%s: moment of degree %d is off by %.3e relative to sum w|x|^k (tolerance %.1e); "
                               "%d of %d moment conditions fail" % (rule, k, rel, float(TOL[rule]), len(bad), K + 1), replay)

    # ---- 1. closed-form rules: trapezoid, Simpson -------------------------------------------
    ns = list(range(2, 32))
    for n in ns:
        for rep in range(ctx.n(2, 30)):
            a, b = interval(rng)
            fa, fb = float(a), float(b)
            scale = abs(a) + abs(b)
            bound = 8 * EPS * scale
            # trapezoid
            x, w = Q.qnwtrap(n, fa, fb)
            rp = {"op": "qnwtrap", "n": n, "a": fa, "b": fb}
            if len(x) != n or F(x[0]) != a or F(x[-1]) != b:
                ctx.spec_fail("qnwtrap", "qnwtrap: %d nodes, endpoints %r %r" % (len(x), x[0], x[-1]), rp)
            spec_moments("trap", "qnwtrap", x, w, mom_interval(a, b), 1, rp, lo=a, hi=b)
            cases.append(Case("C08 trap n=%d a=%s b=%s" % (n, fx(fa), fx(fb)), pair_bits(x, w),
                              nontrivial=(n >= 3), cmp=env_cmp(bound), tag="trap"))
            cases.append(Case("C08 trapf n=%d a=%s b=%s" % (n, fx(fa), fx(fb)), pair_bits(x, w),
                              nontrivial=False, cmp=fidelity("trapf"), tag="trapf"))
            # Simpson
            x, w = Q.qnwsimp(n, fa, fb)
            rp = {"op": "qnwsimp", "n": n, "a": fa, "b": fb}
            n_eff = n + 1 if n % 2 == 0 else n
            ctx.count("simp:even-n-rounded-up" if n % 2 == 0 else "simp:odd-n")
            if len(x) != n_eff or F(x[0]) != a or F(x[-1]) != b:
                ctx.spec_fail("qnwsimp", "qnwsimp: %d nodes for n=%d, endpoints %r %r" % (len(x), n, x[0], x[-1]), rp)
            spec_moments("simp", "qnwsimp", x, w, mom_interval(a, b), 3, rp, lo=a, hi=b)
            cases.append(Case("C08 simp n=%d a=%s b=%s" % (n, fx(fa), fx(fb)), pair_bits(x, w),
                              nontrivial=(n >= 3), cmp=env_cmp(bound), tag="simp"))
            cases.append(Case("C08 simpf n=%d a=%s b=%s" % (n, fx(fa), fx(fb)), pair_bits(x, w),
                              nontrivial=False, cmp=fidelity("simpf"), tag="simpf"))

    # ---- 2. Gauss rules: spec oracle ------------------------------------------------------------
    gauss_ns = list(range(1, 31))
    for n in gauss_ns * ctx.n(1, 25):
        a, b = interval(rng)
        fa, fb = float(a), float(b)
        # Legendre
        x, w = Q.qnwlege(n, fa, fb)
        rp = {"op": "qnwlege", "n": n, "a": fa, "b": fb}
        if len(np.atleast_1d(x)) != n:
            ctx.spec_fail("qnwlege", "qnwlege: wrong number of nodes", rp)
        spec_moments("lege", "qnwlege", x, w, mom_interval(a, b), 2 * n - 1, rp, lo=a, hi=b, strict=True)
        # Newton iteration of the model (Float) from the same starting values
        m = int((n + 1) / 2.0)
        z0 = np.cos(np.pi * ((np.arange(m) + 1.0) - 0.25) / (n + 0.5))
        scale = abs(a) + abs(b)
        cases.append(Case("C08 lege n=%d a=%s b=%s tol=%s z0=%s" % (n, fx(fa), fx(fb), fx(1e-14), fxs(z0)),
                          pair_bits(x, w), nontrivial=(n >= 2), tag="lege",
                          cmp=_both(env_cmp(Fraction(1, 10 ** 13) * max(scale, 1)), fidelity("lege"))))
        # uniform
        x, w = Q.qnwunif(n, fa, fb)
        rp = {"op": "qnwunif", "n": n, "a": fa, "b": fb}
        spec_moments("unif", "qnwunif", x, w, mom_unif(a, b), 2 * n - 1, rp, lo=a, hi=b, strict=True)
        # Chebyshev (Fejer's first rule: interpolatory, exact up to degree n-1)
        x, w = Q.qnwcheb(n, fa, fb)
        rp = {"op": "qnwcheb", "n": n, "a": fa, "b": fb}
        spec_moments("cheb", "qnwcheb", x, w, mom_interval(a, b), n - 1, rp, lo=a, hi=b, strict=True)
        cases.append(Case("C08 cheb n=%d a=%s b=%s" % (n, fx(fa), fx(fb)), pair_bits(np.atleast_1d(x), np.atleast_1d(w)),
                          nontrivial=(n >= 2), tag="cheb", cmp=_both(_cheb_env(float(scale)), fidelity("cheb"))))
        # standard normal
        x, w = Q.qnwnorm(n)
        rp = {"op": "qnwnorm", "n": n}
        spec_moments("norm", "qnwnorm", x, w, mom_norm, 2 * n - 1, rp)
        # the whole Hermite Newton iteration of the model (Float) against _qnwnorm1 itself
        # (qnwnorm adds `* 1 + 0`, which turns the -0.0 of the middle node into +0.0)
        x1, w1 = Q._qnwnorm1(n)
        if not (np.array_equal(np.atleast_1d(x), x1) and np.array_equal(w, w1)):
            ctx.spec_fail("qnwnorm", "qnwnorm(n) differs from _qnwnorm1(n)", rp)
        cases.append(Case("C08 norm1 n=%d pim4=%s sqrtpi=%s tol=%s" % (n, fx(1 / np.pi ** 0.25), fx(math.sqrt(math.pi)), fx(1e-14)),
                          pair_bits(x1, w1), nontrivial=(n >= 2), tag="norm1",
                          cmp=_both(_abs_rel_env(1e-13), fidelity("norm1"))))
    beta_ns = gauss_ns
    def beta_case(n, pa, pb, src):
        rp = {"op": "qnwbeta", "n": n, "a": float(pa), "b": float(pb)}
        # (the region in which the unchanged tree is known to return a wrong rule gets its own key)
        key = "qnwbeta-n3-small-b" if (n == 3 and pb < Fraction(1, 4) and pa > 6) else "qnwbeta"
        try:
            x, w = Q.qnwbeta(n, float(pa), float(pb))
        except ValueError as e:
            ctx.spec_fail(key + "-noconv", "qnwbeta raised %s" % e, rp)
            return
        xs = np.sort(np.atleast_1d(x))
        if len(xs) > 1 and np.min(np.diff(xs)) < 1e-9:
            ctx.count("beta:duplicate-node")
            ctx.spec_fail(key, "qnwbeta(%d, %r, %r): two nodes coincide (nodes %s, weights sum to %r)"
                          % (n, float(pa), float(pb), np.atleast_1d(x).tolist(), float(np.sum(w))), rp)
        spec_moments("beta", key, x, w, mom_beta(pa, pb), 2 * n - 1, rp, lo=0, hi=1, strict=True)
        # the whole routine in the model (Float): starting values, Newton iterations, weights
        a1, b1 = float(pa) - 1, float(pb) - 1
        gl = lambda t: float(Q.gammaln(float(t)))
        c1 = math.exp(gl(a1 + n) + gl(b1 + n) - gl(n + 1) - gl(n + (a1 + b1) + 1))
        c2 = 2 * math.exp(gl(a1 + 1) + gl(b1 + 1) - gl((a1 + b1) + 2))
        cases.append(Case("C08 beta n=%d a=%s b=%s c1=%s c2=%s" % (n, fx(a1), fx(b1), fx(c1), fx(c2)),
                          pair_bits(np.atleast_1d(x), np.atleast_1d(w)), nontrivial=(n >= 2), tag="beta",
                          cmp=_both(_abs_rel_env(1e-12), fidelity("beta"))))
        ctx.count("beta:a<1" if pa < 1 else "beta:a>=1")
        ctx.count("beta:b<1" if pb < 1 else "beta:b>=1")
        ctx.count("beta:" + src)

    import json
    import os
    cpath = os.path.join(ctx.corpus_dir, "c08_beta.json")
    if os.path.exists(cpath):
        for n, pa, pb in json.load(open(cpath))["qnwbeta"]:
            beta_case(int(n), Fraction(pa), Fraction(pb), "corpus")
    for n in beta_ns:
        for rep in range(ctx.n(1, 100)):
            beta_case(n, shape_par(rng), shape_par(rng), "random")
    # corner sweep of the parameter square for small n (thorough)
    if ctx.thorough:
        edge = [Fraction(13, 64), Fraction(15, 64), Fraction(1, 4), Fraction(1, 2), Fraction(1), Fraction(6), Fraction(29, 4), Fraction(8)]
        for n in range(1, 9):
            for pa in edge:
                for pb in edge:
                    beta_case(n, pa, pb, "edge-sweep")
    for n in beta_ns:
        for rep in range(ctx.n(1, 60)):
            pa, ps = shape_par(rng), dy(rng, 0.125, 8, 8)
            rp = {"op": "qnwgamma", "n": n, "a": float(pa), "b": float(ps)}
            try:
                x, w = Q.qnwgamma(n, float(pa), float(ps))
            except ValueError as e:
                ctx.spec_fail("qnwgamma-noconv", "qnwgamma raised %s" % e, rp)
                continue
            spec_moments("gamma", "qnwgamma", x, w, mom_gamma(pa, ps), 2 * n - 1, rp, lo=0, strict=True)
            # the whole Newton iteration of the model (Float), normalising constant supplied
            a1 = float(pa) - 1
            factor = -math.exp(float(Q.gammaln(a1 + n)) - float(Q.gammaln(float(n))) - float(Q.gammaln(a1 + 1)))
            cases.append(Case("C08 gamma n=%d a=%s b=%s tol=%s factor=%s" % (n, fx(a1), fx(float(ps)), fx(3e-14), fx(factor)),
                              pair_bits(np.atleast_1d(x), np.atleast_1d(w)), nontrivial=(n >= 2), tag="gamma",
                              cmp=_both(_rel_env(1e-12), fidelity("gamma"))))
            ctx.count("gamma:shape<1" if pa < 1 else "gamma:shape>=1")

    # ---- 3. tensor products -----------------------------------------------------------------------
    def one_d(kind, n, a, b):
        if kind == "trap":
            return Q.qnwtrap(n, a, b)
        if kind == "simp":
            return Q.qnwsimp(n, a, b)
        if kind == "lege":
            return Q.qnwlege(n, a, b)
        if kind == "cheb":
            return Q.qnwcheb(n, a, b)
        if kind == "beta":
            return Q.qnwbeta(n, a, b)
        if kind == "gamma":
            return Q.qnwgamma(n, a, b)
        if kind == "norm":
            return Q.qnwnorm(n)
        raise KeyError(kind)

    def multi_d(kind, n, a, b):
        return {"trap": Q.qnwtrap, "simp": Q.qnwsimp, "lege": Q.qnwlege, "cheb": Q.qnwcheb,
                "beta": Q.qnwbeta, "gamma": Q.qnwgamma}[kind](n, a, b)

    def spec_tensor(key, nodes, weights, xs, ws, replay):
        """row idx = sum_k i_k prod_{l<k} n_l holds (x_k[i_k])_k and weight prod_k w_k[i_k]"""
        nn = [len(v) for v in xs]
        N = int(np.prod(nn))
        nodes = np.asarray(nodes)
        if nodes.shape != (N, len(nn)) or np.asarray(weights).shape != (N,):
            ctx.spec_fail(key, "tensor rule has shape %s / %s for n=%s" % (nodes.shape, np.shape(weights), nn), replay)
            return
        for mi in itertools.product(*[range(k) for k in nn]):
            idx, stride = 0, 1
            for k, i in enumerate(mi):
                idx += i * stride
                stride *= nn[k]
            okn = all(float(nodes[idx, k]) == float(xs[k][i]) for k, i in enumerate(mi))
            pw = Fraction(1)
            for k, i in enumerate(mi):
                pw *= F(ws[k][i])
            okw = abs(F(weights[idx]) - pw) <= 4 * EPS * abs(pw)
            if not (okn and okw):
                ctx.spec_fail(key, "tensor rule: row %d is not the multi-index %s (nodes ok=%s, weight ok=%s)"
                              % (idx, list(mi), okn, okw), dict(replay, index=idx, multi_index=list(mi)))
                return

    kinds = ["trap", "simp", "lege", "cheb", "beta", "gamma"]
    nmax_t = ctx.n(6, 9)

    def spec_mass(key, rule, weights, expected, replay):
        """total mass of a (tensor) rule, exactly: |sum w - expected| <= tol * expected"""
        tot = sum(F(t) for t in np.atleast_1d(weights))
        if abs(tot - expected) > TOL[rule] * abs(expected) * 10:
            ctx.spec_fail(key, "%s: the weights sum to %r, total mass is %r" % (rule, float(tot), float(expected)), replay)

    def bcast(mode, va, vb):
        """arguments as passed to the library: vectors, or scalars to be broadcast against the vector n.
        mode: 0 both vectors, 1 scalar a, 2 scalar b, 3 both scalar.  Returns (a_arg, b_arg, a_list, b_list)."""
        d = len(va)
        if mode in (1, 3):
            va = [va[0]] * d
        if mode in (2, 3):
            vb = [vb[0]] * d
        a_arg = va[0] if mode in (1, 3) else np.array(va)
        b_arg = vb[0] if mode in (2, 3) else np.array(vb)
        return a_arg, b_arg, va, vb

    for kind in kinds:
        for rep in range(ctx.n(8, 120)):
            d = 2 if rep % 2 == 0 else 3
            lo = {"trap": 2, "simp": 2}.get(kind, 1)
            if rep == 1:
                nn = [rng.randint(max(lo, 2), 4)] * d        # equal n per dimension
                ctx.count("tensor:equal-n")
            else:
                nn = [rng.randint(lo, nmax_t if d == 2 else 5) for _ in range(d)]
            mode = rep % 4                                   # which of a, b are scalars (broadcast by np.repeat)
            if kind in ("beta", "gamma"):
                aa = [float(dy(rng, 0.25, 6)) for _ in range(d)]
                bb = [float(dy(rng, 0.25, 6)) for _ in range(d)]
            else:
                # a scalar lower / upper bound has to be below / above all the others
                iv = [interval(rng) for _ in range(d)]
                aa, bb = [float(i[0]) for i in iv], [float(i[1]) for i in iv]
                if mode in (1, 3):
                    aa = [min(aa)] * d
                if mode in (2, 3):
                    bb = [max(bb)] * d
            a_arg, b_arg, aa, bb = bcast(mode, aa, bb)
            ctx.count("tensor:broadcast-mode=%d" % mode)
            nodes, weights = multi_d(kind, np.array(nn), a_arg, b_arg)
            one = [one_d(kind, nn[k], aa[k], bb[k]) for k in range(d)]
            xs = [np.atleast_1d(o[0]) for o in one]
            ws = [np.atleast_1d(o[1]) for o in one]
            rp = {"op": "tensor:" + kind, "n": nn, "a": a_arg if mode in (1, 3) else aa, "b": b_arg if mode in (2, 3) else bb,
                  "scalar_a": mode in (1, 3), "scalar_b": mode in (2, 3)}
            spec_tensor("tensor", nodes, weights, xs, ws, rp)
            mass = Fraction(1)
            if kind not in ("beta", "gamma"):
                for k in range(d):
                    mass *= F(bb[k]) - F(aa[k])
            spec_mass("tensor-mass", kind, weights, mass, rp)
            if any(k == 1 for k in nn):
                ctx.count("tensor:some-n=1")
            ctx.count("tensor:d=%d" % d)
            cases.append(Case("C08 tensorf nodes=%s weights=%s" % (fxm(xs), fxm(ws)),
                              fxm(np.asarray(nodes).reshape(-1, d)) + "|" + fxs(weights),
                              nontrivial=all(k >= 2 for k in nn), tag="tensor:" + kind))
    # qnwunif: tensor Legendre weights divided by the volume of the box; scalar / vector bounds
    for rep in range(ctx.n(16, 80)):
        d = rng.randint(1, 3)
        nn = [rng.randint(1, 5) for _ in range(d)]
        iv = [interval(rng) for _ in range(d)]
        aa, bb = [float(i[0]) for i in iv], [float(i[1]) for i in iv]
        mode = rep % 4 if d > 1 else 0
        if mode in (1, 3):
            aa = [min(aa)] * d
        if mode in (2, 3):
            bb = [max(bb)] * d
        a_arg, b_arg, aa, bb = bcast(mode, aa, bb)
        ctx.count("unif:broadcast-mode=%d" % mode)
        if d == 1:
            xl, wl = Q.qnwlege(nn[0], aa[0], bb[0])
            xu, wu = Q.qnwunif(nn[0], aa[0], bb[0])
        else:
            xl, wl = Q.qnwlege(np.array(nn), a_arg, b_arg)
            xu, wu = Q.qnwunif(np.array(nn), a_arg, b_arg)
        rp = {"op": "qnwunif", "n": nn, "a": a_arg if mode in (1, 3) else aa, "b": b_arg if mode in (2, 3) else bb,
              "scalar_a": mode in (1, 3), "scalar_b": mode in (2, 3)}
        if not np.array_equal(np.asarray(xl), np.asarray(xu)):
            ctx.spec_fail("qnwunif", "qnwunif nodes differ from qnwlege nodes", rp)
        spec_mass("qnwunif", "unif", wu, Fraction(1), rp)
        # mean of every coordinate = midpoint of its interval (needs n_k >= 1 only)
        Xu = np.asarray(xu).reshape(-1, d)
        for k in range(d):
            m1 = sum(F(wi) * F(xi) for wi, xi in zip(np.atleast_1d(wu), Xu[:, k]))
            mid = (F(aa[k]) + F(bb[k])) / 2
            if abs(m1 - mid) > Fraction(1, 10 ** 11) * (abs(F(aa[k])) + abs(F(bb[k])) + 1):
                ctx.spec_fail("qnwunif", "qnwunif: mean of coordinate %d is %r, midpoint %r" % (k, float(m1), float(mid)), rp)
        wire_a = [aa[0]] if mode in (1, 3) else aa
        wire_b = [bb[0]] if mode in (2, 3) else bb
        cases.append(Case("C08 unifw w=%s a=%s b=%s dn=%d" % (fxs(np.atleast_1d(wl)), fxs(wire_a), fxs(wire_b), d),
                          fxs(np.atleast_1d(wu)), nontrivial=True, tag="unifw"))

    # gridmake / ckron directly, integer labels
    for rep in range(ctx.n(30, 400)):
        d = rng.randint(2, 4)
        arrs = []
        base = 0
        for k in range(d):
            ln = rng.randint(1, 4)
            arrs.append([base + t for t in range(ln)])
            base += 10
        g = gridmake(*[np.array(v, dtype=float) for v in arrs])
        ref = [list(reversed(t)) for t in itertools.product(*reversed(arrs))]
        if g.tolist() != ref:
            ctx.spec_fail("gridmake", "gridmake%s is not the product with the first index fastest" % (arrs,), {"arrs": arrs})
        cases.append(Case("C08 gridmake arrs=%s" % ratm(arrs), ratm([[Fraction(v) for v in r] for r in g.tolist()]),
                          nontrivial=(max(len(v) for v in arrs) >= 2), tag="gridmake"))
        warr = [[rng.randint(1, 9) for _ in v] for v in arrs]
        kw = ckron(*[np.array(v, dtype=float) for v in warr[::-1]])
        refw = [math.prod(t) for t in itertools.product(*reversed(warr))]
        if [int(t) for t in kw] != refw:
            ctx.spec_fail("ckron", "ckron(reversed %s) is not the product weight vector, first index fastest" % (warr,), {"arrs": warr})
        cases.append(Case("C08 ckron arrs=%s" % ratm(warr[::-1]), rats([Fraction(float(t)) for t in kw]),
                          nontrivial=(max(len(v) for v in arrs) >= 2), tag="ckron"))
    # error paths
    for line, thunk in [("C08 gridmake arrs=1,2", lambda: gridmake(np.array([1.0, 2.0]))),
                        ("C08 gridmake arrs=-", lambda: gridmake()),
                        ("C08 ckron arrs=-", lambda: ckron()),
                        ("C08 trap n=0 a=0 b=1", lambda: Q.qnwtrap(0, 0.0, 1.0))]:
        try:
            thunk()
            out = "no-error"
        except (IndexError, TypeError, ValueError) as e:
            out = "ERR:" + type(e).__name__
        ctx.count("error:" + out)
        cases.append(Case(line, out, nontrivial=False, tag="errors"))
    try:
        Q.qnwequi(5, 0.0, 1.0, kind="X")
        ctx.spec_fail("qnwequi-kind", "qnwequi accepted an unknown kind", {"kind": "X"})
    except ValueError:
        ctx.count("error:qnwequi-unknown-kind")

    # ---- 4. qnwnorm: mean / covariance, affine map; qnwlogn ----------------------------------------
    for rep in range(ctx.n(45, 1000)):
        d = rng.randint(1, 3)
        nn = [rng.randint(2, 7 if d < 3 else 5) for _ in range(d)]
        mu = [dy(rng, -4, 4, 8) for _ in range(d)]
        A = [[Fraction(rng.randint(-4, 4), 4) for _ in range(d)] for _ in range(d)]
        S = [[sum(A[i][k] * A[j][k] for k in range(d)) + (Fraction(rng.randint(1, 8), 4) if i == j else 0)
              for j in range(d)] for i in range(d)]
        use_sqrtm = rep % 3 == 2
        fmu = np.array([float(t) for t in mu])
        fS = np.array([[float(t) for t in r] for r in S])
        rp = {"op": "qnwnorm", "n": nn, "mu": fmu.tolist(), "sig2": fS.tolist(), "usesqrtm": use_sqrtm}
        narg = nn[0] if d == 1 else np.array(nn)
        if d > 1 and rep % 7 == 3:            # scalar mu for d > 1: broadcast to every dimension
            mu = [mu[0]] * d
            fmu = np.array([float(t) for t in mu])
            rp["mu"] = float(mu[0])
            ctx.count("norm:scalar-mu-broadcast")
            x, w = Q.qnwnorm(narg, float(mu[0]), fS, usesqrtm=use_sqrtm)
        else:
            x, w = Q.qnwnorm(narg, fmu if d > 1 else fmu[0], fS if d > 1 else fS[0, 0], usesqrtm=use_sqrtm)
        X = np.asarray(x).reshape(-1, d)
        N = int(np.prod(nn))
        ctx.count("norm:sqrtm" if use_sqrtm else "norm:cholesky")
        ctx.count("norm:d=%d" % d)
        if X.shape != (N, d) or w.shape != (N,) or not np.all(np.isfinite(X)):
            ctx.spec_fail("qnwnorm", "qnwnorm output shape %s / %s" % (X.shape, w.shape), rp)
            continue
        fw = [F(t) for t in w]
        fX = [[F(t) for t in r] for r in X]
        tol = Fraction(1, 10 ** 10)
        if any(t <= 0 for t in fw) or abs(sum(fw) - 1) > tol:
            ctx.spec_fail("qnwnorm", "qnwnorm weights: positive=%s sum=%r" % (all(t > 0 for t in fw), float(sum(fw))), rp)
        for j in range(d):
            m1 = sum(wi * r[j] for wi, r in zip(fw, fX))
            ma = sum(wi * abs(r[j]) for wi, r in zip(fw, fX)) + abs(mu[j])
            if abs(m1 - mu[j]) > tol * ma:
                ctx.spec_fail("qnwnorm", "qnwnorm mean[%d] = %r, requested %r" % (j, float(m1), float(mu[j])), rp)
            for l in range(j, d):
                c = sum(wi * (r[j] - mu[j]) * (r[l] - mu[l]) for wi, r in zip(fw, fX))
                ca = sum(wi * abs(r[j] - mu[j]) * abs(r[l] - mu[l]) for wi, r in zip(fw, fX))
                if abs(c - S[j][l]) > tol * ca:
                    ctx.spec_fail("qnwnorm", "qnwnorm cov[%d,%d] = %r, requested %r" % (j, l, float(c), float(S[j][l])), rp)
        # correspondence: the affine map of the model applied to the code's standard nodes
        z, wz = Q.qnwnorm(narg)
        Z = np.asarray(z).reshape(-1, d)
        if not np.array_equal(wz, w):
            ctx.spec_fail("qnwnorm", "qnwnorm weights depend on mu / sig2", rp)
        L = la.sqrtm(fS) if use_sqrtm else la.cholesky(fS)
        L = np.real(np.asarray(L)).reshape(d, d)
        if d > 1:
            bound = 16 * EPS * max(1, float(np.max(np.abs(Z))) * float(np.max(np.abs(L))) * d + float(np.max(np.abs(fmu))))
            cases.append(Case("C08 affine L=%s mu=%s Z=%s" % (fxm(L), fxs(fmu), fxm(Z)), fxm(X),
                              nontrivial=True, tag="affine", cmp=_mat_env(Fraction(bound))))
        else:
            bound = 16 * EPS * max(1, float(np.max(np.abs(Z))) * abs(float(L[0, 0])) + abs(float(fmu[0])))
            cases.append(Case("C08 affine1 s=%s mu=%s z=%s" % (fx(L[0, 0]), fx(fmu[0]), fxs(Z[:, 0])), fxs(X[:, 0]),
                              nontrivial=True, tag="affine1", cmp=_mat_env(Fraction(bound))))
        # qnwlogn is the exponential image (cholesky path only)
        if not use_sqrtm:
            xl, wl = Q.qnwlogn(narg, fmu if d > 1 else fmu[0], fS if d > 1 else fS[0, 0])
            if not (np.array_equal(np.asarray(xl), np.exp(np.asarray(x))) and np.array_equal(wl, w)):
                ctx.spec_fail("qnwlogn", "qnwlogn is not (exp(qnwnorm nodes), qnwnorm weights)", rp)
            ctx.count("logn:checked")

    # ---- 4b. optional arguments: every given / omitted / None combination, judged against the DOCUMENTED defaults
    # (qnwnorm, qnwlogn: mu = zeros(d), sig2 = eye(d), usesqrtm = False; qnwbeta, qnwgamma: a = b = 1)
    OMIT = object()

    def norm_call(fn, narg, mu_arg, sig_arg, sq_arg):
        args, kw = [narg], {}
        # positional while possible, keywords after the first omitted one
        if mu_arg is not OMIT:
            kw["mu"] = mu_arg
        if sig_arg is not OMIT:
            kw["sig2"] = sig_arg
        if sq_arg is not OMIT:
            kw["usesqrtm"] = sq_arg
        if rng.random() < 0.5 and mu_arg is not OMIT:      # mu positionally
            args.append(kw.pop("mu"))
            if sig_arg is not OMIT and rng.random() < 0.5:
                args.append(kw.pop("sig2"))
        return fn(*args, **kw)

    def mean_cov_oracle(key, what, X, w, mu, S, rp, tol=Fraction(1, 10 ** 9)):
        fw = [F(t) for t in w]
        fX = [[F(t) for t in r] for r in X]
        d = len(mu)
        if any(t <= 0 for t in fw) or abs(sum(fw) - 1) > tol:
            ctx.spec_fail(key, "%s: weights positive=%s, sum=%r" % (what, all(t > 0 for t in fw), float(sum(fw))), rp)
        for j in range(d):
            m1 = sum(wi * r[j] for wi, r in zip(fw, fX))
            ma = sum(wi * abs(r[j]) for wi, r in zip(fw, fX)) + abs(mu[j]) + 1
            if abs(m1 - mu[j]) > tol * ma:
                ctx.spec_fail(key, "%s: mean[%d] = %r, documented / requested mean %r" % (what, j, float(m1), float(mu[j])), rp)
            for l in range(j, d):
                c = sum(wi * (r[j] - mu[j]) * (r[l] - mu[l]) for wi, r in zip(fw, fX))
                ca = sum(wi * abs(r[j] - mu[j]) * abs(r[l] - mu[l]) for wi, r in zip(fw, fX)) + 1
                if abs(c - S[j][l]) > tol * ca:
                    ctx.spec_fail(key, "%s: cov[%d,%d] = %r, documented / requested %r" % (what, j, l, float(c), float(S[j][l])), rp)

    mu_kinds = ["omit", "none", "scalar", "vector"]
    sig_kinds = ["omit", "none", "given", "given-flat"]
    sq_kinds = ["omit", False, True]
    combos = [(d, mk, sk, qk) for d in (1, 2, 3) for mk in mu_kinds for sk in sig_kinds for qk in sq_kinds]
    if not ctx.thorough:
        # quick: every (d, mu kind, sig2 kind) once, usesqrtm cycling
        combos = [(d, mk, sk, sq_kinds[(i + j + d) % 3]) for d in (1, 2, 3)
                  for i, mk in enumerate(mu_kinds) for j, sk in enumerate(sig_kinds)]
    for (d, mk, sk, qk) in combos * ctx.n(1, 3):
        nn = [rng.randint(2, 6 if d < 3 else 4) for _ in range(d)]
        narg = nn[0] if (d == 1 and rng.random() < 0.5) else (np.array(nn) if rng.random() < 0.7 else list(nn))
        mu_req = [dy(rng, -4, 4, 8) for _ in range(d)]
        mu_req = [m if m != 0 else Fraction(3, 2) for m in mu_req]        # a dropped mean must be visible
        A = [[Fraction(rng.randint(-4, 4), 4) for _ in range(d)] for _ in range(d)]
        S_req = [[sum(A[i][k] * A[j][k] for k in range(d)) + (Fraction(rng.randint(2, 8), 4) if i == j else 0)
                  for j in range(d)] for i in range(d)]
        # what is passed, and what the documentation says it means
        if mk == "omit":
            mu_arg, mu_doc = OMIT, [Fraction(0)] * d
        elif mk == "none":
            mu_arg, mu_doc = None, [Fraction(0)] * d
        elif mk == "scalar":
            mu_arg, mu_doc = float(mu_req[0]), [mu_req[0]] * d
        else:
            mu_arg, mu_doc = np.array([float(t) for t in mu_req]), list(mu_req)
            if d == 1 and rng.random() < 0.5:
                mu_arg = [float(mu_req[0])]
        eye = [[Fraction(int(i == j)) for j in range(d)] for i in range(d)]
        if sk == "omit":
            sig_arg, S_doc = OMIT, eye
        elif sk == "none":
            sig_arg, S_doc = None, eye
        elif sk == "given":
            sig_arg, S_doc = np.array([[float(t) for t in r] for r in S_req]), S_req
            if d == 1:
                sig_arg = float(S_req[0][0])
        else:
            sig_arg, S_doc = [float(t) for r in S_req for t in r], S_req
        sq_arg = OMIT if qk == "omit" else qk
        use_sqrtm = (qk is True)
        rp = {"op": "qnwnorm", "n": nn, "mu": mk if mk in ("omit", "none") else [float(t) for t in mu_doc],
              "sig2": sk if sk in ("omit", "none") else [[float(t) for t in r] for r in S_doc],
              "usesqrtm": "omit" if qk == "omit" else qk, "mu_kind": mk, "sig2_kind": sk}
        ctx.count("optargs:mu=%s" % mk)
        ctx.count("optargs:sig2=%s" % sk)
        ctx.count("optargs:usesqrtm=%s" % qk)
        ctx.count("optargs:d=%d" % d)
        try:
            x, w = norm_call(Q.qnwnorm, narg, mu_arg, sig_arg, sq_arg)
        except Exception as e:
            ctx.spec_fail("qnwnorm-optargs", "qnwnorm raised %s: %s" % (type(e).__name__, e), rp)
            continue
        N = int(np.prod(nn))
        if np.size(x) != N * d or np.shape(w) != (N,):
            ctx.spec_fail("qnwnorm-optargs", "qnwnorm output shape %s / %s" % (np.shape(x), np.shape(w)), rp)
            continue
        X = np.asarray(x, dtype=float).reshape(N, d)
        mean_cov_oracle("qnwnorm-optargs", "qnwnorm(mu %s, sig2 %s)" % (mk, sk), X, w, mu_doc, S_doc, rp)
        # correspondence: default handling + affine map of the model on the code's standard nodes
        z, wz = Q.qnwnorm(narg)
        Z = np.asarray(z, dtype=float).reshape(N, d)
        fS = np.array([[float(t) for t in r] for r in S_doc])
        L = np.real(np.asarray(la.sqrtm(fS) if use_sqrtm else la.cholesky(fS))).reshape(d, d)
        if mk in ("omit", "none"):
            mu_wire = "none"
        elif mk == "scalar":
            mu_wire = fx(float(mu_req[0]))
        else:
            mu_wire = fxs([float(t) for t in mu_req])
        bound = 16 * EPS * max(1, float(np.max(np.abs(Z))) * float(np.max(np.abs(L))) * d + max(abs(float(t)) for t in mu_doc))
        cases.append(Case("C08 normnodes d=%d mu=%s L=%s Z=%s" % (d, mu_wire, fxm(L), fxm(Z)), fxm(X),
                          nontrivial=(mk not in ("omit", "none") or sk not in ("omit", "none")), tag="normnodes",
                          cmp=_mat_env(Fraction(bound))))
        sig_wire = "none" if sk in ("omit", "none") else rats([t for r in S_req for t in r])
        cases.append(Case("C08 sig2 d=%d sig2=%s" % (d, sig_wire), ratm(S_doc), nontrivial=False, tag="sig2-default"))
        # qnwlogn (no usesqrtm argument): log of the nodes has the documented mean / covariance
        try:
            xl, wl = norm_call(Q.qnwlogn, narg, mu_arg, sig_arg, OMIT)
        except Exception as e:
            ctx.spec_fail("qnwlogn-optargs", "qnwlogn raised %s: %s" % (type(e).__name__, e), rp)
            continue
        XL = np.asarray(xl, dtype=float).reshape(N, d)
        if not np.all(XL > 0):
            ctx.spec_fail("qnwlogn-optargs", "qnwlogn: a node is not positive", dict(rp, op="qnwlogn"))
        else:
            mean_cov_oracle("qnwlogn-optargs", "log of qnwlogn(mu %s, sig2 %s)" % (mk, sk), np.log(XL), wl, mu_doc, S_doc,
                            dict(rp, op="qnwlogn"), tol=Fraction(1, 10 ** 8))

    # qnwbeta / qnwgamma / qnwcheb defaults (a = b = 1), d = 1, 2, 3, given / omitted, positional / keyword
    for rep in range(ctx.n(18, 90)):
        d = 1 + rep % 3
        nn = [rng.randint(1, 6 if d < 3 else 4) for _ in range(d)]
        narg = nn[0] if d == 1 else np.array(nn)
        which = ["beta", "gamma"][rep % 2]
        give_a, give_b = [(False, False), (True, False), (False, True), (True, True)][(rep // 2) % 4]
        pa = [shape_par(rng) for _ in range(d)]
        pb = [shape_par(rng) if which == "beta" else dy(rng, 0.125, 8, 8) for _ in range(d)]
        scalar_args = rng.random() < 0.4 or d == 1
        if scalar_args:
            pa, pb = [pa[0]] * d, [pb[0]] * d
        kw = {}
        if give_a:
            kw["a"] = float(pa[0]) if scalar_args else np.array([float(t) for t in pa])
        if give_b:
            kw["b"] = float(pb[0]) if scalar_args else np.array([float(t) for t in pb])
        a_doc = pa if give_a else [Fraction(1)] * d
        b_doc = pb if give_b else [Fraction(1)] * d
        rp = {"op": "qnw" + which, "n": nn, "a": [float(t) for t in a_doc] if give_a else "omit",
              "b": [float(t) for t in b_doc] if give_b else "omit"}
        ctx.count("optargs:%s:a=%s,b=%s" % (which, "given" if give_a else "omit", "given" if give_b else "omit"))
        if which == "beta" and any(n_ == 3 and b_ < Fraction(1, 4) and a_ > 6 for n_, a_, b_ in zip(nn, a_doc, b_doc)):
            continue                                   # the known qnwbeta defect has its own corpus and key
        fn = Q.qnwbeta if which == "beta" else Q.qnwgamma
        try:
            if give_a and not give_b and rng.random() < 0.5:
                x, w = fn(narg, kw["a"])
            else:
                x, w = fn(narg, **kw)
        except Exception as e:
            ctx.spec_fail("qnw%s-optargs" % which, "qnw%s raised %s: %s" % (which, type(e).__name__, e), rp)
            continue
        N = int(np.prod(nn))
        X = np.asarray(x, dtype=float).reshape(N, d)
        fw = [F(t) for t in np.atleast_1d(w)]
        tol = TOL[which] * 10
        if abs(sum(fw) - 1) > tol:
            ctx.spec_fail("qnw%s-optargs" % which, "qnw%s: weights sum to %r" % (which, float(sum(fw))), rp)
        for k in range(d):
            mom = mom_beta(a_doc[k], b_doc[k]) if which == "beta" else mom_gamma(a_doc[k], b_doc[k])
            for deg in range(1, min(2 * nn[k] - 1, 3) + 1):
                got = sum(wi * F(t) ** deg for wi, t in zip(fw, X[:, k]))
                if abs(got - mom(deg)) > tol * (abs(mom(deg)) + 1):
                    ctx.spec_fail("qnw%s-optargs" % which, "qnw%s: moment %d of coordinate %d is %r, documented %r"
                                  % (which, deg, k, float(got), float(mom(deg))), rp)
    # qnwcheb(n) with the documented defaults a = b = 1: the degenerate interval [1, 1]
    for n in (1, 2, 5):
        x, w = Q.qnwcheb(n)
        if not (np.all(np.atleast_1d(x) == 1.0) and np.all(np.atleast_1d(w) == 0.0)):
            ctx.spec_fail("qnwcheb-defaults", "qnwcheb(%d) with the default a=b=1 is not the null rule at 1" % n, {"n": n})
    # qnwequi / quadrect defaults: kind="N" / kind="lege"
    for rep in range(ctx.n(4, 20)):
        n = rng.randint(1, 20)
        a0, b0 = float(dy(rng, -4, 0, 8)), float(dy(rng, 1, 4, 8))
        x0, w0 = Q.qnwequi(n, a0, b0)
        x1, w1 = Q.qnwequi(n, a0, b0, kind="N")
        if not (np.array_equal(x0, x1) and np.array_equal(w0, w1)):
            ctx.spec_fail("qnwequi-defaults", "qnwequi without kind differs from kind='N'", {"n": n, "a": a0, "b": b0})
        g = lambda t: 1.0 + t + t ** 3
        q0 = Q.quadrect(g, n + 1, a0, b0)
        q1 = Q.quadrect(g, n + 1, a0, b0, kind="lege")
        exact = (F(b0) - F(a0)) + (F(b0) ** 2 - F(a0) ** 2) / 2 + (F(b0) ** 4 - F(a0) ** 4) / 4
        if q0 != q1 or (n + 1 >= 2 and abs(F(q0) - exact) > Fraction(1, 10 ** 10) * (abs(exact) + 100)):
            ctx.spec_fail("quadrect-defaults", "quadrect without kind: %r, kind='lege': %r, exact integral %r"
                          % (q0, q1, float(exact)), {"n": n + 1, "a": a0, "b": b0})
        ctx.count("optargs:equi/quadrect-defaults")

    # ---- 4c. call HISTORIES: the same arguments through several routines in one process, in random order.
    # Every result is judged by the exact moment oracle when it is returned and again at the end of the
    # history; returned arrays must stay bitwise unchanged, must not share memory with each other or with
    # the inputs, and a caller's in-place modification of a result must not leak into a later call.
    def run_history(hist_id):
        d = 1 if rng.random() < 0.7 else 2
        n0 = rng.randint(2, 7)
        while True:
            ivs = [interval(rng) for _ in range(d)]
            if all(i[1] - i[0] != 1 for i in ivs):
                break
        fa, fb = [float(i[0]) for i in ivs], [float(i[1]) for i in ivs]
        A, B = [F(t) for t in fa], [F(t) for t in fb]
        pa, pb = float(shape_par(rng)), float(shape_par(rng))
        mu1, s1 = float(dy(rng, -3, 3, 8)), float(dy(rng, 0.25, 4, 8))
        if d == 1:
            n_arg = lambda: n0
            a_arg = lambda: fa[0]
            b_arg = lambda: fb[0]
        else:
            n_keep, a_keep, b_keep = np.array([n0] * d), np.array(fa), np.array(fb)
            n_arg = lambda: n_keep
            a_arg = lambda: a_keep
            b_arg = lambda: b_keep
        gm_arrs = [np.array([float(rng.randint(-5, 5)) for _ in range(rng.randint(1, 3))]) for _ in range(rng.randint(2, 3))]
        inputs = list(gm_arrs) + ([] if d == 1 else [n_keep, a_keep, b_keep])
        # the beta / gamma parameters as kept 0-d arrays in a third of the histories (must stay untouched)
        pa_in, pb_in = pa, pb
        if d == 1 and hist_id % 3 == 0:
            pa_in, pb_in = np.array(pa), np.array(pb)
            inputs += [pa_in, pb_in]
            ctx.count("history:0-d beta/gamma parameters")
        input_bits = [t_.tobytes() for t_ in inputs]
        vol = Fraction(1)
        for k in range(d):
            vol *= B[k] - A[k]

        def judge(kind, out):
            """exact oracle for one result; returns None or a description of what is wrong"""
            if kind.startswith("quadrect"):
                # integrand 1 + x_0: integral = vol * (1 + midpoint_0)
                exact = vol * (1 + (A[0] + B[0]) / 2)
                if abs(F(out) - exact) > Fraction(1, 10 ** 10) * (abs(exact) + abs(vol)):
                    return "%s(1 + x0) = %r, exact integral %r" % (kind, float(out), float(exact))
                return None
            if kind == "gridmake":
                want = [list(reversed(t_)) for t_ in itertools.product(*reversed([v.tolist() for v in gm_arrs]))]
                return None if np.asarray(out[0]).tolist() == want else "gridmake is not the product grid, first index fastest"
            if kind == "ckron":
                want = [math.prod(t_) for t_ in itertools.product(*[v.tolist() for v in gm_arrs])]
                return None if np.asarray(out[0]).tolist() == want else "ckron is not the Kronecker product"
            x, w = out
            x = np.asarray(x, dtype=float)
            w = np.atleast_1d(np.asarray(w, dtype=float))
            X = x.reshape(len(w), -1)
            tot = sum(F(t) for t in w)
            if kind.startswith("equi"):
                if any(abs(F(t) - vol / len(w)) > 4 * EPS * vol / len(w) for t in w):
                    return "%s: the weights are not volume/n" % kind
                if not all(A[j] <= F(X[i, j]) <= B[j] for i in range(len(w)) for j in range(d)):
                    return "%s: a node lies outside the box" % kind
                return None
            if kind in ("lege", "trap", "simp", "cheb"):
                mass, rule = vol, kind
            else:
                mass, rule = Fraction(1), {"unif": "unif", "beta": "beta", "gamma": "gamma"}.get(kind, "norm")
            tol = TOL[rule] * 10
            if abs(tot - mass) > tol * abs(mass):
                return "%s: the weights sum to %r, total mass is %r" % (kind, float(tot), float(mass))
            if not np.all(w > 0):
                return "%s: a weight is not positive" % kind
            # first moment of coordinate 0
            m1 = sum(F(wi) * F(xi) for wi, xi in zip(w, X[:, 0]))
            if kind in ("lege", "trap", "simp", "cheb", "unif"):
                want = mass * (A[0] + B[0]) / 2
                scale = abs(mass) * (abs(A[0]) + abs(B[0]) + 1)
            elif kind == "beta":
                want, scale = Fraction(pa) / (Fraction(pa) + Fraction(pb)), 1
            elif kind == "gamma":
                want, scale = Fraction(pa) * Fraction(pb), Fraction(pa) * Fraction(pb) + 1
            elif kind == "norm0":
                want, scale = Fraction(0), Fraction(n0)
            elif kind == "norm":
                want, scale = Fraction(mu1), abs(Fraction(mu1)) + 4
            else:    # logn: judge the logarithm of the nodes
                m1 = sum(F(wi) * F(math.log(xi)) for wi, xi in zip(w, X[:, 0]))
                want, scale = Fraction(mu1), abs(Fraction(mu1)) + 4
            if abs(m1 - want) > max(tol, Fraction(1, 10 ** 9)) * scale:
                return "%s: first moment %r, exact %r" % (kind, float(m1), float(want))
            if d == 1 and kind in ("lege", "unif") and n0 >= 2:
                m2 = sum(F(wi) * F(xi) ** 2 for wi, xi in zip(w, X[:, 0]))
                want2 = mass * (B[0] ** 3 - A[0] ** 3) / 3 / (B[0] - A[0])
                if abs(m2 - want2) > tol * (abs(want2) + 1):
                    return "%s: second moment %r, exact %r" % (kind, float(m2), float(want2))
            return None

        g = lambda xv: 1.0 + np.asarray(xv, dtype=float).reshape(-1, d)[:, 0]
        calls = {
            "unif": lambda: Q.qnwunif(n_arg(), a_arg(), b_arg()),
            "lege": lambda: Q.qnwlege(n_arg(), a_arg(), b_arg()),
            "trap": lambda: Q.qnwtrap(n_arg(), a_arg(), b_arg()),
            "simp": lambda: Q.qnwsimp(n_arg(), a_arg(), b_arg()),
            "cheb": lambda: Q.qnwcheb(n_arg(), a_arg(), b_arg()),
            "quadrect-lege": lambda: Q.quadrect(g, n_arg(), a_arg(), b_arg(), "lege"),
            "quadrect-trap": lambda: Q.quadrect(g, n_arg(), a_arg(), b_arg(), "trap"),
            "quadrect-default": lambda: Q.quadrect(g, n_arg(), a_arg(), b_arg()),
            "equi-N": lambda: Q.qnwequi(n0 + 3, a_arg(), b_arg(), "N"),
            "equi-W": lambda: Q.qnwequi(n0 + 3, a_arg(), b_arg(), "W"),
            "equi-H": lambda: Q.qnwequi(n0 + 3, a_arg(), b_arg(), "H"),
            "gridmake": lambda: (gridmake(*gm_arrs),),
            "ckron": lambda: (ckron(*gm_arrs),),
        }
        if d == 1:
            calls.update({
                "beta": lambda: Q.qnwbeta(n0, pa_in, pb_in),
                "gamma": lambda: Q.qnwgamma(n0, pa_in, pb_in),
                "norm0": lambda: Q.qnwnorm(n0),
                "norm": lambda: Q.qnwnorm(n0, mu1, s1),
                "logn": lambda: Q.qnwlogn(n0, mu1, s1),
            })
            if n0 == 3 and pb < 0.25 and pa > 6:
                calls.pop("beta")
        names = sorted(calls)
        seq = [rng.choice(names) for _ in range(rng.randint(6, 12))]
        # make sure the interesting pairs occur in both orders over the histories
        lead = [("unif", "lege"), ("lege", "unif"), ("unif", "quadrect-lege"), ("trap", "quadrect-trap"),
                ("lege", "lege"), ("unif", "unif")][hist_id % 6]
        seq = list(lead) + seq
        kept = []          # (step, kind, array, pristine bytes, mutated?)
        history = []

        def replay(step, extra=None):
            r = {"op": "history", "d": d, "n": n0, "a": fa if d > 1 else fa[0], "b": fb if d > 1 else fb[0],
                 "beta_gamma_params": [pa, pb], "mu_sig2": [mu1, s1], "calls": list(history), "failing_step": step}
            if extra:
                r.update(extra)
            return r

        first_result = {}
        for step, kind in enumerate(seq):
            mutate = rng.random() < 0.25 and not kind.startswith("quadrect")
            history.append(kind + ("  (then the caller does x += 1; w *= 2 on the returned arrays)" if mutate else ""))
            out = calls[kind]()
            ctx.count("history:call=" + kind)
            why = judge(kind, out)
            if why:
                ctx.spec_fail("history", "after the calls %s: %s" % (history[:-1], why), replay(step))
                return
            # inputs untouched; everything returned earlier still holds the bits it had when it was returned
            for t_, b0 in zip(inputs, input_bits):
                if t_.tobytes() != b0:
                    ctx.spec_fail("history", "%s modified one of its input arrays (history %s)" % (kind, history), replay(step))
                    return
            for (st0, k0, arr0, pristine, mutated) in kept:
                if not mutated and arr0.tobytes() != pristine:
                    ctx.spec_fail("history", "the array returned by %s at step %d was modified by the later call %s (history %s)"
                                  % (k0, st0, kind, history), replay(step, {"modified_result_of_step": st0}))
                    return
            if kind.startswith("quadrect"):
                continue
            arrs = [np.asarray(t) for t in out]
            # no aliasing with the inputs or with anything returned earlier
            for ai, arr in enumerate(arrs):
                if arr.ndim == 0:
                    continue
                for inp in inputs:
                    if np.shares_memory(arr, inp):
                        ctx.spec_fail("history-alias", "%s returns an array sharing memory with its input" % kind, replay(step))
                        return
                for (st0, k0, arr0, _, _) in kept:
                    if np.shares_memory(arr, arr0):
                        ctx.spec_fail("history-alias", "%s (step %d) returns an array sharing memory with the one "
                                      "returned by %s (step %d)" % (kind, step, k0, st0), replay(step, {"shares_with_step": st0}))
                        return
                if ai == 1 and np.shares_memory(arrs[0], arrs[1]):
                    ctx.spec_fail("history-alias", "%s: nodes and weights share memory" % kind, replay(step))
                    return
            # a later identical call returns the same bits as the first one
            sig = (kind,)
            bits = tuple(a_.tobytes() for a_ in arrs)
            if sig in first_result and first_result[sig] != bits:
                ctx.spec_fail("history", "%s returns different values than its first call in the same process, after %s"
                              % (kind, history[:-1]), replay(step))
                return
            first_result.setdefault(sig, bits)
            for arr in arrs:
                if arr.ndim:
                    kept.append((step, kind, arr, arr.tobytes(), mutate))
            if mutate:
                ctx.count("history:caller-mutation")
                for ai, arr in enumerate(arrs):
                    if arr.ndim and arr.flags.writeable:
                        if ai == 0:
                            arr += 1.0
                        else:
                            arr *= 2.0
        # at the end: nothing returned earlier was changed behind the caller's back
        for (st0, k0, arr0, pristine, mutated) in kept:
            if not mutated and arr0.tobytes() != pristine:
                ctx.spec_fail("history", "the array returned by %s at step %d was modified by a later call (history %s)"
                              % (k0, st0, history), replay(st0))
                return
        ctx.count("history:completed")
        ctx.count("history:d=%d" % d)

    for hist_id in range(ctx.n(24, 200)):
        run_history(hist_id)

    # ---- 4d. ARGUMENT FORMS: the same call with its arguments in other legal forms must return the same rule,
    # must leave its inputs bitwise unchanged and must not return memory shared with them.  Forms that reach the
    # jitted kernels with a new scalar type cost a compilation each, so only a few of those are drawn per run.
    def unlisted(key, what, rp):
        """a genuine but unlisted observation on the clean code: counted, not a violation, until it is listed"""
        if key in ctx.known:
            ctx.spec_fail(key, what, rp)
        else:
            ctx.count("unlisted-finding:" + key)
            ctx.extra.setdefault("unlisted_findings", {}).setdefault(key, {"what": what, "replay": rp})

    def as_strided(v):
        big = np.zeros(2 * len(v), dtype=v.dtype)
        big[::2] = v
        return big[::2]

    def as_reversed(v):
        return v[::-1].copy()[::-1]

    plain_vec = [("list", lambda v: v.tolist()), ("tuple", lambda v: tuple(v.tolist())), ("strided-view", as_strided),
                 ("reversed-view", as_reversed), ("ndarray", lambda v: v.copy())]
    exotic_int = [np.int8, np.int16, np.int32, np.uint8, np.uint16, np.uint32, np.uint64, np.intp]
    form_fns = {"lege": Q.qnwlege, "trap": Q.qnwtrap, "simp": Q.qnwsimp, "cheb": Q.qnwcheb, "unif": Q.qnwunif,
                "beta": Q.qnwbeta, "gamma": Q.qnwgamma}

    def snapshot(objs):
        return [(o, o.tobytes()) for o in objs if isinstance(o, np.ndarray)]

    def check_call(tag, label, thunk, inputs, ref, rp, exotic):
        """run one form; returns the result or None"""
        snap = snapshot(inputs)
        try:
            out = thunk()
        except Exception as e:
            if exotic:
                ctx.count("argforms:rejected-loudly:%s:%s" % (label, type(e).__name__))
                return None
            ctx.spec_fail("argforms", "%s with %s raised %s: %s" % (tag, label, type(e).__name__, str(e)[:200]), rp)
            return None
        ctx.count("argforms:accepted:" + label)
        for o, b0 in snap:
            if o.tobytes() != b0:
                # (qnwgamma used to decrement a 0-d array shape in place; repaired in /repo b8f7cdd — its own key on regression)
                key = "qnwgamma-0d-shape-decremented" if (tag == "gamma" and o.ndim == 0) else "argforms-input-modified"
                ctx.spec_fail(key, "%s with %s modified its input array" % (tag, label), rp)
        outs = [np.asarray(t_) for t_ in (out if isinstance(out, tuple) else (out,))]
        for arr in outs:
            for o, _ in snap:
                if arr.ndim and np.shares_memory(arr, o):
                    ctx.spec_fail("argforms-alias", "%s with %s returns memory shared with an input" % (tag, label), rp)
        if ref is not None:
            refs = [np.asarray(t_) for t_ in (ref if isinstance(ref, tuple) else (ref,))]
            for arr, r0 in zip(outs, refs):
                # (float32 inputs are factorised / evaluated in single precision by NumPy / LAPACK: 1e-5)
                tol_f = 1e-5 if "float32" in label else 1e-12
                same = arr.shape == r0.shape and (np.array_equal(arr, r0) if not exotic else
                                                  np.allclose(arr, r0, rtol=tol_f, atol=tol_f))
                if not same:
                    ctx.spec_fail("argforms", "%s with %s differs from the call with plain int64/float64 arguments "
                                              "(shape %s vs %s)" % (tag, label, arr.shape, r0.shape), rp)
                    break
        return out

    n_exotic = ctx.n(3, 24)
    for rep in range(ctx.n(14, 70)):
        kind = sorted(form_fns)[rep % 7]
        fn = form_fns[kind]
        d = 1 + rep % 3
        lo = 2 if kind in ("trap", "simp") else 1
        nn = np.array([rng.randint(lo, 5) for _ in range(d)])
        if kind in ("beta", "gamma"):
            aa = np.array([float(dy(rng, 0.5, 6, 4)) for _ in range(d)])
            bb = np.array([float(dy(rng, 0.5, 6, 4)) for _ in range(d)])
        else:
            # small integers / quarter-integers: exactly representable in float32 and, for the int forms, integral
            aa = np.array([float(rng.randint(-4, 2)) for _ in range(d)])
            bb = aa + np.array([float(rng.randint(1, 4)) for _ in range(d)])
        if kind == "beta" and any(nn == 3):
            nn[nn == 3] = 4
        rp0 = {"op": "argforms:" + kind, "n": nn.tolist(), "a": aa.tolist(), "b": bb.tolist()}
        if d == 1:
            ref = fn(int(nn[0]), float(aa[0]), float(bb[0]))
            # scalar forms that keep the scalar types: NumPy int64 / float64 scalars, length-1 containers for n
            for label, nf, af, bf in [("np.int64/np.float64 scalars", np.int64(nn[0]), np.float64(aa[0]), np.float64(bb[0])),
                                      ("n as length-1 list", [int(nn[0])], float(aa[0]), float(bb[0])),
                                      ("n as length-1 tuple", (int(nn[0]),), float(aa[0]), float(bb[0])),
                                      ("n as length-1 ndarray", np.array([int(nn[0])]), float(aa[0]), float(bb[0])),
                                      ("keywords a=, b=", int(nn[0]), None, None)]:
                if af is None:
                    check_call(kind, label, lambda: fn(int(nn[0]), a=float(aa[0]), b=float(bb[0])), [], ref, dict(rp0, form=label), False)
                else:
                    check_call(kind, label, lambda: fn(nf, af, bf), [nf, af, bf], ref, dict(rp0, form=label), False)
        else:
            ref = fn(nn.copy(), aa.copy(), bb.copy())
            for label, tf in plain_vec:
                which = rng.randrange(4)
                nf = tf(nn) if which in (0, 3) else nn.copy()
                af = tf(aa) if which in (1, 3) else aa.copy()
                bf = tf(bb) if which in (2, 3) else bb.copy()
                check_call(kind, "%s (%s)" % (label, ["n", "a", "b", "n,a,b"][which]), lambda: fn(nf, af, bf), [nf, af, bf], ref,
                           dict(rp0, form=label, applied_to=["n", "a", "b", "all"][which]), False)
        # forms that change the scalar type seen by the kernels (a compilation each): a few per run
        if n_exotic > 0:
            n_exotic -= 1
            choice = rng.randrange(5)
            integral_ab = kind not in ("beta", "gamma")
            if choice == 0:
                ty = rng.choice(exotic_int)
                label = "n as " + ty.__name__
                nf, af, bf = (ty(nn[0]), float(aa[0]), float(bb[0])) if d == 1 else (nn.astype(ty), aa.copy(), bb.copy())
            elif choice == 1:
                label = "a, b as float32"
                nf = int(nn[0]) if d == 1 else nn.copy()
                af, bf = (np.float32(aa[0]), np.float32(bb[0])) if d == 1 else (aa.astype(np.float32), bb.astype(np.float32))
            elif choice == 2 and integral_ab:
                label = "a, b as Python int / int64 array"
                nf = int(nn[0]) if d == 1 else nn.copy()
                af, bf = (int(aa[0]), int(bb[0])) if d == 1 else (aa.astype(np.int64), bb.astype(np.int64))
            elif choice == 3:
                label = "n, a, b as 0-d arrays"
                nf, af, bf = np.array(int(nn[0])), np.array(float(aa[0])), np.array(float(bb[0]))
                if d > 1:
                    nf, af, bf = nn.copy(), np.array(float(aa[0])), np.array(float(bb[0]))
                    aa_, bb_ = np.full(d, aa[0]), np.full(d, bb[0])
                    ref = fn(nn.copy(), aa_, bb_)
            else:
                label = "n as float (documented: array_like(float))"
                nf = float(nn[0]) if d == 1 else nn.astype(float)
                af, bf = (float(aa[0]), float(bb[0])) if d == 1 else (aa.copy(), bb.copy())
            out = check_call(kind, label, lambda: fn(nf, af, bf), [nf, af, bf], ref, dict(rp0, form=label), True)
            if out is None and label.startswith("n as float"):
                unlisted("float-n-rejected", "qnw%s: a float n (documented as array_like(float)) raises a numba TypingError "
                         "instead of being accepted or rejected with a clear message" % kind, dict(rp0, form=label))
            if out is None and label == "n as uint64" and kind == "simp":
                unlisted("qnwsimp-uint64-n", "qnwsimp: an unsigned 64-bit n raises a numba TypingError (n % 2, n += 1 on uint64)",
                         dict(rp0, form=label))

    # 0-d array parameters of qnwgamma / qnwbeta: a history of two identical calls, inputs untouched, exact moments
    for which, fn0, p1, p2 in [("gamma", Q.qnwgamma, 3.0, 5.0), ("beta", Q.qnwbeta, 2.5, 1.5)]:
        a0d, b0d = np.array(p1), np.array(p2)
        rp0 = {"op": "qnw" + which, "n": 4, "a": "np.array(%r)" % p1, "b": "np.array(%r)" % p2, "calls": 2}
        ref0 = fn0(4, p1, p2)
        for call in (1, 2):
            g_ = check_call(which, "n, a, b as 0-d arrays", lambda: fn0(4, a0d, b0d), [a0d, b0d], ref0, dict(rp0, call=call), True)
            if g_ is not None:
                mom0 = mom_gamma(Fraction(p1), Fraction(p2)) if which == "gamma" else mom_beta(Fraction(p1), Fraction(p2))
                spec_moments(which, "qnwgamma-0d-shape-decremented" if which == "gamma" else "argforms", g_[0], g_[1], mom0, 7,
                             dict(rp0, call=call), lo=0, strict=True)
        ctx.count("argforms:0-d parameters, two identical calls:" + which)
    # a vector n of a narrow integer dtype whose product does not fit that dtype (qnwequi uses prod(n) points)
    for ty, vec in [(np.int8, [20, 20]), (np.uint8, [16, 16]), (np.int16, [200, 200])][:ctx.n(2, 3)]:
        nvec = np.array(vec, dtype=ty)
        av, bv = np.array([0.0, 1.0]), np.array([2.0, 4.0])
        ref = Q.qnwequi(np.array(vec, dtype=np.int64), av, bv)
        check_call("qnwequi", "vector n as %s with prod(n) beyond the dtype" % ty.__name__, lambda: Q.qnwequi(nvec, av, bv), [nvec, av, bv],
                   ref, {"op": "qnwequi", "n": vec, "dtype": ty.__name__, "a": av.tolist(), "b": bv.tolist()}, False)

    # qnwnorm / qnwlogn forms of n, mu, sig2 (no new kernel types: _qnwnorm1 only sees n)
    for rep in range(ctx.n(6, 30)):
        d = 2 + rep % 2
        nn = np.array([rng.randint(2, 4) for _ in range(d)])
        muv = np.array([float(rng.randint(-3, 3)) for _ in range(d)])
        Ai = [[rng.randint(-1, 1) for _ in range(d)] for _ in range(d)]
        Sv = np.array([[float(sum(Ai[i][k] * Ai[j][k] for k in range(d)) + (2 if i == j else 0)) for j in range(d)] for i in range(d)])
        sq = bool(rep % 2)
        ref = Q.qnwnorm(nn.copy(), muv.copy(), Sv.copy(), usesqrtm=sq)
        refl = Q.qnwlogn(nn.copy(), muv.copy(), Sv.copy())
        rp0 = {"op": "argforms:qnwnorm", "n": nn.tolist(), "mu": muv.tolist(), "sig2": Sv.tolist(), "usesqrtm": sq}
        sig_forms = [("nested list", Sv.tolist()), ("nested tuple", tuple(map(tuple, Sv.tolist()))), ("F order", np.asfortranarray(Sv)),
                     ("transposed view", Sv.T), ("flat list", Sv.ravel().tolist()), ("int64 matrix", Sv.astype(np.int64)),
                     ("float32 matrix", Sv.astype(np.float32)), ("strided view", np.kron(Sv, np.ones((2, 2)))[::2, ::2])]
        mu_forms = [("list", muv.tolist()), ("tuple", tuple(muv.tolist())), ("int64", muv.astype(np.int64)), ("float32", muv.astype(np.float32)),
                    ("strided-view", as_strided(muv)), ("reversed-view", as_reversed(muv))]
        n_forms = [(lab, tf(nn)) for lab, tf in plain_vec] + [("n as " + ty.__name__, nn.astype(ty)) for ty in rng.sample(exotic_int, 2)]
        picks = [("sig2 " + l, nn.copy(), muv.copy(), f_) for l, f_ in rng.sample(sig_forms, 3)] + \
                [("mu " + l, nn.copy(), f_, Sv.copy()) for l, f_ in rng.sample(mu_forms, 2)] + \
                [("n " + l, f_, muv.copy(), Sv.copy()) for l, f_ in rng.sample(n_forms, 2)]
        for label, nf, mf, sf in picks:
            ex = "float32" in label or "int64" in label or label.startswith("n n as")
            check_call("qnwnorm", label, lambda: Q.qnwnorm(nf, mf, sf, usesqrtm=sq), [nf, mf, sf], ref, dict(rp0, form=label), ex)
            check_call("qnwlogn", label, lambda: Q.qnwlogn(nf, mf, sf), [nf, mf, sf], refl, dict(rp0, op="argforms:qnwlogn", form=label), ex)

    # qnwequi: n / a / b forms, kind in either case, random_state forms, a caller-supplied equidist_pp
    for rep in range(ctx.n(6, 30)):
        d = 1 + rep % 3
        nv = rng.randint(1, 25)
        aa = np.array([float(rng.randint(-4, 2)) for _ in range(d)])
        bb = aa + np.array([float(rng.randint(1, 4)) for _ in range(d)])
        kind = "NWH"[rep % 3]
        ref = Q.qnwequi(nv, aa.copy(), bb.copy(), kind)
        rp0 = {"op": "argforms:qnwequi", "n": nv, "a": aa.tolist(), "b": bb.tolist(), "kind": kind}
        for label, tf in rng.sample(plain_vec, 3):
            af, bf = tf(aa), tf(bb)
            check_call("qnwequi", "a, b as " + label, lambda: Q.qnwequi(nv, af, bf, kind), [af, bf], ref, dict(rp0, form=label), False)
        check_call("qnwequi", "lower-case kind", lambda: Q.qnwequi(nv, aa, bb, kind.lower()), [aa, bb], ref, dict(rp0, form="lower-case kind"), False)
        ty = rng.choice(exotic_int)
        check_call("qnwequi", "n as " + ty.__name__, lambda: Q.qnwequi(ty(nv), aa, bb, kind), [aa, bb], ref, dict(rp0, form=ty.__name__), False)
        check_call("qnwequi", "n as length-1 list", lambda: Q.qnwequi([nv], aa, bb, kind), [aa, bb], ref, dict(rp0, form="[n]"), False)
        if kind in "WH":
            import sympy as sym
            pp = np.sqrt(np.array(list(sym.primerange(0, 60)), dtype=float))
            check_call("qnwequi", "explicit equidist_pp", lambda: Q.qnwequi(nv, aa, bb, kind, equidist_pp=pp), [aa, bb, pp], ref,
                       dict(rp0, form="equidist_pp given"), False)
        seed = rng.randrange(2 ** 31)
        r_ref = Q.qnwequi(nv, aa, bb, "R", random_state=seed)
        check_call("qnwequi", "random_state=RandomState(seed)", lambda: Q.qnwequi(nv, aa, bb, "r", random_state=np.random.RandomState(seed)),
                   [aa, bb], r_ref, dict(rp0, kind="R", seed=seed), False)
        g_out = check_call("qnwequi", "random_state=Generator", lambda: Q.qnwequi(nv, aa, bb, "R", random_state=np.random.default_rng(seed)),
                           [aa, bb], None, dict(rp0, kind="R", seed=seed), False)
        if g_out is not None:
            Xg = np.asarray(g_out[0]).reshape(nv, d)
            if not all(aa[j] <= Xg[i, j] <= bb[j] for i in range(nv) for j in range(d)) or not np.array_equal(g_out[1], r_ref[1]):
                ctx.spec_fail("argforms", "qnwequi(kind R, Generator): node outside the box or weights differ", dict(rp0, kind="R", seed=seed))
        out = check_call("qnwequi", "n as float", lambda: Q.qnwequi(float(nv), aa, bb, kind), [aa, bb], ref, dict(rp0, form="float n"), True)
        if out is None:
            unlisted("float-n-rejected", "a float n (documented as array_like(float)) is rejected", dict(rp0, form="float n"))

    # quadrect: extra positional / keyword arguments reach f; kind in either case
    for rep in range(ctx.n(4, 16)):
        nq = rng.randint(2, 6)
        a0, b0 = float(rng.randint(-3, 0)), float(rng.randint(1, 4))
        kind = ["lege", "trap", "simp", "cheb"][rep % 4]
        h = lambda xv, c=0.0, k=1.0: c + k * np.asarray(xv, dtype=float)
        ref = Q.quadrect(lambda xv: 1.5 + 2.0 * np.asarray(xv, dtype=float), nq, a0, b0, kind)
        rp0 = {"op": "argforms:quadrect", "n": nq, "a": a0, "b": b0, "kind": kind}
        check_call("quadrect", "extra positional args for f", lambda: Q.quadrect(h, nq, a0, b0, kind, None, 1.5, 2.0), [], ref, rp0, False)
        check_call("quadrect", "extra keyword args for f", lambda: Q.quadrect(h, nq, a0, b0, kind, c=1.5, k=2.0), [], ref, rp0, False)
        check_call("quadrect", "upper-case kind", lambda: Q.quadrect(h, nq, a0, b0, kind.upper(), c=1.5, k=2.0), [], ref, rp0, False)
        exact = (F(b0) - F(a0)) * Fraction(3, 2) + (F(b0) ** 2 - F(a0) ** 2)
        if nq >= 2 and abs(F(ref) - exact) > Fraction(1, 10 ** 10) * (abs(exact) + 10):
            ctx.spec_fail("argforms", "quadrect(1.5 + 2x, kind %s) = %r, exact %r" % (kind, float(ref), float(exact)), rp0)

    # gridmake / ckron: dtypes and views of the arrays, inputs untouched, output owns its memory
    for rep in range(ctx.n(6, 30)):
        d = rng.randint(2, 4)
        arrs = [np.array([float(rng.randint(-9, 9)) for _ in range(rng.randint(1, 4))]) for _ in range(d)]
        refg, refk = gridmake(*[v.copy() for v in arrs]), ckron(*[v.copy() for v in arrs])
        forms = []
        for v in arrs:
            c = rng.randrange(5)
            forms.append([v.astype(np.int64), v.astype(np.float32), as_strided(v), as_reversed(v), v.copy()][c])
        rp0 = {"op": "argforms:gridmake/ckron", "arrays": [v.tolist() for v in arrs], "dtypes": [str(v.dtype) for v in forms]}
        check_call("gridmake", "dtype / view mix", lambda: gridmake(*forms), forms, refg, rp0, True)
        check_call("ckron", "dtype / view mix", lambda: ckron(*forms), forms, refk, rp0, True)
    x1 = np.arange(3.0)
    if np.shares_memory(ckron(x1), x1):
        ctx.count("argforms:ckron-of-one-array-is-that-array (reduce; not reachable from the qnw* routines)")

    # boundary values: an explicit zero tolerance for qnwgamma either converges to a rule that passes the
    # moment oracle or fails loudly
    for rep in range(ctx.n(2, 8)):
        n = rng.randint(1, 8)
        pa_, ps_ = shape_par(rng), dy(rng, 0.125, 8, 8)
        rp0 = {"op": "qnwgamma", "n": n, "a": float(pa_), "b": float(ps_), "tol": 0.0}
        try:
            x, w = Q.qnwgamma(n, float(pa_), float(ps_), 0.0)
            spec_moments("gamma", "qnwgamma-tol0", x, w, mom_gamma(pa_, ps_), 2 * n - 1, rp0, lo=0, strict=True)
            ctx.count("boundary:qnwgamma-tol=0:converged")
        except ValueError:
            ctx.count("boundary:qnwgamma-tol=0:ValueError")

    # ---- 4e. _make_multidim_func argument handling, observed with a recording stand-in for the 1-d routine:
    # which path is taken, which (n_i, parameters_i) each dimension is called with, which error is raised
    def md_stub_factory(log):
        def stub(n_, *ps):
            log.append((int(n_), tuple(Fraction(float(np.asarray(t_).reshape(-1)[0])) for t_ in ps)))
            return np.arange(int(n_), dtype=float) + 10.0 * len(log), np.ones(int(n_))
        return stub

    for rep in range(ctx.n(40, 300)):
        shape_kind = rep % 8
        dlen = [1, 2, 3, 2, 3, 1, 0, 2][shape_kind]
        nsv = [rng.randint(1, 4) for _ in range(dlen)]
        argv = []
        for j in range(2):
            if shape_kind in (0, 1, 2):                       # well formed: size 1 or d
                sz = rng.choice([1, dlen])
            elif shape_kind in (3, 4):                        # all vectors of size d
                sz = dlen
            elif shape_kind == 5:                             # n of size 1, a vector argument
                sz = rng.choice([1, 2, 3])
            elif shape_kind == 6:                             # empty n
                sz = rng.choice([0, 1, 2])
            else:                                             # malformed: wrong length (shorter, longer or empty)
                sz = rng.choice([0, 1, 2, 3, 4])
            argv.append([Fraction(rng.randint(-9, 9)) for _ in range(sz)])
        if all(len(v) == 0 for v in argv):
            argv[0] = [Fraction(1)]
        log = []
        n_in = np.array(nsv, dtype=np.int64)
        a_in = [np.array([float(t_) for t_ in v]) for v in argv]
        # scalars instead of length-1 arrays now and then (same sizes for the routine)
        a_pass = [(float(v[0]) if (len(v) == 1 and rng.random() < 0.5) else arr) for v, arr in zip(argv, a_in)]
        n_pass = int(nsv[0]) if (dlen == 1 and rng.random() < 0.5) else n_in
        try:
            out = Q._make_multidim_func(md_stub_factory(log), n_pass, *a_pass)
            if dlen == 1 and all(len(v) == 1 for v in argv):
                got = "1d %d:%s" % (log[0][0], rats(log[0][1]))
            else:
                got = "multi " + ";".join("%d:%s" % (c[0], rats(c[1])) for c in log)
                # the result is the tensor rule of the stand-in's outputs
                if np.asarray(out[0]).shape != (int(np.prod(nsv)), dlen) or np.asarray(out[1]).shape != (int(np.prod(nsv)),):
                    ctx.spec_fail("multidim-args", "_make_multidim_func output shape %s / %s for n=%s"
                                  % (np.shape(out[0]), np.shape(out[1]), nsv), {"n": nsv, "args": [[float(t_) for t_ in v] for v in argv]})
        except (IndexError, TypeError, ValueError) as e:
            got = "ERR:" + type(e).__name__
        ctx.count("mdplan:" + got.split(" ")[0].split(":")[0] + (":" + got.split(":")[1] if got.startswith("ERR") else ""))
        # spec (model independent): on well-formed input every dimension is called once with its own parameters
        wellformed = dlen >= 2 and all(len(v) in (1, dlen) for v in argv)
        if wellformed:
            want = [(nsv[i], tuple((v[0] if len(v) == 1 else v[i]) for v in argv)) for i in range(dlen)]
            if log != want:
                ctx.spec_fail("multidim-args", "_make_multidim_func called the 1-d routine with %s, expected %s" % (log, want),
                              {"n": nsv, "args": [[float(t_) for t_ in v] for v in argv]})
        cases.append(Case("C08 mdplan n=%s args=%s" % (ints(nsv), ratm(argv)), got, nontrivial=wellformed, tag="mdplan"))

    # ---- 5. qnwequi, quadrect ---------------------------------------------------------------------
    class Rs(np.random.RandomState):
        pass
    for rep in range(ctx.n(24, 300)):
        d = rng.randint(1, 3)
        kind = "NWHR"[rep % 4]
        n = rng.randint(1, 40)
        aa = [float(dy(rng, -4, 4, 8)) for _ in range(d)]
        bb = [a + float(dy(rng, 0.125, 4, 8)) for a in aa]
        seed = rng.randrange(2 ** 31)
        n_arg = n
        if rep % 5 == 4:                      # n given per dimension: the routine uses prod(n) points
            n_arg = [rng.randint(1, 4) for _ in range(d)]
            n = int(np.prod(n_arg))
            ctx.count("equi:n-as-array")
        a_arg, b_arg = np.array(aa), np.array(bb)
        if rep % 5 == 4 and rep % 2 == 0 and d > 1:      # scalar bounds broadcast against the vector n
            aa, bb = [aa[0]] * d, [bb[0]] * d
            a_arg, b_arg = aa[0], bb[0]
            ctx.count("equi:scalar-bounds-vector-n")
        x, w = Q.qnwequi(n_arg, a_arg, b_arg, kind=kind, random_state=Rs(seed))
        rp = {"op": "qnwequi", "n": n_arg, "a": a_arg if np.isscalar(a_arg) else aa, "b": b_arg if np.isscalar(b_arg) else bb,
              "kind": kind, "seed": seed}
        X = np.asarray(x).reshape(n, d) if np.size(x) == n * d else None
        vol = Fraction(1)
        for a, b in zip(aa, bb):
            vol *= F(b) - F(a)
        ctx.count("equi:kind=" + kind)
        if X is None or w.shape != (n,):
            ctx.spec_fail("qnwequi", "qnwequi output shape", rp)
            continue
        if any(abs(F(t) - vol / n) > 2 * EPS * vol / n for t in w):
            ctx.spec_fail("qnwequi", "qnwequi weights are not volume/n", rp)
        if not all(F(aa[j]) <= F(X[i, j]) <= F(bb[j]) for i in range(n) for j in range(d)):
            ctx.spec_fail("qnwequi", "qnwequi node outside the box", rp)
        cases.append(Case("C08 equiw n=%d a=%s b=%s" % (n, fxs(aa), fxs(bb)), fxs(w), nontrivial=(n >= 2), tag="equiw"))
        if kind in "NWH":
            # the fractional parts exactly as the routine forms them; the model maps them into the box
            ii = np.arange(1, n + 1, dtype=np.int64)
            if kind == "N":
                jj = 2.0 ** (np.arange(1, d + 1) / (d + 1))
                T_ = np.outer(ii, jj)
            else:
                import sympy as sym
                jj = np.sqrt(np.array(list(sym.primerange(0, 7920))))[:d]
                T_ = np.outer(ii, jj) if kind == "W" else np.outer(ii * (ii + 1) / 2, jj)
            T_ = T_ - Q.fix(T_)
            cases.append(Case("C08 equinodes a=%s b=%s T=%s" % (fxs(aa), fxs(bb), fxm(T_)), fxm(X), nontrivial=(n >= 2),
                              tag="equinodes"))

    for rep in range(ctx.n(24, 300)):
        kind = ["lege", "cheb", "trap", "simp", "N", "W", "H", "R"][rep % 8]
        d = rng.randint(1, 2)
        nn = [rng.randint(3, 9) for _ in range(d)]
        iv = [interval(rng) for _ in range(d)]
        aa, bb = [float(i[0]) for i in iv], [float(i[1]) for i in iv]
        coef = [[rng.randint(-3, 3) for _ in range(4)] for _ in range(d)]

        def f(xv, coef=coef, d=d):
            xv = np.asarray(xv, dtype=float).reshape(-1, d)
            out = np.ones(xv.shape[0])
            for j in range(d):
                c = coef[j]
                out = out * (c[0] + c[1] * xv[:, j] + c[2] * xv[:, j] ** 2 + c[3] * xv[:, j] ** 3)
            return out
        seed = rng.randrange(2 ** 31)
        narg = nn[0] if d == 1 else np.array(nn)
        if d > 1 and rep % 3 == 0:            # scalar bounds broadcast against the vector n
            aa, bb = [min(aa)] * d, [max(bb)] * d
            ctx.count("quadrect:scalar-bounds-vector-n")
            aarg, barg = aa[0], bb[0]
        else:
            aarg = aa[0] if d == 1 else np.array(aa)
            barg = bb[0] if d == 1 else np.array(bb)
        out = Q.quadrect(f, narg, aarg, barg, kind=kind, random_state=Rs(seed))
        if kind == "lege":
            x, w = Q.qnwlege(narg, aarg, barg)
        elif kind == "cheb":
            x, w = Q.qnwcheb(narg, aarg, barg)
        elif kind == "trap":
            x, w = Q.qnwtrap(narg, aarg, barg)
        elif kind == "simp":
            x, w = Q.qnwsimp(narg, aarg, barg)
        else:
            x, w = Q.qnwequi(narg, aarg, barg, kind, random_state=Rs(seed))
        fxv = f(x)
        rp = {"op": "quadrect", "kind": kind, "n": nn, "a": aa, "b": bb, "coef": coef, "seed": seed}
        exact = sum(F(p) * F(q) for p, q in zip(w, fxv))
        mag = sum(abs(F(p) * F(q)) for p, q in zip(w, fxv))
        bound = (len(w) + 2) * EPS * mag
        if abs(F(out) - exact) > bound:
            ctx.spec_fail("quadrect", "quadrect = %r but weights.f(nodes) = %r" % (float(out), float(exact)), rp)
        ctx.count("quadrect:kind=" + kind)
        cases.append(Case("C08 quad w=%s fx=%s" % (fxs(w), fxs(fxv)), fx(out), nontrivial=True, tag="quad",
                          cmp=_mat_env(bound)))

    # ---- 6. Laguerre Newton iteration (Float model, first node) ---------------------------------------
    for rep in range(ctx.n(10, 100)):
        n = rng.randint(1, 30)
        pa = shape_par(rng)
        a1 = float(pa) - 1
        z0 = (1 + a1) * (3 + 0.92 * a1) / (1 + 2.4 * n + 1.8 * a1)
        try:
            x, w = Q.qnwgamma(n, float(pa), 1.0)
        except ValueError:
            continue
        x0 = float(np.atleast_1d(x)[0])

        def cmpg(mo, impl, x0=x0):
            z = unfx(mo.split("|")[0])
            fid["gammanode"][1] += 1
            if z == x0:
                fid["gammanode"][0] += 1
            if abs(z - x0) > 1e-13 * max(1.0, abs(x0)):
                return "first Laguerre node: model %r code %r" % (z, x0)
            return None
        cases.append(Case("C08 gammanode n=%d a=%s tol=%s z0=%s" % (n, fx(a1), fx(3e-14), fx(z0)), fx(x0),
                          nontrivial=(n >= 2), tag="gammanode", cmp=cmpg))

    # ---- 7. the model's three-term recurrences are the classical polynomials (scipy as reference) -----
    import scipy.special as sp
    for rep in range(ctx.n(30, 300)):
        n = rng.randint(1, 12)
        z = dy(rng, -1, 1, 16)
        kind = rep % 3
        if kind == 0:
            ref = (sp.eval_legendre(n, float(z)), sp.eval_legendre(n - 1, float(z)))
            line = "C08 legep n=%d z=%s" % (n, rat(z))
        elif kind == 1:
            a1 = dy(rng, -0.75, 6, 4)
            zz = z * 4 + 4
            ref = (sp.eval_genlaguerre(n, float(a1), float(zz)), sp.eval_genlaguerre(n - 1, float(a1), float(zz)))
            line = "C08 lagp n=%d a=%s z=%s" % (n, rat(a1), rat(zz))
        else:
            a1, b1 = dy(rng, -0.75, 6, 4), dy(rng, -0.75, 6, 4)
            ref = (sp.eval_jacobi(n, float(a1), float(b1), float(z)), sp.eval_jacobi(n - 1, float(a1), float(b1), float(z)))
            line = "C08 jacp n=%d a=%s b=%s z=%s" % (n, rat(a1), rat(b1), rat(z))

        def cmpp(mo, impl, ref=ref):
            got = [float(Fraction(t)) for t in mo.split("|")]
            for g, r in zip(got, ref):
                if abs(g - r) > 1e-9 * max(1.0, abs(r)):
                    return "recurrence value %r, classical polynomial %r" % (g, r)
            return None
        cases.append(Case(line, "%r|%r" % ref, nontrivial=(n >= 2), tag="recurrence", cmp=cmpp))

    ctx.run_cases(cases)
    for k, (hit, tot) in fid.items():
        ctx.counters["fidelity:%s:bit-equal" % k] = hit
        ctx.counters["fidelity:%s:cases" % k] = tot
    ctx.extra["worst_relative_moment_error"] = {k: float("%.3e" % v) for k, v in sorted(worst.items())}
    ctx.extra["moment_tolerances"] = {k: float(v) for k, v in TOL.items()}
    ctx.assumptions.append("rounding envelopes (trap/simp 8 eps (|a|+|b|), moments relative to sum w|x|^k with the "
                           "tolerances listed under moment_tolerances) are assumed, not proved")


def _rel_env(tol):
    """'nodes|weights' in doubles on both sides; entrywise relative envelope"""
    def cmp(mo, impl):
        if mo.startswith("ERR") or impl.startswith("ERR"):
            return None if mo == impl else "outputs differ"
        for a, b in zip(mo.split("|"), impl.split("|")):
            ra, rb = [unfx(t) for t in a.split(",")], [unfx(t) for t in b.split(",")]
            if len(ra) != len(rb):
                return "length differs"
            for u, v in zip(ra, rb):
                if not abs(u - v) <= tol * max(abs(u), abs(v)):
                    return "entry differs: model %r code %r" % (u, v)
        return None
    return cmp


def _abs_rel_env(tol):
    """like _rel_env with an absolute floor (nodes that are zero in exact arithmetic)"""
    def cmp(mo, impl):
        if mo.startswith("ERR") or impl.startswith("ERR"):
            return None if mo == impl else "outputs differ"
        for part, (a, b) in enumerate(zip(mo.split("|"), impl.split("|"))):
            ra, rb = [unfx(t) for t in a.split(",")], [unfx(t) for t in b.split(",")]
            if len(ra) != len(rb):
                return "length differs"
            for u, v in zip(ra, rb):
                # nodes: absolute floor 1; weights: purely relative (100 tol)
                ok = abs(u - v) <= tol * max(abs(u), abs(v), 1.0) if part == 0 else abs(u - v) <= 100 * tol * max(abs(u), abs(v))
                if not ok:
                    return "entry differs: model %r code %r" % (u, v)
        return None
    return cmp


def _cheb_env(scale):
    """Chebyshev nodes and weights: absolute envelope 1e-13 * max(1, |a|+|b|) (cos and the BLAS sum differ)"""
    def cmp(mo, impl):
        for a, b in zip(mo.split("|"), impl.split("|")):
            ra, rb = [unfx(t) for t in a.split(",")], [unfx(t) for t in b.split(",")]
            if len(ra) != len(rb):
                return "length differs"
            for u, v in zip(ra, rb):
                if not abs(u - v) <= 1e-13 * max(1.0, scale):
                    return "entry differs: model %r code %r" % (u, v)
        return None
    return cmp


def _both(c1, c2):
    def cmp(mo, impl):
        c2(mo, impl)
        return c1(mo, impl)
    return cmp


def _mat_env(bound):
    """model prints a matrix / list / scalar of rationals; impl the same shape in doubles"""
    def cmp(mo, impl):
        if mo.startswith("ERR") or impl.startswith("ERR"):
            return None if mo == impl else "outputs differ"
        A, B = parse_ratm(mo), parse_ratm(impl)
        if [len(r) for r in A] != [len(r) for r in B]:
            return "shape differs"
        for ra, rb in zip(A, B):
            for u, v in zip(ra, rb):
                if abs(u - v) > bound:
                    return "entry differs by %.3e > %.3e" % (float(abs(u - v)), float(bound))
        return None
    return cmp
