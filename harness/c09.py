"""C09 — Bellman operator, policy evaluation, backward induction, form conversion,
constructor validation of DiscreteDP: correspondence + spec run.

All data are small integers / dyadic rationals (optionally multiplied by one power
of two), so every double operation of the code is exact and real-valued outputs are
compared with the model's `Rat` answers as exact strings.  Only `evaluate_policy`
(LAPACK / SuperLU solve) is compared inside an envelope.

The malformed stream (and a sample of the valid instances) is also run in a child
process with NUMBA_BOUNDSCHECK=1 and a private NUMBA_CACHE_DIR, so that a read
outside `s_indices` shows as IndexError instead of silently using garbage.
"""
import itertools
import json
import math
import os
import subprocess
import sys
import warnings
from fractions import Fraction

import numpy as np

from . import common
from .common import Case, VERIF, fx, ints, intm, rat, rats, ratm, parse_rats

FILES = ["quantecon/markov/ddp.py", "quantecon/markov/utilities.py"]

NINF = None  # exact representation of -inf in instances


# ----------------------------------------------------------------------------
# canonical strings (shared by the parent and the bounds-checking child)


def ext(x):
    """double -> 'ninf' | exact rational string"""
    x = float(x)
    if x == -math.inf:
        return "ninf"
    if math.isnan(x):
        return "nan"
    if x == math.inf:
        return "pinf"
    return rat(Fraction(x))


def exts(v):
    v = list(v)
    return ",".join(ext(e) for e in v) if v else "-"


def extm(m):
    m = list(m)
    return ";".join(exts(r) for r in m) if m else "-"


def err_str(e):
    msg = str(e)
    k = type(e).__name__
    if isinstance(e, ValueError):
        if "reward must be finite" in msg:
            return "ERR:ValueError:reward:%s" % msg.rsplit(" ", 1)[1]
        if "at least one action must be available" in msg:
            return "ERR:ValueError:action:%s" % msg.rsplit(" ", 1)[1]
        if "beta must be" in msg:
            return "ERR:ValueError:beta"
        if "exceeds matrix dimension" in msg or "index exceeds" in msg:
            return "ERR:ValueError:coo"
        if "shapes of R and Q" in msg:
            return "ERR:ValueError:shape"
        if "Q must be 2- or 3-dimensional" in msg:
            return "ERR:ValueError:qdim"
        if "R must be 1- or 2-dimensional" in msg:
            return "ERR:ValueError:rdim"
        if "dimensions of R and Q" in msg:
            return "ERR:ValueError:dimension"
        if "s_indices must be supplied" in msg:
            return "ERR:ValueError:smissing"
        if "a_indices must be supplied" in msg:
            return "ERR:ValueError:amissing"
        if "length of s_indices" in msg:
            return "ERR:ValueError:length"
        return "ERR:ValueError:?:" + msg[:80]
    if isinstance(e, NotImplementedError):
        return "ERR:NotImplementedError"
    return "ERR:%s:%s" % (k, msg[:80])


def dense(Q):
    return Q.toarray() if hasattr(Q, "toarray") else np.asarray(Q)


def canon_ddp(d):
    if d._sa_pair:
        return "ok|indptr=%s|s=%s|a=%s|R=%s|Q=%s" % (
            ints(d.a_indptr), ints(d.s_indices), ints(d.a_indices), exts(d.R), extm(dense(d.Q)))
    n, m = d.R.shape
    return "ok|n=%d|m=%d|R=%s|Q=%s" % (n, m, extm(d.R), extm(np.asarray(d.Q).reshape(n * m, n)))


def build(job):
    """job (JSON-able) -> DiscreteDP (raises what the constructor raises)"""
    import scipy.sparse as sp
    from quantecon.markov import DiscreteDP
    beta = job["beta"]
    if job["form"] == "prod":
        return DiscreteDP(np.array(job["R"], dtype=float), np.array(job["Q"], dtype=float), beta)
    n = job["n"]
    R = np.array(job["R"], dtype=float)
    Q = np.array(job["Q"], dtype=float).reshape(len(job["R"]), n)
    if job.get("sparse"):
        Q = sp.csr_matrix(Q)
    s = np.array(job["s"], dtype=int)
    a = np.array(job["a"], dtype=int)
    return DiscreteDP(R, Q, beta, s, a)


def ctor_and_bellman(job):
    """[constructor canonical string, bellman canonical string or '-']"""
    with warnings.catch_warnings():
        warnings.simplefilter("ignore")
        try:
            d = build(job)
        except Exception as e:  # the kind is the observation
            return [err_str(e), "-", "-", "-", "-"]
        out = [canon_ddp(d), "-", "-", "-", "-"]
        if job.get("v") is not None:
            from quantecon.markov import backward_induction
            try:
                n = d.num_states
                Tv = np.empty(n)
                sg = np.empty(n, dtype=int)
                d.bellman_operator(np.array(job["v"], dtype=float), Tv=Tv, sigma=sg)
                out[1] = "Tv=%s|sigma=%s" % (exts(Tv), ints(sg))
            except Exception as e:
                out[1] = err_str(e)
            if job.get("sigma") is not None:
                try:
                    Rs, Qs = d.RQ_sigma(np.array(job["sigma"], dtype=int))
                    out[2] = "R=%s|Q=%s" % (exts(Rs), extm(dense(Qs)))
                except Exception as e:
                    out[2] = err_str(e)
            try:
                e2 = d.to_product_form() if d._sa_pair else d.to_sa_pair_form(sparse=False)
                out[3] = canon_ddp(e2)
            except Exception as e:
                out[3] = err_str(e)
            try:
                vsb, sgb = backward_induction(d, 2, np.array(job["v"], dtype=float))
                out[4] = "vs=%s|sigmas=%s" % (extm(vsb), intm(sgb))
            except Exception as e:
                out[4] = err_str(e)
        return out


def child_main():
    jobs = json.load(sys.stdin)
    json.dump([ctor_and_bellman(j) for j in jobs], sys.stdout)


# ----------------------------------------------------------------------------
# exact instances


class Inst:
    """exact description of one problem as it is handed to the constructor"""

    def __init__(self, form, n, beta, m=None, R=None, Q=None, pairs=None, sparse=False):
        self.form, self.n, self.beta, self.m, self.sparse = form, n, beta, m, sparse
        self.R, self.Q = R, Q          # product form: n x m (None = -inf), n x m x n
        self.pairs = pairs             # SA form: list of (s, a, r | None, q) in the order given

    # feasible actions and their exact data, independent of the order of the pairs
    def table(self):
        t = {s: {} for s in range(self.n)}
        if self.form == "prod":
            for s in range(self.n):
                for a in range(self.m):
                    if self.R[s][a] is not NINF:
                        t[s][a] = (self.R[s][a], self.Q[s][a])
        else:
            for (s, a, r, q) in self.pairs:
                t[s][a] = (r, q)
        return t

    def job(self, v=None, sigma=None):
        f = lambda r: -math.inf if r is NINF else float(r)
        j = {"form": self.form, "n": self.n, "beta": float(self.beta), "sparse": self.sparse,
             "v": None if v is None else [float(x) for x in v], "sigma": sigma}
        if self.form == "prod":
            j["R"] = [[f(r) for r in row] for row in self.R]
            j["Q"] = [[[float(x) for x in q] for q in qs] for qs in self.Q]
        else:
            j["R"] = [f(p[2]) for p in self.pairs]
            j["Q"] = [[float(x) for x in p[3]] for p in self.pairs]
            j["s"] = [p[0] for p in self.pairs]
            j["a"] = [p[1] for p in self.pairs]
        return j

    def line(self):
        e = lambda r: "ninf" if r is NINF else rat(r)
        if self.form == "prod":
            Rf = [e(r) for row in self.R for r in row]
            Qf = [q for qs in self.Q for q in qs]
            return "form=prod beta=%s n=%d m=%d R=%s Q=%s" % (
                rat(self.beta), self.n, self.m, ",".join(Rf) if Rf else "-", ratm(Qf))
        return "form=sa beta=%s n=%d R=%s Q=%s s=%s a=%s" % (
            rat(self.beta), self.n, ",".join(e(p[2]) for p in self.pairs) if self.pairs else "-",
            ratm([p[3] for p in self.pairs]), ints([p[0] for p in self.pairs]), ints([p[1] for p in self.pairs]))

    def replay(self, **kw):
        d = {"line": self.line(), "job": self.job()}
        d.update(kw)
        return d


def dyadic_dist(rng, n, denom=8):
    """a probability vector with entries k/denom"""
    cuts = sorted(rng.randint(0, denom) for _ in range(n - 1))
    parts = [b - a for a, b in zip([0] + cuts, cuts + [denom])]
    rng.shuffle(parts)
    return [Fraction(p, denom) for p in parts]


def exact_vals(inst, v):
    """s -> {a: r + beta * q.v  (None = -inf)}"""
    out = {}
    for s, acts in inst.table().items():
        out[s] = {}
        for a, (r, q) in acts.items():
            out[s][a] = NINF if r is NINF else r + inst.beta * sum(x * y for x, y in zip(q, v))
    return out


def vmax(vals):
    fin = [x for x in vals if x is not NINF]
    return max(fin) if fin else NINF


def fe(x):
    """double from the code -> exact Fraction | None (-inf) | 'bad'"""
    x = float(x)
    if x == -math.inf:
        return NINF
    if math.isnan(x) or math.isinf(x):
        return "bad"
    return Fraction(x)


def solve_exact(A, b):
    n = len(A)
    M = [list(r) + [bi] for r, bi in zip(A, b)]
    for c in range(n):
        p = next((i for i in range(c, n) if M[i][c] != 0), None)
        if p is None:
            return None
        M[c], M[p] = M[p], M[c]
        piv = M[c][c]
        M[c] = [x / piv for x in M[c]]
        for i in range(n):
            if i != c and M[i][c] != 0:
                f = M[i][c]
                M[i] = [x - f * y for x, y in zip(M[i], M[c])]
    return [M[i][n] for i in range(n)]


# ----------------------------------------------------------------------------


def run(ctx):
    from quantecon.markov import DiscreteDP, backward_induction
    warnings.simplefilter("ignore")
    rng = ctx.rng
    cases = []
    ctx.rule = ("random DiscreteDP instances n<=6, m<=5 in product / SA-dense / SA-sparse form, pairs sorted or shuffled, "
                "integer rewards with many ties and -inf entries, transition rows k/8, beta in {0,1/4,1/2,3/4,1}, value "
                "vectors small / large (k*2^40) / mixed / whole problem scaled by 2^990, all feasible policies of small "
                "instances, horizons T<=8; malformed stream: every non-empty set of empty states for n<=5 (quick: n<=4), "
                "sorted and shuffled, states with only -inf rewards, bad beta, bad lengths; a case is non-trivial when "
                "some state has >= 2 feasible actions (operators) resp. when the instance is rejected or re-sorted (ctor); "
                "plus, per valid instance, a random HISTORY of 7-10 calls on one fresh object (bellman_operator / compute_greedy "
                "with and without caller-supplied Tv / sigma, T_sigma, RQ_sigma, controlled_mc, evaluate_policy, "
                "backward_induction, form conversion; v fresh or an array returned earlier, i.e. T(T(v))): every returned array "
                "is kept and after every later call re-checked bitwise, np.shares_memory between any two results / inputs / the "
                "object's arrays must be False, inputs and the object's R, Q, s_indices, a_indices, a_indptr stay bitwise unchanged; "
                "the histories also reassign ddp.beta and edit ddp.R / ddp.Q in place between calls (later answers must be those of "
                "the CURRENT state; the bellman / T_sigma answers are compared once more through the model's `run`); "
                "plus, per valid instance, an ARGUMENT-FORMS run: the same problem and calls with beta as Python / NumPy scalar / "
                "bool / 0-d array, R / Q as nested lists, tuples, ndarrays (float32, integer dtypes where exact, C / F / strided / "
                "reversed views), sparse Q as csr / csc / coo / lil with int32 / int64 indices and stored zeros, index and policy "
                "vectors as list / tuple / every integer width, v / v_term as list / tuple / float32 / integer arrays / views (v "
                "not integer-valued half of the time), T as Python / NumPy integer / 0-d array, optional arguments omitted / None "
                "/ positional / keyword, strided output arrays; inputs bitwise unchanged, no aliasing")

    # ---------------------------------------------------------------- generators
    def gen_valid():
        n = rng.randint(1, 6)
        m = rng.randint(1, 5)
        scale = Fraction(2) ** 990 if rng.random() < 0.08 else Fraction(1)
        beta = rng.choice([Fraction(0), Fraction(1, 4), Fraction(1, 2), Fraction(3, 4), Fraction(1), Fraction(1, 2),
                           Fraction(3, 4)])
        rr = rng.choice([1, 2, 8])   # narrow reward ranges make ties frequent
        feas = []
        for s in range(n):
            k = rng.randint(1, m)
            feas.append(sorted(rng.sample(range(m), k)))
        if rng.random() < 0.3:       # make the last action the unique best somewhere / use the whole action range
            feas[rng.randrange(n)] = list(range(m))
        form = rng.choice(["prod", "sa", "sa", "sasp"])
        R = [[NINF] * m for _ in range(n)]
        Q = [[dyadic_dist(rng, n) for _ in range(m)] for _ in range(n)]
        for s in range(n):
            for a in feas[s]:
                R[s][a] = Fraction(rng.randint(-rr, rr)) * scale
        if form == "prod":
            inst = Inst("prod", n, beta, m=m, R=R, Q=Q)
        else:
            pairs = [(s, a, R[s][a], Q[s][a]) for s in range(n) for a in feas[s]]
            # some pairs carry a -inf reward (allowed as long as one reward of the state is finite)
            for i, (s, a, r, q) in enumerate(pairs):
                if len(feas[s]) >= 2 and rng.random() < 0.1 and sum(1 for p in pairs if p[0] == s and p[2] is not NINF) >= 2:
                    pairs[i] = (s, a, NINF, q)
            order = rng.choice(["sorted", "shuffled", "shuffled", "reversed"])
            if order == "shuffled":
                rng.shuffle(pairs)
            elif order == "reversed":
                pairs.reverse()
            inst = Inst("sa", n, beta, pairs=pairs, sparse=(form == "sasp"))
            inst.order = order
        inst.scale = scale
        return inst

    def gen_v(inst, kind=None):
        n = inst.n
        kind = kind or rng.choice(["small", "small", "large", "mixed", "neg", "zero"])
        if kind == "small":
            v = [Fraction(rng.randint(-8, 8)) for _ in range(n)]
        elif kind == "large":
            v = [Fraction(rng.randint(-8, 8)) * 2 ** 40 for _ in range(n)]
        elif kind == "neg":
            v = [-Fraction(rng.randint(1, 8)) * 2 ** 40 for _ in range(n)]
        elif kind == "mixed":
            v = [Fraction(rng.randint(-8, 8)) * rng.choice([1, 2 ** 40]) for _ in range(n)]
        else:
            v = [Fraction(0)] * n
        ctx.count("v:" + kind)
        if inst.scale != 1:
            # whole problem scaled: rewards k*2^990, values (k*2^10)*2^990 — "very large values", still exact
            v = [Fraction(rng.randint(-8, 8)) * 2 ** 10 * inst.scale for _ in range(n)]
            ctx.count("v:scaled-2^1000")
        return v

    def construct(inst):
        with warnings.catch_warnings():
            warnings.simplefilter("ignore")
            return build(inst.job())


    # ---------------------------------------------------------------- histories on one object
    def arrays_of(x):
        """the ndarrays that make up a returned value / a stored attribute"""
        if x is None:
            return []
        if isinstance(x, np.ndarray):
            return [x]
        if hasattr(x, "indptr") and hasattr(x, "data"):            # scipy sparse
            return [x.data, x.indices, x.indptr]
        if hasattr(x, "P"):                                        # MarkovChain
            return arrays_of(x.P)
        if isinstance(x, (tuple, list)):
            return [a for e in x for a in arrays_of(e)]
        if hasattr(x, "a_indptr") or hasattr(x, "_sa_pair"):       # DiscreteDP
            return [a for at in ("R", "Q", "s_indices", "a_indices", "a_indptr") for a in arrays_of(getattr(x, at, None))]
        return []

    def snap(arrs):
        return [(a.shape, a.dtype.str, a.tobytes()) for a in arrs]

    def shares(x, y):
        return x.size > 0 and y.size > 0 and np.may_share_memory(x, y) and np.shares_memory(x, y)

    class Cur:
        """exact current state of one object along a history (setters / in-place edits applied)"""

        def __init__(self, inst):
            self.form, self.n, self.m, self.beta, self.sparse, self.scale = inst.form, inst.n, inst.m, inst.beta, inst.sparse, inst.scale
            if inst.form == "prod":
                self.R = [list(r) for r in inst.R]
                self.Q = [[list(q) for q in qs] for qs in inst.Q]
            else:
                # stored order = lexicographic order (pairs are distinct)
                self.pairs = sorted(inst.pairs, key=lambda p_: (p_[0], p_[1]))

        def as_inst(self):
            if self.form == "prod":
                i_ = Inst("prod", self.n, self.beta, m=self.m, R=[list(r) for r in self.R], Q=[[list(q) for q in qs] for qs in self.Q])
            else:
                i_ = Inst("sa", self.n, self.beta, pairs=list(self.pairs), sparse=self.sparse)
            i_.scale = self.scale
            return i_

        def table(self):
            return self.as_inst().table()

    def run_history(inst, table, acts, base, nt):
        """A random sequence of operations on one fresh DiscreteDP: queries (all public entry points)
        interleaved with attribute reassignment (`ddp.beta = …`) and in-place edits of `ddp.R`, `ddp.Q`.
        Kept: every returned array (bits at return time), every input array, the object's stored arrays.
        After every operation: all earlier results are bitwise what they were, no returned array shares
        memory with an earlier result / an input / the object's arrays, inputs are bitwise unchanged, the
        object's arrays are bitwise what the last deliberate edit left. Each result is checked against
        the exact definition *in the current state* when it is produced, and compared with the pure
        model as it stands at the end of the history (per call, and the bellman / T_sigma calls once
        more through the model's own history semantics `run`, op `hist`)."""
        dh = construct(inst)
        n = inst.n
        cur = Cur(inst)
        st = {"line": cur.as_inst().line(), "tab": cur.table()}
        line0 = st["line"]
        obj_arrs = arrays_of(dh)
        objs = {"snap": snap(obj_arrs), "beta": float(dh.beta)}
        ledger = []     # dicts: label, arrs, snaps, line (model request) + show (canonical string at the end)
        inputs = []     # (label, array, snapshot)
        calls = []      # textual record for the replay
        hops = []       # (op token for the model's `run`, show() or None)
        exact_pool = []  # (exact vector, nesting depth, ndarray) usable as v

        def fresh_v():
            if inst.scale != 1:
                return gen_v(inst), 0
            kind = rng.choice(["small", "small", "large", "mixed", "neg"])
            return gen_v(inst, kind), (0 if kind == "small" else 99)

        def pick_v():
            """a new vector, or (T(T(v))) an array returned by an earlier call of this history"""
            cands = [e for e in exact_pool if e[1] <= 2]
            if cands and rng.random() < 0.4:
                v, dep, arr = rng.choice(cands)
                ctx.count("history:v-is-earlier-result")
                return v, dep, arr
            v, dep = fresh_v()
            arr = np.array([float(x) for x in v])
            inputs.append(("v", arr, snap([arr])))
            return v, dep, arr

        def fail(key, what):
            ctx.spec_fail(key, what + " [history: " + " ; ".join(calls) + "]", inst.replay(history=list(calls)))

        def record(label, ret, own=(), line=None, show=None, legit_self=False):
            """book a returned value; `own` = arrays the caller supplied for output (aliasing with them is the contract)"""
            new = arrays_of(ret)
            if not legit_self:
                for x in new:
                    if any(x is o for o in own):
                        continue
                    for ent in ledger:
                        for y in ent["arrs"]:
                            if shares(x, y):
                                fail("history_alias", "the result of %s shares memory with the kept result of %s" % (label, ent["label"]))
                    for lab, arr, _ in inputs:
                        if shares(x, arr):
                            fail("history_alias_input", "the result of %s shares memory with an input array (%s)" % (label, lab))
                    for y in obj_arrs:
                        if shares(x, y):
                            fail("history_alias_object", "the result of %s shares memory with an array stored in the object" % label)
                ledger.append({"label": label, "arrs": new, "snaps": snap(new), "line": line, "show": show})
            # everything kept so far is still what it was
            for ent in ledger[:-1] if not legit_self else ledger:
                if snap(ent["arrs"]) != ent["snaps"]:
                    fail("history_result_overwritten", "the kept result of %s changed after the later operation %s" % (ent["label"], label))
                    ent["snaps"] = snap(ent["arrs"])
            for lab, arr, sn in inputs:
                if snap([arr]) != sn:
                    fail("history_input_mutated", "an input array (%s) was modified by %s" % (lab, label))
            if snap(obj_arrs) != objs["snap"] or [id(a) for a in arrays_of(dh)] != [id(a) for a in obj_arrs] \
                    or float(dh.beta) != objs["beta"]:
                fail("history_object_mutated", "the object's stored R/Q/s_indices/a_indices/a_indptr/beta changed during %s" % label)
                objs["snap"] = snap(obj_arrs)

        def edited(label):
            """a deliberate change of the object by the caller: new reference state"""
            objs["snap"] = snap(obj_arrs)
            objs["beta"] = float(dh.beta)
            st["line"] = cur.as_inst().line()
            st["tab"] = cur.table()
            record(label, None, legit_self=True)

        nsteps = ctx.n(9, 12)
        for step in range(nsteps):
            op = rng.choice(["bellman", "bellman", "bellman", "greedy", "tsigma", "rqsigma", "cmc", "evalpol", "backward", "convert",
                             "set_beta", "edit_R", "edit_Q"])
            base = st["line"]
            tab = st["tab"]
            acts = [sorted(tab[s_]) for s_ in range(n)]
            if op == "set_beta":
                nb = rng.choice([b_ for b_ in (Fraction(0), Fraction(1, 4), Fraction(1, 2), Fraction(3, 4)) if b_ != cur.beta])
                calls.append("ddp.beta=%s" % rat(nb))
                dh.beta = rng.choice([float, np.float64, np.float32])(float(nb))
                cur.beta = nb
                hops.append(("B~" + rat(nb), None))
                ctx.count("history:set_beta")
                edited("set_beta#%d" % step)
            elif op == "edit_R":
                rr_ = rng.choice([1, 2, 8])
                nr = Fraction(rng.randint(-rr_, rr_)) * inst.scale
                if inst.form == "prod":
                    s_ = rng.randrange(n)
                    a_ = rng.choice(acts[s_])
                    calls.append("ddp.R[%d,%d]=%s" % (s_, a_, rat(nr)))
                    dh.R[s_, a_] = float(nr)
                    cur.R[s_][a_] = nr
                    hops.append(("R~%d~%s" % (s_ * inst.m + a_, rat(nr)), None))
                else:
                    fin = [j for j, p_ in enumerate(cur.pairs) if p_[2] is not NINF]
                    j = rng.choice(fin)
                    calls.append("ddp.R[%d]=%s" % (j, rat(nr)))
                    dh.R[j] = float(nr)
                    p_ = cur.pairs[j]
                    cur.pairs[j] = (p_[0], p_[1], nr, p_[3])
                    hops.append(("R~%d~%s" % (j, rat(nr)), None))
                ctx.count("history:edit_R")
                edited("edit_R#%d" % step)
            elif op == "edit_Q":
                if inst.form == "prod":
                    s_ = rng.randrange(n)
                    a_ = rng.choice(acts[s_])
                    nq = dyadic_dist(rng, n)
                    calls.append("ddp.Q[%d,%d,:]=%s" % (s_, a_, rats(nq)))
                    dh.Q[s_, a_, :] = [float(x) for x in nq]
                    cur.Q[s_][a_] = nq
                    hops.append(("Q~%d~%s" % (s_ * inst.m + a_, rats(nq)), None))
                else:
                    j = rng.randrange(len(cur.pairs))
                    p_ = cur.pairs[j]
                    if inst.sparse:
                        lo_, hi_ = int(dh.Q.indptr[j]), int(dh.Q.indptr[j + 1])
                        cols = [int(c) for c in dh.Q.indices[lo_:hi_]]
                        vals_ = [p_[3][c] for c in cols]
                        rng.shuffle(vals_)
                        nq = [Fraction(0)] * n
                        for c, x in zip(cols, vals_):
                            nq[c] = x
                        dh.Q.data[lo_:hi_] = [float(x) for x in vals_]
                    else:
                        nq = dyadic_dist(rng, n)
                        dh.Q[j, :] = [float(x) for x in nq]
                    calls.append("ddp.Q[%d,:]=%s" % (j, rats(nq)))
                    cur.pairs[j] = (p_[0], p_[1], p_[2], nq)
                    hops.append(("Q~%d~%s" % (j, rats(nq)), None))
                ctx.count("history:edit_Q")
                edited("edit_Q#%d" % step)
            elif op in ("bellman", "greedy"):
                v, dep, vf = pick_v()
                ev = exact_vals(cur, v)
                want_Tv = [vmax(ev[s].values()) for s in range(n)]
                variant = rng.choice(["none", "none", "Tv", "Tv+sigma", "sigma"]) if op == "bellman" else rng.choice(["none", "sigma"])
                calls.append("%s(v=%s,out=%s)" % (op, rats(v), variant))
                ctx.count("history:%s:%s" % (op, variant))
                own = []
                Tv = sg = None
                if op == "bellman":
                    kw = {}
                    if "Tv" in variant:
                        kw["Tv"] = np.full(n, 77.0)
                        own.append(kw["Tv"])
                    if "sigma" in variant:
                        kw["sigma"] = np.full(n, -5, dtype=int)
                        own.append(kw["sigma"])
                    Tv = dh.bellman_operator(vf, **kw)
                    sg = kw.get("sigma")
                    if "Tv" in kw and Tv is not kw["Tv"]:
                        fail("bellman_out", "bellman_operator did not return the supplied Tv array")
                    if [fe(x) for x in Tv] != want_Tv:
                        fail("bellman_operator", "Tv=%s but max_a r+beta*q.v = %s" % (exts(Tv), [str(x) for x in want_Tv]))
                    tvline = "C09 bellmanTv %s v=%s" % (base, rats(v))
                    record("bellman#%d" % step, (Tv,), own=own, line=tvline, show=lambda a=Tv: "Tv=" + exts(a))
                    if sg is not None:
                        record("bellman-sigma#%d" % step, (sg,), own=own, line="C09 greedy %s v=%s" % (base, rats(v)),
                               show=lambda a=sg: "sigma=" + ints(a))
                        hops.append(("T~" + rats(v), lambda a=Tv, b=sg: "Tv=%s|sigma=%s" % (exts(a), ints(b))))
                    if all(x is not NINF for x in want_Tv):
                        exact_pool.append((want_Tv, dep + 1, Tv))
                else:
                    if variant == "sigma":
                        sg0 = np.full(n, -5, dtype=int)
                        own.append(sg0)
                        sg = dh.compute_greedy(vf, sigma=sg0)
                        if sg is not sg0:
                            fail("greedy_out", "compute_greedy did not return the supplied array")
                    else:
                        sg = dh.compute_greedy(vf)
                    record("greedy#%d" % step, (sg,), own=own, line="C09 greedy %s v=%s" % (base, rats(v)),
                           show=lambda a=sg: "sigma=" + ints(a))
                if sg is not None:
                    for s_ in range(n):
                        a_ = int(sg[s_])
                        if a_ not in ev[s_] or ev[s_][a_] != want_Tv[s_]:
                            fail("greedy_attains", "sigma[%d]=%d is not a feasible maximiser" % (s_, a_))
                            break
            elif op in ("tsigma", "rqsigma", "cmc", "evalpol"):
                sigma = [rng.choice(a) for a in acts]
                sig = np.array(sigma, dtype=int)
                inputs.append(("sigma", sig, snap([sig])))
                Rw = [tab[s_][sigma[s_]][0] for s_ in range(n)]
                Qw = [list(tab[s_][sigma[s_]][1]) for s_ in range(n)]
                if op == "tsigma":
                    v, dep, vf = pick_v()
                    calls.append("T_sigma(%s)(v=%s)" % (ints(sigma), rats(v)))
                    out = dh.T_sigma(sig)(vf)
                    want = [NINF if Rw[s_] is NINF else Rw[s_] + cur.beta * sum(x * y for x, y in zip(Qw[s_], v)) for s_ in range(n)]
                    if [fe(x) for x in out] != want:
                        fail("T_sigma", "T_sigma(%s)(v) is not R_sigma + beta Q_sigma v" % sigma)
                    record("T_sigma#%d" % step, out, line="C09 tsigma %s sigma=%s v=%s" % (base, ints(sigma), rats(v)),
                           show=lambda a=out: exts(a))
                    hops.append(("S~%s~%s" % (ints(sigma), rats(v)), lambda a=out: exts(a)))
                    if all(x is not NINF for x in want):
                        exact_pool.append((want, dep + 1, out))
                elif op == "rqsigma":
                    calls.append("RQ_sigma(%s)" % ints(sigma))
                    Rs, Qs = dh.RQ_sigma(sig)
                    if [fe(x) for x in Rs] != Rw or [[Fraction(float(x)) for x in r_] for r_ in dense(Qs)] != Qw:
                        fail("RQ_sigma", "RQ_sigma(%s) does not select the rows of the chosen actions" % sigma)
                    record("RQ_sigma#%d" % step, (Rs, Qs), line="C09 rqsigma %s sigma=%s" % (base, ints(sigma)),
                           show=lambda a=Rs, b=Qs: "R=%s|Q=%s" % (exts(a), extm(dense(b))))
                elif op == "cmc":
                    calls.append("controlled_mc(%s)" % ints(sigma))
                    mc = dh.controlled_mc(sig)
                    if [[Fraction(float(x)) for x in r_] for r_ in dense(mc.P)] != Qw:
                        fail("controlled_mc", "controlled_mc(%s).P is not Q_sigma" % sigma)
                    record("controlled_mc#%d" % step, mc, line="C09 cmc %s sigma=%s" % (base, ints(sigma)),
                           show=lambda a=mc: "P=" + extm(dense(a.P)))
                else:
                    if cur.beta == 1 or any(r_ is NINF for r_ in Rw):
                        continue
                    calls.append("evaluate_policy(%s)" % ints(sigma))
                    vs_ = dh.evaluate_policy(sig)
                    A = [[(1 if i == j else 0) - cur.beta * Qw[i][j] for j in range(n)] for i in range(n)]
                    xs = solve_exact(A, Rw)
                    sc = max([1] + [abs(x) for x in xs])
                    if not np.all(np.isfinite(vs_)) or any(abs(Fraction(float(vs_[i])) - xs[i]) > Fraction(1, 10 ** 9) * sc for i in range(n)):
                        fail("evaluate_policy", "evaluate_policy(%s) is off the exact fixed point" % sigma)
                    record("evaluate_policy#%d" % step, vs_)
            elif op == "backward":
                if inst.scale != 1:
                    continue
                T = rng.randint(0, 3)
                if rng.random() < 0.3:
                    vt, vta = None, None
                else:
                    vt = [Fraction(rng.randint(-16, 16)) for _ in range(n)]
                    vta = np.array([float(x) for x in vt])
                    inputs.append(("v_term", vta, snap([vta])))
                calls.append("backward_induction(T=%d,v_term=%s)" % (T, "None" if vt is None else rats(vt)))
                vsb, sgb = backward_induction(dh, T, vta)
                curv = vt if vt is not None else [Fraction(0)] * n
                ok = [fe(x) for x in vsb[T]] == curv
                for t in range(T, 0, -1):
                    ev = exact_vals(cur, curv)
                    curv = [vmax(ev[s_].values()) for s_ in range(n)]
                    ok = ok and [fe(x) for x in vsb[t - 1]] == curv and all(
                        int(sgb[t - 1][s_]) in ev[s_] and ev[s_][int(sgb[t - 1][s_])] == curv[s_] for s_ in range(n))
                if not ok:
                    fail("backward_induction", "vs/sigmas are not the exact backward recursion (T=%d)" % T)
                record("backward_induction#%d" % step, (vsb, sgb),
                       line="C09 backward %s T=%d vterm=%s" % (base, T, "none" if vt is None else rats(vt)),
                       show=lambda a=vsb, b=sgb: "vs=%s|sigmas=%s" % (extm(a), intm(b)))
            else:
                if rng.random() < 0.5:
                    calls.append("to_sa_pair_form()")
                    e = dh.to_sa_pair_form(sparse=rng.random() < 0.5)
                    same = inst.form == "sa"
                else:
                    calls.append("to_product_form()")
                    e = dh.to_product_form()
                    same = inst.form == "prod"
                if same:
                    if e is not dh:
                        fail("to_form_self", "conversion to the form the instance already has did not return the instance")
                    record("convert-self#%d" % step, None, legit_self=True)
                else:
                    record("convert#%d" % step, e, line="C09 %s %s" % ("tosa" if inst.form == "prod" else "toprod", base),
                           show=lambda a=e: canon_ddp(a))
        ctx.count("history:runs")
        ctx.count("history:calls", len(calls))
        # the pure model against every kept result as it stands now, at the end of the history
        for ent in ledger:
            if ent["line"] is not None:
                cases.append(Case(ent["line"], ent["show"](), nontrivial=nt, tag="history"))
        # … and the setters + bellman / T_sigma queries once more through the model's history semantics
        while hops and hops[-1][1] is None:
            hops.pop()
        if any(h[1] is not None for h in hops):
            cases.append(Case("C09 hist %s ops=%s" % (line0, "|".join(h[0] for h in hops)),
                              "#".join("." if h[1] is None else h[1]() for h in hops), nontrivial=nt, tag="history-run"))

    # ---------------------------------------------------------------- argument forms
    INT_DTYPES = [np.int8, np.int16, np.int32, np.int64, np.uint8, np.uint16, np.uint32, np.uint64, np.intp]
    # every (dtype, layout) combination of an array that reaches a Numba kernel costs one JIT compilation, so one run
    # uses a small palette of integer widths (all widths are reached over the seeds); pure-NumPy arguments use them all
    PALETTE = [np.int64] + rng.sample([np.int8, np.int16, np.int32, np.uint8, np.uint16, np.uint32, np.uint64], ctx.n(1, 3))
    RPAL = rng.sample([np.float32, np.int64, np.int32, np.int8], ctx.n(1, 3))
    ctx.extra["forms_int_palette"] = [np.dtype(d_).name for d_ in PALETTE]

    def views(arr):
        """the same values as a C array, an F array, a strided view, a reversed(-stride) view"""
        k = rng.randrange(4)
        if k == 0:
            return np.ascontiguousarray(arr), "C"
        if k == 1:
            return np.asfortranarray(arr), "F"
        if k == 2:
            big = np.repeat(arr, 2, axis=0)
            if arr.ndim >= 2:
                big = np.repeat(big, 2, axis=arr.ndim - 1)
                big[1::2] = 99
                return big[(slice(None, None, 2),) + (slice(None),) * (arr.ndim - 2) + (slice(None, None, 2),)], "strided"
            big[1::2] = 99
            return big[::2], "strided"
        rev = np.ascontiguousarray(arr[::-1])
        return rev[::-1], "reversed"

    def form_ints(vals, what, dt=None):
        """an index / policy vector in a random legal form"""
        vals = [int(x) for x in vals]
        if dt is not None:
            arr = np.array(vals, dtype=dt)
            lay = "C"
            if rng.random() < 0.15:
                arr, lay = np.ascontiguousarray(arr[::-1])[::-1], "reversed"
            ctx.count("forms:%s:%s" % (what, np.dtype(dt).name))
            ctx.count("forms:%s:layout-%s" % (what, lay))
            return arr
        k = rng.randrange(4)
        if k == 0:
            ctx.count("forms:%s:list" % what)
            return list(vals)
        if k == 1:
            ctx.count("forms:%s:tuple" % what)
            return tuple(vals)
        dt = rng.choice([d_ for d_ in PALETTE if not vals or max(vals) <= np.iinfo(d_).max])
        arr, lay = views(np.array(vals, dtype=dt))
        ctx.count("forms:%s:%s" % (what, np.dtype(dt).name))
        ctx.count("forms:%s:layout-%s" % (what, lay))
        return arr

    def form_floats(exact, what, small):
        """a real vector in a random legal form (float32 / integer dtypes only where they are exact)"""
        fl = [float(x) for x in exact]
        k = rng.randrange(5)
        if k == 0:
            ctx.count("forms:%s:list" % what)
            return [int(x) if (x.denominator == 1 and abs(x) < 2 ** 53 and rng.random() < 0.5) else float(x) for x in exact]
        if k == 1:
            ctx.count("forms:%s:tuple" % what)
            return tuple(fl)
        dts = [np.float64, np.float64]
        if small:
            dts.append(np.float32)
        if all(x.denominator == 1 for x in exact) and all(abs(x) < 2 ** 62 for x in exact):
            dts.append(np.int64)
            if all(abs(x) < 100 for x in exact):
                dts += [np.int8, np.int32]
                if all(x >= 0 for x in exact):
                    dts.append(np.uint8)
        dt = rng.choice(dts)
        arr, lay = views(np.array([int(x) for x in exact] if np.dtype(dt).kind in "iu" else fl, dtype=dt))
        ctx.count("forms:%s:%s" % (what, np.dtype(dt).name))
        ctx.count("forms:%s:layout-%s" % (what, lay))
        return arr

    def form_scalar01(x, what):
        """a scalar that may be an integer-like 0/1 or a dyadic fraction"""
        f = float(x)
        opts = [float, np.float64, np.float32, lambda y: np.array(y), lambda y: np.array(y, dtype=np.float32)]
        if x.denominator == 1:
            opts += [int, bool, np.int8, np.int64, np.uint8, np.bool_]
        mk = rng.choice(opts)
        val = mk(int(x)) if (x.denominator == 1 and mk in (int, bool, np.int8, np.int64, np.uint8, np.bool_)) else mk(f)
        ctx.count("forms:%s:%s" % (what, type(val).__name__ + ("-0d" if isinstance(val, np.ndarray) else "")))
        return val

    def keep_input(store, label, x):
        import copy
        if isinstance(x, np.ndarray):
            store.append((label, x, ("nd", snap([x]))))
        elif hasattr(x, "indptr") or hasattr(x, "row") or hasattr(x, "rows"):
            store.append((label, x, ("sp", (x.format, x.shape, x.toarray().tobytes(), snap(arrays_of(x))))))
        else:
            store.append((label, x, ("py", copy.deepcopy(x))))

    def inputs_unchanged(store):
        bad = []
        for label, x, (kind, ref) in store:
            if kind == "nd":
                ok_ = snap([x]) == ref
            elif kind == "sp":
                ok_ = (x.format, x.shape, x.toarray().tobytes(), snap(arrays_of(x))) == ref
            else:
                ok_ = x == ref and type(x) is type(ref)
            if not ok_:
                bad.append(label)
        return bad

    def run_forms(inst, table, acts, base, nt):
        """the same problem and the same calls, every argument in a random legal FORM (Python / NumPy
        scalars, 0-d arrays, list / tuple / ndarray of every integer width, float32, C / F / strided /
        reversed views, sparse csr / csc / coo / lil with int32 / int64 indices and stored zeros, optional
        arguments omitted / None / positional / keyword). Judged by the exact oracle and by the model
        (the request lines are those of the canonical form)."""
        import scipy.sparse as sp
        n = inst.n
        kept = []
        small_ok = inst.scale == 1
        desc = []

        def fail(key, what):
            ctx.spec_fail(key, what + " [forms: " + " ; ".join(desc) + "]", inst.replay(forms=list(desc)))

        # ---- constructor
        f = lambda r: -math.inf if r is NINF else float(r)
        beta = form_scalar01(inst.beta, "beta")
        desc.append("beta=%r" % (beta,))
        exotic = "free"      # product form: pure NumPy, every argument varies freely
        if inst.form == "prod":
            Rl = [[f(r) for r in row] for row in inst.R]
            Ql = [[[float(x) for x in q] for q in qs] for qs in inst.Q]
            k = rng.randrange(4)
            if k == 0:
                Rf, Qf = Rl, Ql
                desc.append("R,Q nested lists")
            elif k == 1:
                Rf, Qf = tuple(tuple(r) for r in Rl), tuple(tuple(tuple(q) for q in qs) for qs in Ql)
                desc.append("R,Q nested tuples")
            else:
                allfin = all(r is not NINF for row in inst.R for r in row)
                rdt = rng.choice([np.float64, np.float32] if small_ok else [np.float64])
                if small_ok and allfin and rng.random() < 0.4:
                    rdt = rng.choice([np.int64, np.int32, np.int8])
                Rf, lay1 = views(np.array(Rl, dtype=float).astype(rdt))
                qdt = rng.choice([np.float64, np.float32])
                Qf, lay2 = views(np.array(Ql, dtype=qdt))
                desc.append("R %s %s, Q %s %s" % (np.dtype(rdt).name, lay1, np.dtype(qdt).name, lay2))
                ctx.count("forms:R:%s" % np.dtype(rdt).name)
                ctx.count("forms:Q:%s-%s" % (np.dtype(qdt).name, lay2))
            keep_input(kept, "R", Rf)
            keep_input(kept, "Q", Qf)
            try:
                df = DiscreteDP(Rf, Qf, beta) if rng.random() < 0.5 else DiscreteDP(R=Rf, Q=Qf, beta=beta)
            except Exception as e:
                fail("forms_ctor", "constructor rejected a legal argument form: %s" % err_str(e))
                return
        else:
            L = len(inst.pairs)
            Rl = [f(p_[2]) for p_ in inst.pairs]
            Ql = [[float(x) for x in p_[3]] for p_ in inst.pairs]
            # arrays of an SA instance reach the Numba kernels: ONE argument family per instance gets an unusual
            # representation (dtype / layout), the others stay plain, so that the number of JIT specialisations per run
            # grows with the sum, not the product, of the alternatives
            exotic = rng.choice(["idx", "idx", "R", "Q", "sigma", "none"])
            desc.append("exotic=" + exotic)
            if exotic == "idx":
                idt_ = rng.choice(PALETTE)
                sidx = form_ints([p_[0] for p_ in inst.pairs], "s_indices", idt_)
                aidx = form_ints([p_[1] for p_ in inst.pairs], "a_indices", idt_)
            else:
                mk_ = rng.choice([list, tuple, lambda x: np.array(x, dtype=np.int64)])
                sidx, aidx = mk_([p_[0] for p_ in inst.pairs]), mk_([p_[1] for p_ in inst.pairs])
                ctx.count("forms:s_indices:" + type(sidx).__name__)
            allfin = all(p_[2] is not NINF for p_ in inst.pairs)
            if exotic == "R" and small_ok:
                rdt = rng.choice([d_ for d_ in RPAL if allfin or np.dtype(d_).kind == "f"] or [np.float64])
                Rf = np.array(Rl, dtype=float).astype(rdt)
                if rng.random() < 0.3:
                    Rf = np.ascontiguousarray(Rf[::-1])[::-1]
                ctx.count("forms:R:%s" % np.dtype(rdt).name)
            else:
                Rf = rng.choice([list, tuple, lambda x: np.array(x, dtype=float)])(Rl)
                if inst.sparse and not isinstance(Rf, np.ndarray):
                    Rf = np.array(Rl, dtype=float)
            qdt = np.float32 if (exotic == "Q" and small_ok and rng.random() < 0.5) else np.float64
            Qd = np.array(Ql, dtype=qdt).reshape(L, n)
            if inst.sparse:
                fmt = rng.choice(["csr", "csc", "coo", "lil"])
                idt = rng.choice([np.int32, np.int64])
                if rng.random() < 0.3:       # every entry stored, zeros included
                    Qf = sp.csr_matrix((Qd.ravel().copy(), np.tile(np.arange(n), L), np.arange(0, L * n + 1, n)), shape=(L, n))
                    zeros = "+stored-zeros"
                else:
                    Qf = sp.csr_matrix(Qd)
                    zeros = ""
                Qf = Qf.asformat(fmt)
                if fmt in ("csr", "csc"):
                    Qf.indices = Qf.indices.astype(idt)
                    Qf.indptr = Qf.indptr.astype(idt)
                elif fmt == "coo":
                    Qf = sp.coo_matrix((Qf.data, (Qf.row.astype(idt), Qf.col.astype(idt))), shape=Qf.shape)
                desc.append("Q %s %s %s%s" % (fmt, np.dtype(idt).name, np.dtype(qdt).name, zeros))
                ctx.count("forms:Q:sparse-%s-%s%s" % (fmt, np.dtype(idt).name, zeros))
            else:
                k2 = rng.randrange(3) if exotic == "Q" else 0
                if k2 == 0:
                    Qf = rng.choice([lambda x: x, lambda x: tuple(tuple(q) for q in x), lambda x: np.array(x, dtype=qdt).reshape(L, n)])(Ql)
                    desc.append("Q plain %s" % type(Qf).__name__)
                    if L == 0:
                        Qf = np.zeros((0, n))
                else:
                    Qf, lay = views(Qd)
                    desc.append("Q %s %s" % (np.dtype(qdt).name, lay))
                    ctx.count("forms:Q:%s-%s" % (np.dtype(qdt).name, lay))
            desc.append("R %s, s %s, a %s" % (type(Rf).__name__ + (":" + Rf.dtype.name if isinstance(Rf, np.ndarray) else ""),
                                              type(sidx).__name__ + (":" + sidx.dtype.name if isinstance(sidx, np.ndarray) else ""),
                                              type(aidx).__name__ + (":" + aidx.dtype.name if isinstance(aidx, np.ndarray) else "")))
            for lab, x in (("R", Rf), ("Q", Qf), ("s_indices", sidx), ("a_indices", aidx)):
                keep_input(kept, lab, x)
            try:
                df = DiscreteDP(Rf, Qf, beta, sidx, aidx) if rng.random() < 0.5 else \
                    DiscreteDP(Rf, Qf, beta, a_indices=aidx, s_indices=sidx)
            except Exception as e:
                fail("forms_ctor", "constructor rejected a legal argument form: %s" % err_str(e))
                return
        cases.append(Case("C09 ctor " + base, canon_ddp(df), nontrivial=nt, tag="forms"))
        bad = inputs_unchanged(kept)
        if bad:
            fail("forms_input_mutated", "the constructor modified its argument(s) %s" % bad)
        obj_arrs = arrays_of(df)
        obj_snap = snap(obj_arrs)

        def after(label):
            bad_ = inputs_unchanged(kept)
            if bad_:
                fail("forms_input_mutated", "%s modified its argument(s) %s" % (label, bad_))
            if snap(obj_arrs) != obj_snap:
                fail("forms_object_mutated", "%s changed the object's stored arrays" % label)

        returned = []

        def guarded(label, fn, own=()):
            try:
                res_ = fn()
            except Exception as e:
                fail("forms_rejected", "%s raised %s on a legal argument form" % (label, err_str(e)))
                return False, None
            if hasattr(res_, "_sa_pair") and res_ is df:
                return True, res_
            for x in arrays_of(res_):
                if any(x is o or (o.base is not None and x.base is o.base and x.shape == o.shape and x.strides == o.strides
                                  and x.__array_interface__["data"] == o.__array_interface__["data"]) for o in own):
                    continue
                for lab_, inp, _ in kept:
                    for y in arrays_of(inp):
                        if shares(x, y):
                            fail("forms_alias_input", "the result of %s shares memory with the argument %s" % (label, lab_))
                for y in obj_arrs:
                    if shares(x, y):
                        fail("forms_alias_object", "the result of %s shares memory with an array stored in the object" % label)
                for lab_, y in returned:
                    if shares(x, y):
                        fail("forms_alias_result", "the result of %s shares memory with the earlier result of %s" % (label, lab_))
                returned.append((label, x))
            return True, res_

        # ---- bellman_operator / compute_greedy
        for _ in range(2):
            vex = gen_v(inst, "small") if small_ok else gen_v(inst)
            if small_ok and rng.random() < 0.5:
                vex = [x + Fraction(rng.randint(0, 3), 4) for x in vex]     # not integer-valued (dtype casts would show)
            elif small_ok and rng.random() < 0.4:
                vex = gen_v(inst, rng.choice(["large", "mixed", "neg"]))
            smallv = small_ok and all(abs(x) <= 9 for x in vex) and (
                not isinstance(getattr(df, "R", None), np.ndarray) or True)
            vf = form_floats(vex, "v", smallv)
            keep_input(kept, "v", vf)
            desc.append("v %s" % (type(vf).__name__ + (":" + vf.dtype.name if isinstance(vf, np.ndarray) else "")))
            ev = exact_vals(inst, vex)
            want_Tv = [vmax(ev[s_].values()) for s_ in range(n)]
            how = rng.choice(["omitted", "None-kw", "positional", "keyword", "strided-out", "greedy", "greedy-pos"])
            if how == "strided-out" and exotic not in ("free", "none"):
                how = "positional"
            desc.append("bellman outputs %s" % how)
            ctx.count("forms:bellman-out:" + how)
            Tv = sg = None
            if how == "omitted":
                ok_, Tv = guarded("bellman_operator", lambda: df.bellman_operator(vf))
            elif how == "None-kw":
                ok_, Tv = guarded("bellman_operator", lambda: df.bellman_operator(v=vf, Tv=None, sigma=None))
            elif how == "positional":
                t0, s0 = np.full(n, 5.0), np.full(n, -3, dtype=int)
                ok_, Tv = guarded("bellman_operator", lambda: df.bellman_operator(vf, t0, s0), own=(t0, s0))
                sg = s0
            elif how == "keyword":
                t0, s0 = np.full(n, 5.0), np.full(n, -3, dtype=rng.choice([np.intp, np.int64]))
                ok_, Tv = guarded("bellman_operator", lambda: df.bellman_operator(sigma=s0, Tv=t0, v=vf), own=(t0, s0))
                sg = s0
            elif how == "strided-out":
                tb, sb = np.full(2 * n, 5.0), np.full(2 * n, -3, dtype=int)
                tv_, sv_ = tb[::2], sb[::2]
                ok_, Tv = guarded("bellman_operator", lambda: df.bellman_operator(vf, tv_, sv_), own=(tv_, sv_))
                sg = sv_
                if ok_ and (np.any(tb[1::2] != 5.0) or np.any(sb[1::2] != -3)):
                    fail("forms_out_stride", "bellman_operator wrote outside the strided output views")
            elif how == "greedy":
                ok_, sg = guarded("compute_greedy", lambda: df.compute_greedy(vf))
            else:
                s0 = np.full(n, -3, dtype=int)
                ok_, sg = guarded("compute_greedy", lambda: df.compute_greedy(vf, s0), own=(s0,))
            if not ok_:
                continue
            if Tv is not None:
                if [fe(x) for x in Tv] != want_Tv:
                    fail("bellman_operator", "Tv=%s but max_a r+beta*q.v = %s" % (exts(Tv), [str(x) for x in want_Tv]))
                cases.append(Case("C09 bellmanTv %s v=%s" % (base, rats(vex)), "Tv=" + exts(Tv), nontrivial=nt, tag="forms"))
            if sg is not None:
                if any(int(sg[s_]) not in ev[s_] or ev[s_][int(sg[s_])] != want_Tv[s_] for s_ in range(n)):
                    fail("greedy_attains", "sigma=%s is not a feasible maximiser" % ints(sg))
                cases.append(Case("C09 greedy %s v=%s" % (base, rats(vex)), "sigma=" + ints(sg), nontrivial=nt, tag="forms"))
            after("bellman_operator/compute_greedy")

        # ---- policies
        sigma = [rng.choice(a) for a in acts]
        if exotic in ("free", "sigma"):
            sgf = form_ints(sigma, "sigma")
        else:
            sgf = rng.choice([list, tuple, lambda x: np.array(x, dtype=np.int64)])(sigma)
            ctx.count("forms:sigma:" + type(sgf).__name__)
        keep_input(kept, "sigma", sgf)
        desc.append("sigma %s" % (type(sgf).__name__ + (":" + sgf.dtype.name if isinstance(sgf, np.ndarray) else "")))
        Rw = [table[s_][sigma[s_]][0] for s_ in range(n)]
        Qw = [list(table[s_][sigma[s_]][1]) for s_ in range(n)]
        ok_, rq = guarded("RQ_sigma", lambda: df.RQ_sigma(sgf) if rng.random() < 0.5 else df.RQ_sigma(sigma=sgf))
        if ok_:
            if [fe(x) for x in rq[0]] != Rw or [[Fraction(float(x)) for x in r_] for r_ in dense(rq[1])] != Qw:
                fail("RQ_sigma", "RQ_sigma(%s) does not select the rows of the chosen actions" % sigma)
            cases.append(Case("C09 rqsigma %s sigma=%s" % (base, ints(sigma)), "R=%s|Q=%s" % (exts(rq[0]), extm(dense(rq[1]))),
                              nontrivial=nt, tag="forms"))
        ok_, mc = guarded("controlled_mc", lambda: df.controlled_mc(sgf))
        if ok_ and [[Fraction(float(x)) for x in r_] for r_ in dense(mc.P)] != Qw:
            fail("controlled_mc", "controlled_mc(%s).P is not Q_sigma" % sigma)
        vex = gen_v(inst, "small") if small_ok else gen_v(inst)
        if small_ok and rng.random() < 0.5:
            vex = [x + Fraction(rng.randint(0, 3), 4) for x in vex]
        vf = form_floats(vex, "v", small_ok)
        keep_input(kept, "v", vf)
        ok_, out = guarded("T_sigma", lambda: df.T_sigma(sgf)(vf))
        if ok_:
            want = [NINF if Rw[s_] is NINF else Rw[s_] + inst.beta * sum(x * y for x, y in zip(Qw[s_], vex)) for s_ in range(n)]
            if [fe(x) for x in out] != want:
                fail("T_sigma", "T_sigma(%s)(v) is not R_sigma + beta Q_sigma v" % sigma)
            cases.append(Case("C09 tsigma %s sigma=%s v=%s" % (base, ints(sigma), rats(vex)), exts(out), nontrivial=nt, tag="forms"))
        if inst.beta != 1 and all(r_ is not NINF for r_ in Rw):
            ok_, vs_ = guarded("evaluate_policy", lambda: df.evaluate_policy(sgf))
            if ok_:
                A = [[(1 if i == j else 0) - inst.beta * Qw[i][j] for j in range(n)] for i in range(n)]
                xs = solve_exact(A, Rw)
                sc = max([1] + [abs(x) for x in xs])
                if not np.all(np.isfinite(vs_)) or any(abs(Fraction(float(vs_[i])) - xs[i]) > Fraction(1, 10 ** 9) * sc for i in range(n)):
                    fail("evaluate_policy", "evaluate_policy(%s) is off the exact fixed point" % sigma)
        after("RQ_sigma/controlled_mc/T_sigma/evaluate_policy")

        # ---- backward induction
        if small_ok:
            T = rng.randint(0, 3)
            Tf = rng.choice([int, np.int8, np.int16, np.int32, np.int64, np.uint8, np.uint16, np.uint32, np.uint64, np.intp,
                             lambda y: np.array(y)])(T)
            how = rng.choice(["omitted", "None", "positional", "keyword"])
            vt = None if how in ("omitted", "None") else [Fraction(rng.randint(-16, 16)) for _ in range(n)]
            vtf = None if vt is None else form_floats(vt, "v_term", True)
            if vtf is not None:
                keep_input(kept, "v_term", vtf)
            desc.append("backward T=%r v_term %s" % (Tf, how))
            ctx.count("forms:T:%s" % (type(Tf).__name__ + ("-0d" if isinstance(Tf, np.ndarray) else "")))
            ctx.count("forms:v_term:" + how)
            if how == "omitted":
                ok_, res = guarded("backward_induction", lambda: backward_induction(df, Tf))
            elif how == "None":
                ok_, res = guarded("backward_induction", lambda: backward_induction(df, Tf, None))
            elif how == "positional":
                ok_, res = guarded("backward_induction", lambda: backward_induction(df, Tf, vtf))
            else:
                ok_, res = guarded("backward_induction", lambda: backward_induction(v_term=vtf, T=Tf, ddp=df))
            if ok_:
                vsb, sgb = res
                curv = vt if vt is not None else [Fraction(0)] * n
                good = vsb.shape == (T + 1, n) and sgb.shape == (T, n) and [fe(x) for x in vsb[T]] == curv
                for t in range(T, 0, -1):
                    if not good:
                        break
                    ev = exact_vals(inst, curv)
                    curv = [vmax(ev[s_].values()) for s_ in range(n)]
                    good = [fe(x) for x in vsb[t - 1]] == curv and all(
                        int(sgb[t - 1][s_]) in ev[s_] and ev[s_][int(sgb[t - 1][s_])] == curv[s_] for s_ in range(n))
                if not good:
                    fail("backward_induction", "vs/sigmas are not the exact backward recursion (T=%d)" % T)
                cases.append(Case("C09 backward %s T=%d vterm=%s" % (base, T, "none" if vt is None else rats(vt)),
                                  "vs=%s|sigmas=%s" % (extm(vsb), intm(sgb)), nontrivial=nt and T >= 1, tag="forms"))
            after("backward_induction")

        # ---- form conversion
        if inst.form == "prod":
            flag = rng.choice(["omitted", True, False, 1, 0, np.bool_(True), np.bool_(False)])
            desc.append("to_sa_pair_form(%r)" % (flag,))
            ok_, e = guarded("to_sa_pair_form", lambda: df.to_sa_pair_form() if isinstance(flag, str) else (
                df.to_sa_pair_form(flag) if rng.random() < 0.5 else df.to_sa_pair_form(sparse=flag)))
            if ok_:
                wants_sparse = True if isinstance(flag, str) else bool(flag)
                if sp.issparse(e.Q) != wants_sparse:
                    fail("forms_sparse_flag", "to_sa_pair_form(sparse=%r) returned a %s Q" % (flag, type(e.Q).__name__))
                got = {(int(s_), int(a_)): (fe(r), [Fraction(float(x)) for x in q])
                       for s_, a_, r, q in zip(e.s_indices, e.a_indices, e.R, dense(e.Q))}
                want = {(s_, a_): (rq_[0], list(rq_[1])) for s_ in table for a_, rq_ in table[s_].items()}
                if got != want:
                    fail("to_sa_pair_form", "pairs / rewards / rows differ from the feasible pairs of the product form")
                cases.append(Case("C09 tosa " + base, canon_ddp(e), nontrivial=True, tag="forms"))
        else:
            ok_, e = guarded("to_product_form", lambda: df.to_product_form())
            if ok_:
                cases.append(Case("C09 toprod " + base, canon_ddp(e), nontrivial=True, tag="forms"))
        after("form conversion")
        ctx.count("forms:runs")

    # ---------------------------------------------------------------- valid instances
    n_inst = ctx.n(200, 5000)
    bc_jobs = []      # (inst, v, in-process ctor string, in-process bellman string)
    for ii in range(n_inst):
        inst = gen_valid()
        base = inst.line()
        table = inst.table()
        nt = any(len(a) >= 2 for a in table.values())
        ctx.count("form:" + inst.form + ("-sparse" if inst.sparse else ""))
        ctx.count("n=%d" % inst.n)
        if inst.beta in (0, 1):
            ctx.count("beta=%s" % inst.beta)
        try:
            d = construct(inst)
        except Exception as e:
            ctx.spec_fail("ctor_valid", "constructor rejected an admissible instance: %s" % err_str(e), inst.replay())
            cases.append(Case("C09 ctor " + base, err_str(e), tag="ctor"))
            continue
        cstr = canon_ddp(d)
        resorted = inst.form == "sa" and getattr(inst, "order", "sorted") != "sorted" and \
            [(p[0], p[1]) for p in inst.pairs] != sorted((p[0], p[1]) for p in inst.pairs)
        if resorted:
            ctx.count("ctor:resorted")
        cases.append(Case("C09 ctor " + base, cstr, nontrivial=resorted or inst.form == "prod", tag="ctor"))
        # spec for the constructor of an SA instance: pairs in lexicographic order carrying their own data
        if inst.form == "sa":
            want = sorted(inst.pairs, key=lambda p: (p[0], p[1]))
            got = list(zip(d.s_indices.tolist(), d.a_indices.tolist(), [fe(x) for x in d.R],
                           [[Fraction(float(x)) for x in row] for row in dense(d.Q)]))
            if got != [(p[0], p[1], p[2], list(p[3])) for p in want]:
                ctx.spec_fail("ctor_resort", "after construction the pairs are not the given pairs in (s,a) order with their "
                              "own rewards/transition rows", inst.replay(got=cstr))
            ptr = [sum(1 for p in want if p[0] < k) for k in range(inst.n + 1)]
            if d.a_indptr.tolist() != ptr:
                ctx.spec_fail("ctor_indptr", "a_indptr %s, expected %s" % (d.a_indptr.tolist(), ptr), inst.replay())

        # ---- bellman_operator / compute_greedy
        vs_ = [gen_v(inst) for _ in range(ctx.n(3, 4))]
        for v in vs_:
            vf = np.array([float(x) for x in v])
            ev = exact_vals(inst, v)
            want_Tv = [vmax(ev[s].values()) for s in range(inst.n)]
            variant = rng.randrange(4)
            if variant == 0:
                Tv = d.bellman_operator(vf)
                sg = None
                ctx.count("bellman:no-out")
                cases.append(Case("C09 bellmanTv %s v=%s" % (base, rats(v)), "Tv=" + exts(Tv), nontrivial=nt, tag="bellman"))
            elif variant == 1:
                Tv0 = np.full(inst.n, 123.0)
                sg = np.full(inst.n, -7, dtype=int)
                Tv = d.bellman_operator(vf, Tv=Tv0, sigma=sg)
                if Tv is not Tv0:
                    ctx.spec_fail("bellman_out", "bellman_operator did not return the supplied Tv array", inst.replay(v=rats(v)))
                ctx.count("bellman:Tv+sigma-supplied")
                cases.append(Case("C09 bellman %s v=%s" % (base, rats(v)), "Tv=%s|sigma=%s" % (exts(Tv), ints(sg)),
                                  nontrivial=nt, tag="bellman"))
            elif variant == 2:
                sg = np.full(inst.n, -7, dtype=int)
                Tv = d.bellman_operator(vf, sigma=sg)
                ctx.count("bellman:sigma-supplied")
                cases.append(Case("C09 bellman %s v=%s" % (base, rats(v)), "Tv=%s|sigma=%s" % (exts(Tv), ints(sg)),
                                  nontrivial=nt, tag="bellman"))
            else:
                if rng.random() < 0.5:
                    sg = d.compute_greedy(vf)
                    ctx.count("greedy:no-out")
                else:
                    sg0 = np.full(inst.n, -7, dtype=int)
                    sg = d.compute_greedy(vf, sigma=sg0)
                    if sg is not sg0:
                        ctx.spec_fail("greedy_out", "compute_greedy did not return the supplied array", inst.replay(v=rats(v)))
                    ctx.count("greedy:sigma-supplied")
                Tv = None
                cases.append(Case("C09 greedy %s v=%s" % (base, rats(v)), "sigma=" + ints(sg), nontrivial=nt, tag="greedy"))
            # exact oracle on the code's outputs
            if Tv is not None:
                got = [fe(x) for x in Tv]
                if got != want_Tv:
                    ctx.spec_fail("bellman_operator", "Tv=%s but max_a r+beta*q.v = %s" % (exts(Tv), [str(x) for x in want_Tv]),
                                  inst.replay(v=rats(v)))
            if sg is not None:
                for s in range(inst.n):
                    a = int(sg[s])
                    if a not in ev[s]:
                        ctx.spec_fail("greedy_feasible", "sigma[%d]=%d is not a feasible action" % (s, a), inst.replay(v=rats(v)))
                    elif ev[s][a] != want_Tv[s]:
                        ctx.spec_fail("greedy_attains", "sigma[%d]=%d does not attain the maximum" % (s, a), inst.replay(v=rats(v)))
                    else:
                        best = sorted(b for b, x in ev[s].items() if x == want_Tv[s])
                        if len(best) >= 2:
                            ctx.count("argmax:tie")
                        if a == max(ev[s]) and len(ev[s]) >= 2:
                            ctx.count("argmax:last-feasible-action")
                        if a == min(ev[s]) and len(ev[s]) >= 2:
                            ctx.count("argmax:first-feasible-action")
        if ii % 3 == 0 and inst.scale == 1:
            v = gen_v(inst, "small")
            bc_jobs.append((inst, v, cstr, None))

        # ---- policies: RQ_sigma, controlled_mc, T_sigma, evaluate_policy
        acts = [sorted(table[s]) for s in range(inst.n)]
        npol = 1
        for a in acts:
            npol *= len(a)
        if npol <= ctx.n(8, 40):
            pols = list(itertools.product(*acts))
            ctx.count("policies:all-feasible")
        else:
            pols = [tuple(rng.choice(a) for a in acts) for _ in range(ctx.n(3, 8))]
            ctx.count("policies:sampled")
        for sigma in pols:
            sig = np.array(sigma, dtype=int)
            sline = "sigma=" + ints(sigma)
            Rw = [table[s][sigma[s]][0] for s in range(inst.n)]
            Qw = [list(table[s][sigma[s]][1]) for s in range(inst.n)]
            Rs, Qs = d.RQ_sigma(sig if rng.random() < 0.5 else list(sigma))
            Qs = dense(Qs)
            if [fe(x) for x in Rs] != Rw or [[Fraction(float(x)) for x in r] for r in Qs] != Qw:
                ctx.spec_fail("RQ_sigma", "RQ_sigma(%s) does not select the rows of the chosen actions" % (list(sigma),),
                              inst.replay(sigma=list(sigma)))
            cases.append(Case("C09 rqsigma %s %s" % (base, sline), "R=%s|Q=%s" % (exts(Rs), extm(Qs)), nontrivial=nt, tag="rqsigma"))
            stoch_ok = True
            try:
                mc = d.controlled_mc(sig)
                P = dense(mc.P)
                if [[Fraction(float(x)) for x in r] for r in P] != Qw:
                    ctx.spec_fail("controlled_mc", "controlled_mc(%s).P is not Q_sigma" % (list(sigma),), inst.replay(sigma=list(sigma)))
                cases.append(Case("C09 cmc %s %s" % (base, sline), "P=" + extm(P), nontrivial=nt, tag="cmc"))
            except Exception as e:   # not expected: all rows are probability vectors
                ctx.spec_fail("controlled_mc", "controlled_mc raised %s" % err_str(e), inst.replay(sigma=list(sigma)))
            v = gen_v(inst, rng.choice(["small", "large", "mixed"]))
            vf = np.array([float(x) for x in v])
            Tsv = d.T_sigma(sig)(vf)
            wantT = [NINF if Rw[s] is NINF else Rw[s] + inst.beta * sum(x * y for x, y in zip(Qw[s], v)) for s in range(inst.n)]
            if [fe(x) for x in Tsv] != wantT:
                ctx.spec_fail("T_sigma", "T_sigma(%s)(v) is not R_sigma + beta Q_sigma v" % (list(sigma),),
                              inst.replay(sigma=list(sigma), v=rats(v)))
            cases.append(Case("C09 tsigma %s %s v=%s" % (base, sline, rats(v)), exts(Tsv), nontrivial=nt, tag="tsigma"))
            # evaluate_policy
            if inst.beta == 1:
                try:
                    d.evaluate_policy(sig)
                    out = "no-error"
                except NotImplementedError:
                    out = "ERR:NotImplementedError"
                if out != "ERR:NotImplementedError":
                    ctx.spec_fail("evaluate_policy_beta1", "evaluate_policy with beta=1 did not raise NotImplementedError",
                                  inst.replay(sigma=list(sigma)))
                ctx.count("evalpol:beta=1")
                cases.append(Case("C09 evalpol %s %s" % (base, sline), out, tag="evalpol"))
            elif all(r is not NINF for r in Rw):
                vsig = d.evaluate_policy(sig)
                if not np.all(np.isfinite(vsig)):
                    ctx.spec_fail("evaluate_policy", "evaluate_policy(%s) returned non-finite values" % (list(sigma),),
                                  inst.replay(sigma=list(sigma), got=[float(x) for x in vsig]))
                    cases.append(Case("C09 evalpol %s %s" % (base, sline), "nonfinite", nontrivial=nt, tag="evalpol"))
                    continue
                A = [[(1 if i == j else 0) - inst.beta * Qw[i][j] for j in range(inst.n)] for i in range(inst.n)]
                xs = solve_exact(A, Rw)
                sc = max([1] + [abs(x) for x in xs])
                bad = [i for i in range(inst.n) if abs(Fraction(float(vsig[i])) - xs[i]) > Fraction(1, 10 ** 9) * sc]
                if bad:
                    ctx.spec_fail("evaluate_policy", "evaluate_policy(%s) is off the exact fixed point by more than 1e-9*scale"
                                  % (list(sigma),), inst.replay(sigma=list(sigma), got=[float(x) for x in vsig]))

                def cmp_env(mo, impl, _sc=sc):
                    if mo.startswith("ERR") or mo == "undef":
                        return "model: " + mo
                    a_, b_ = parse_rats(mo), parse_rats(impl)
                    if len(a_) != len(b_):
                        return "lengths differ"
                    for x, y in zip(a_, b_):
                        if abs(x - y) > Fraction(1, 10 ** 9) * _sc:
                            return "outside 1e-9*scale"
                    return None
                cases.append(Case("C09 evalpol %s %s" % (base, sline), ",".join(fx(x) for x in vsig), nontrivial=nt,
                                  cmp=cmp_env, tag="evalpol"))
        # product form only: a policy using an infeasible action (reward -inf) — rows are still "the chosen rows"
        if inst.form == "prod" and any(len(acts[s]) < inst.m for s in range(inst.n)) and rng.random() < 0.5:
            sigma = [rng.randrange(inst.m) for _ in range(inst.n)]
            Rs, Qs = d.RQ_sigma(np.array(sigma))
            ctx.count("rqsigma:infeasible-action-prod")
            cases.append(Case("C09 rqsigma %s sigma=%s" % (base, ints(sigma)), "R=%s|Q=%s" % (exts(Rs), extm(Qs)), tag="rqsigma"))

        # ---- backward induction
        if inst.scale == 1:
            for _ in range(ctx.n(2, 3)):
                T = rng.choice([0, 1, 2, 3, 5, 8, rng.randint(0, 8)])
                if rng.random() < 0.3:
                    vt, vtl = None, "none"
                else:
                    vt = [Fraction(rng.randint(-16, 16)) for _ in range(inst.n)]
                    vtl = rats(vt)
                vsb, sgb = backward_induction(d, T, None if vt is None else np.array([float(x) for x in vt]))
                ctx.count("backward:T=%d" % T)
                cases.append(Case("C09 backward %s T=%d vterm=%s" % (base, T, vtl),
                                  "vs=%s|sigmas=%s" % (extm(vsb), intm(sgb)), nontrivial=nt and T >= 1, tag="backward"))
                # exact recursion
                cur = vt if vt is not None else [Fraction(0)] * inst.n
                ok = vsb.shape == (T + 1, inst.n) and sgb.shape == (T, inst.n) and [fe(x) for x in vsb[T]] == cur
                for t in range(T, 0, -1):
                    if not ok:
                        break
                    ev = exact_vals(inst, cur)
                    nxt = [vmax(ev[s].values()) for s in range(inst.n)]
                    if [fe(x) for x in vsb[t - 1]] != nxt:
                        ok = False
                        break
                    for s in range(inst.n):
                        a = int(sgb[t - 1][s])
                        if a not in ev[s] or ev[s][a] != nxt[s]:
                            ok = False
                    cur = nxt
                if not ok:
                    ctx.spec_fail("backward_induction", "vs/sigmas are not the exact backward recursion (T=%d)" % T,
                                  inst.replay(T=T, vterm=vtl, vs=extm(vsb), sigmas=intm(sgb)))
                # brute force over all Markov policy sequences on tiny instances
                if ok and 1 <= T <= 3 and npol ** T <= 600:
                    allp = list(itertools.product(*acts))
                    vT = vt if vt is not None else [Fraction(0)] * inst.n
                    best = None
                    for seq in itertools.product(allp, repeat=T):
                        w = vT
                        good = True
                        for sg_ in reversed(seq):
                            w2 = []
                            for s in range(inst.n):
                                r, q = table[s][sg_[s]]
                                if r is NINF:
                                    good = False
                                    break
                                w2.append(r + inst.beta * sum(x * y for x, y in zip(q, w)))
                            if not good:
                                break
                            w = w2
                        if good:
                            best = w if best is None else [max(x, y) for x, y in zip(best, w)]
                    ctx.count("backward:brute-force")
                    if best is not None and [fe(x) for x in vsb[0]] != best:
                        ctx.spec_fail("backward_optimal", "vs[0] is not the maximum over all policy sequences (T=%d)" % T,
                                      inst.replay(T=T, vterm=vtl))

        # ---- form conversion
        if inst.form == "prod":
            sp_flag = rng.random() < 0.5
            e = d.to_sa_pair_form(sparse=sp_flag)
            cases.append(Case("C09 tosa " + base, canon_ddp(e), nontrivial=True, tag="tosa"))
            got = {(int(s), int(a)): (fe(r), [Fraction(float(x)) for x in q])
                   for s, a, r, q in zip(e.s_indices, e.a_indices, e.R, dense(e.Q))}
            want = {(s, a): (rq[0], list(rq[1])) for s in table for a, rq in table[s].items()}
            if got != want or len(e.R) != len(want):
                ctx.spec_fail("to_sa_pair_form", "pairs / rewards / transition rows differ from the feasible pairs of the product form",
                              inst.replay())
            back = e.to_product_form()
            cases.append(Case("C09 tosa_toprod " + base, canon_ddp(back), nontrivial=True, tag="roundtrip"))
            okrt = back.num_states == inst.n
            for s in range(inst.n):
                for a in range(inst.m):
                    if a < back.R.shape[1]:
                        if fe(back.R[s, a]) != inst.R[s][a]:
                            okrt = False
                        if inst.R[s][a] is not NINF and [Fraction(float(x)) for x in back.Q[s, a]] != list(inst.Q[s][a]):
                            okrt = False
                    elif inst.R[s][a] is not NINF:
                        okrt = False
            if back.R.shape[1] < inst.m:
                ctx.count("roundtrip:trailing-infeasible-actions-dropped")
            if not okrt:
                ctx.spec_fail("form_roundtrip", "to_product_form(to_sa_pair_form(d)) changed rewards/transitions/feasibility",
                              inst.replay())
            if d.to_product_form() is not d:
                ctx.spec_fail("to_product_form_self", "to_product_form of a product instance is not the instance", inst.replay())
        else:
            e = d.to_product_form()
            cases.append(Case("C09 toprod " + base, canon_ddp(e), nontrivial=True, tag="toprod"))
            okp = e.num_states == inst.n
            for s in range(inst.n):
                for a in range(e.R.shape[1]):
                    if a in table[s]:
                        r, q = table[s][a]
                        if fe(e.R[s, a]) != r or [Fraction(float(x)) for x in e.Q[s, a]] != list(q):
                            okp = False
                    elif fe(e.R[s, a]) is not NINF:
                        okp = False
            if any(a >= e.R.shape[1] for s in table for a in table[s]):
                okp = False
            if not okp:
                ctx.spec_fail("to_product_form", "product form differs from the pairs (rewards / rows / feasibility)", inst.replay())
            back = e.to_sa_pair_form(sparse=rng.random() < 0.5)
            cases.append(Case("C09 toprod_tosa " + base, canon_ddp(back), nontrivial=True, tag="roundtrip"))
            got = {(int(s), int(a)): (fe(r), [Fraction(float(x)) for x in q])
                   for s, a, r, q in zip(back.s_indices, back.a_indices, back.R, dense(back.Q))}
            want = {(s, a): (rq[0], list(rq[1])) for s in table for a, rq in table[s].items() if rq[0] is not NINF}
            if got != want:
                ctx.spec_fail("form_roundtrip_sa", "to_sa_pair_form(to_product_form(d)) is not d on the pairs with finite reward",
                              inst.replay())
            if d.to_sa_pair_form() is not d:
                ctx.spec_fail("to_sa_pair_form_self", "to_sa_pair_form of an SA instance is not the instance", inst.replay())

        # ---- histories: many calls on ONE object, every earlier result kept and re-checked
        run_history(inst, table, acts, base, nt)

        # ---- argument forms: the same problem, every argument in a random legal representation
        run_forms(inst, table, acts, base, nt)


    # ---------------------------------------------------------------- argument handling: formulation dispatch
    def run_dispatch():
        """`__init__` decides from the SHAPES of R, Q (dense 2-D / 3-D or sparse) and the presence / lengths of
        s_indices, a_indices which formulation it builds, or which ValueError it raises. Mostly well-shaped
        arguments (all three formulations) plus a malformed stream: one dimension off by one, a dimension
        dropped / added (0-d, 1-d, 4-d), R and Q of the other formulation, index arrays missing or of the
        wrong length. Model: `dispatch`; oracle: the documented rule (anything else must be ValueError)."""
        import scipy.sparse as sp

        def documented(rs, qs, sparse, sl, al):
            if (sparse or len(qs) == 2) and len(qs) == 2 and list(rs) == [qs[0]] and sl == qs[0] and al == qs[0]:
                return "sa|L=%d|n=%d|sparse=%d" % (qs[0], qs[1], 1 if sparse else 0)
            if not sparse and len(qs) == 3 and len(rs) == 2 and list(qs) == [rs[0], rs[1], rs[0]]:
                return "prod|n=%d|m=%d" % (rs[0], rs[1])
            return None

        for _ in range(ctx.n(120, 1200)):
            n, m = rng.randint(1, 4), rng.randint(1, 3)
            kind = rng.choice(["sa", "sasp", "prod"])
            if kind == "prod":
                rs, qs, sparse, sl, al = [n, m], [n, m, n], False, rng.choice([None, None, n * m]), None
                if sl is not None:
                    al = sl          # index arrays are ignored in product form
            else:
                L = rng.randint(n, n + 3)
                rs, qs, sparse, sl, al = [L], [L, n], kind == "sasp", L, L
            mut = rng.choice(["none", "none", "r-off", "q-off", "r-drop", "r-add", "q-drop", "q-add", "swap", "s-none", "a-none",
                              "both-none", "s-len", "a-len"])
            if mut == "r-off":
                i_ = rng.randrange(len(rs))
                rs[i_] = max(1, rs[i_] + rng.choice([-1, 1]))
            elif mut == "q-off":
                i_ = rng.randrange(len(qs))
                qs[i_] = max(1, qs[i_] + rng.choice([-1, 1]))
            elif mut == "r-drop":
                rs = rs[:-1]
            elif mut == "r-add":
                rs = rs + [rng.randint(1, 2)]
            elif mut == "q-drop" and not sparse:
                qs = qs[:-1]
            elif mut == "q-add" and not sparse:
                qs = qs + [rng.randint(1, 2)]
            elif mut == "swap":
                if kind == "prod":
                    rs = [n * m]
                else:
                    rs = [rs[0], 1]
            elif mut == "s-none":
                sl = None
            elif mut == "a-none":
                al = None
            elif mut == "both-none":
                sl = al = None
            elif mut == "s-len" and sl is not None:
                sl = max(0, sl + rng.choice([-1, 1]))
            elif mut == "a-len" and al is not None:
                al = max(0, al + rng.choice([-1, 1]))
            ctx.count("dispatch:mutation:" + mut)
            R = np.zeros(tuple(rs))
            Qd = np.zeros(tuple(qs))
            if Qd.ndim >= 1:
                Qd[..., 0] = 1.0
            Q = sp.csr_matrix(Qd) if sparse else Qd
            nn = qs[1] if len(qs) >= 2 else 1

            def idx(length, which):
                if length is None:
                    return None
                ss_ = sorted(j % nn for j in range(length))
                if which == "s":
                    return ss_
                out_, seen = [], {}
                for x_ in ss_:
                    out_.append(seen.get(x_, 0))
                    seen[x_] = seen.get(x_, 0) + 1
                return out_
            s_arg, a_arg = idx(sl, "s"), idx(al, "a")
            line = "C09 dispatch r=%s q=%s sparse=%d s=%s a=%s" % (ints(rs), ints(qs), 1 if sparse else 0,
                                                                    "none" if sl is None else sl, "none" if al is None else al)
            rep = {"line": line, "R.shape": rs, "Q.shape": qs, "sparse": sparse, "len(s_indices)": sl, "len(a_indices)": al}
            try:
                with warnings.catch_warnings():
                    warnings.simplefilter("ignore")
                    d_ = DiscreteDP(R, Q, 0.5, s_arg, a_arg)
                if d_._sa_pair:
                    got = "sa|L=%d|n=%d|sparse=%d" % (d_.num_sa_pairs, d_.num_states, 1 if d_._sparse else 0)
                else:
                    got = "prod|n=%d|m=%d" % (d_.R.shape[0], d_.R.shape[1])
                    if d_.s_indices is not None or d_.a_indices is not None:
                        ctx.spec_fail("dispatch_prod_indices", "product form kept s_indices / a_indices", rep)
            except Exception as e:
                got = err_str(e)
            want = documented(rs, qs, sparse, sl, al)
            # in product form the index arrays are ignored, whatever they are
            if not sparse and len(qs) == 3 and len(rs) == 2 and list(qs) == [rs[0], rs[1], rs[0]]:
                want = "prod|n=%d|m=%d" % (rs[0], rs[1])
            if want is not None and got.startswith("ERR:ValueError:action:") and want.startswith("sa|") and qs[0] < qs[1]:
                # well-shaped, but L < n: no contents can give every state a pair, so the LATER feasibility stage
                # rejects (correctly). The shape stage was passed; that is what `dispatch` describes.
                ctx.count("dispatch:shape-stage-passed-then-infeasible(L<n)")
                got = want
            if want is not None and got != want:
                ctx.spec_fail("dispatch_accept", "well-shaped arguments: expected %s, got %s" % (want, got), rep)
            if want is None and not got.startswith("ERR:ValueError"):
                ctx.spec_fail("dispatch_reject", "ill-shaped arguments were not rejected with ValueError: %s" % got, rep)
            ctx.count("dispatch:" + (got if got.startswith("ERR") else got.split("|")[0]))
            cases.append(Case(line, got, nontrivial=(mut != "none"), tag="dispatch"))

    run_dispatch()

    # ---------------------------------------------------------------- malformed stream
    mal = []   # (inst, description, must_reject)

    def rand_pairs(n, m, empty, ninf_states=()):
        pairs = []
        for s in range(n):
            if s in empty:
                continue
            k = rng.randint(1, m)
            for a in sorted(rng.sample(range(m), k)):
                r = NINF if s in ninf_states else Fraction(rng.randint(-3, 3))
                pairs.append((s, a, r, dyadic_dist(rng, n)))
        return pairs

    # corpus: fixed regression inputs (the replays of findings F4 / F5 and relatives) run first
    cpath = os.path.join(ctx.corpus_dir, "c09_seed.json")
    if os.path.exists(cpath):
        for ent in json.load(open(cpath)):
            pairs = [(int(s_), int(a_), NINF if r_ == "ninf" else Fraction(r_), [Fraction(x) for x in q_])
                     for s_, a_, r_, q_ in ent["pairs"]]
            for sparse in (False, True):
                inst = Inst("sa", ent["n"], Fraction(ent["beta"]), pairs=pairs, sparse=sparse)
                mal.append((inst, "corpus", bool(ent["reject"]), set(ent["empty"])))

    nmax = ctx.n(4, 5)
    for n in range(1, nmax + 1):
        for k in range(1, n + 1):
            for empty in itertools.combinations(range(n), k):
                for order in ("sorted", "shuffled"):
                    m = rng.randint(1, 4)
                    pairs = rand_pairs(n, m, set(empty))
                    if order == "shuffled":
                        rng.shuffle(pairs)
                        if len(pairs) >= 2 and [(p[0], p[1]) for p in pairs] == sorted((p[0], p[1]) for p in pairs):
                            pairs.reverse()
                    inst = Inst("sa", n, Fraction(1, 2), pairs=pairs, sparse=rng.random() < 0.3)
                    where = []
                    if 0 in empty:
                        where.append("first")
                    if n - 1 in empty:
                        where.append("last")
                    if any(0 < s < n - 1 for s in empty):
                        where.append("middle")
                    mal.append((inst, "empty:" + "+".join(where) + ":" + order, True, set(empty)))
    for _ in range(ctx.n(50, 300)):
        n = rng.randint(1, 6)
        m = rng.randint(1, 5)
        bad = set(rng.sample(range(n), rng.randint(1, min(2, n))))
        kind = rng.choice(["ninf-sa", "ninf-sa-shuffled", "ninf-prod", "ninf+empty"])
        if kind == "ninf-prod":
            R = [[(NINF if (s in bad or rng.random() < 0.3) else Fraction(rng.randint(-3, 3))) for _ in range(m)] for s in range(n)]
            for s in range(n):
                if s not in bad and all(r is NINF for r in R[s]):
                    R[s][rng.randrange(m)] = Fraction(1)
            Q = [[dyadic_dist(rng, n) for _ in range(m)] for _ in range(n)]
            inst = Inst("prod", n, Fraction(3, 4), m=m, R=R, Q=Q)
            mal.append((inst, "only-ninf:prod", True, set()))
        else:
            empty = set()
            if kind == "ninf+empty":
                empty = set(rng.sample(range(n), 1)) - bad
            pairs = rand_pairs(n, m, empty, ninf_states=bad)
            if kind == "ninf-sa-shuffled" or rng.random() < 0.3:
                rng.shuffle(pairs)
            inst = Inst("sa", n, Fraction(3, 4), pairs=pairs, sparse=rng.random() < 0.3)
            mal.append((inst, "only-ninf:" + kind, True, empty))
    # other constructor errors (kinds must agree; not part of the property's rejection clause)
    for _ in range(ctx.n(6, 20)):
        n = rng.randint(2, 4)
        pairs = rand_pairs(n, 3, set())
        which = rng.choice(["beta>1", "beta<0", "coo"])
        if which == "coo":
            rng.shuffle(pairs)
            if [(p[0], p[1]) for p in pairs] == sorted((p[0], p[1]) for p in pairs):
                pairs.reverse()
            i = rng.randrange(len(pairs))
            pairs[i] = (n + rng.randint(0, 2), pairs[i][1], pairs[i][2], pairs[i][3])
            if [(p[0], p[1]) for p in pairs] == sorted((p[0], p[1]) for p in pairs):
                continue
            inst = Inst("sa", n, Fraction(1, 2), pairs=pairs)
        else:
            inst = Inst("sa", n, Fraction(5, 4) if which == "beta>1" else Fraction(-1, 4), pairs=pairs)
        mal.append((inst, "other:" + which, False, set()))

    for inst, desc, must_reject, empty in mal:
        ctx.count("malformed:" + desc)
        res = ctor_and_bellman(inst.job())[0]
        if desc == "corpus" and not must_reject and res.startswith("ERR"):
            ctx.spec_fail("ctor_valid", "constructor rejected an admissible corpus instance: %s" % res[:60], inst.replay(got=res))
        if must_reject and not res.startswith("ERR:ValueError"):
            ctx.spec_fail("ctor_rejects", "inadmissible instance (%s) was not rejected with ValueError: %s" % (desc, res[:60]),
                          inst.replay(got=res))
        if res.startswith("ERR"):
            ctx.count("ctor-error:" + ":".join(res.split(":")[1:3]))

        def cmp_err(mo, impl, _empty=empty):
            if mo == impl:
                return None
            # R_max of a state without pairs is uninitialised memory (np.empty): if it happens to be -inf the code
            # reports the *reward* message for that empty state instead of the *action* message — still ValueError
            if impl.startswith("ERR:ValueError:reward:") and mo.startswith("ERR:ValueError:") \
                    and int(impl.rsplit(":", 1)[1]) in _empty:
                ctx.count("ctor-error:uninitialised-Rmax-was-ninf")
                return None
            return "outputs differ"
        cases.append(Case("C09 ctor " + inst.line(), res, nontrivial=True, cmp=cmp_err, tag="ctor-malformed"))
        bc_jobs.append((inst, None, res, empty))

    # ---------------------------------------------------------------- bounds-checked child process
    def first_policy(inst):
        t = inst.table()
        return [min(t[s_]) for s_ in range(inst.n)]
    jobs = [inst.job(v, None if v is None else first_policy(inst)) for inst, v, _, _ in bc_jobs]
    env = dict(os.environ)
    env["NUMBA_BOUNDSCHECK"] = "1"
    env["NUMBA_CACHE_DIR"] = common.numba_cache_dir("c09_boundscheck")  # keyed by the content digest of /repo
    os.makedirs(env["NUMBA_CACHE_DIR"], exist_ok=True)
    p = subprocess.run([sys.executable, "-m", "harness.c09", "child"], input=json.dumps(jobs), cwd=VERIF, env=env,
                       stdout=subprocess.PIPE, stderr=subprocess.PIPE, text=True, timeout=600)
    if p.returncode != 0:
        sys.stdout.write("bounds-checking child failed: %s\n" % p.stderr[-2000:])
        raise SystemExit(2)
    outs = json.loads(p.stdout)
    for (inst, v, res, empty), (cres, bres, rqres, convres, bwres) in zip(bc_jobs, outs):
        ctx.count("boundscheck:runs")
        allres = [cres, bres, rqres, convres, bwres]
        if any("IndexError" in r_ for r_ in allres):
            ctx.count("boundscheck:IndexError")
            ctx.spec_fail("ctor_oob", "out-of-bounds read under NUMBA_BOUNDSCHECK=1: %s" % " ".join(r_[:60] for r_ in allres),
                          inst.replay(boundscheck=allres))
        elif cres != res:
            same_kind = cres.startswith("ERR:ValueError") and res.startswith("ERR:ValueError")
            if same_kind and empty:
                ctx.count("boundscheck:message-differs-uninitialised-Rmax")
            else:
                ctx.spec_fail("ctor_boundscheck_differs", "constructor behaves differently under bounds checking: %s vs %s"
                              % (cres[:80], res[:80]), inst.replay(boundscheck=[cres, bres]))
        if v is not None:
            # the bounds-checked run must agree with the model as well
            base = inst.line()
            if bres != "-":
                cases.append(Case("C09 bellman %s v=%s" % (base, rats(v)), bres, nontrivial=False, tag="boundscheck-ops"))
            if rqres != "-":
                cases.append(Case("C09 rqsigma %s sigma=%s" % (base, ints(first_policy(inst))), rqres, nontrivial=False,
                                  tag="boundscheck-ops"))
            if convres != "-":
                cases.append(Case("C09 %s %s" % ("toprod" if inst.form == "sa" else "tosa", base), convres, nontrivial=False,
                                  tag="boundscheck-ops"))
            if bwres != "-":
                cases.append(Case("C09 backward %s T=2 vterm=%s" % (base, rats(v)), bwres, nontrivial=False,
                                  tag="boundscheck-ops"))

    ctx.assumptions.append("evaluate_policy: LAPACK/SuperLU solve compared with the exact solution inside 1e-9*max(1,|v|) "
                           "(rounding of the linear solve is not modelled)")
    ctx.run_cases(cases)


if __name__ == "__main__":
    if len(sys.argv) > 1 and sys.argv[1] == "child":
        child_main()
