"""entry point: python -m harness.main <id> [--tier quick|thorough] [--replay file]"""
import argparse
import importlib
import json
import os
import signal
import sys
import traceback

from . import common


def main():
    ap = argparse.ArgumentParser()
    ap.add_argument("pid")
    ap.add_argument("--tier", default=os.environ.get("VERIF_TIER", "quick"), choices=["quick", "thorough"])
    ap.add_argument("--replay", default=None)
    ap.add_argument("--no-lean", action="store_true", help="skip the proof build/audit (development only)")
    a = ap.parse_args()
    pid = a.pid.upper()
    seed = int(os.environ.get("VERIF_SEED", "0") or 0)
    # must happen before numba is imported (it reads NUMBA_CACHE_DIR at import time)
    os.environ["NUMBA_CACHE_DIR"] = common.numba_cache_dir("main")
    try:
        mod = importlib.import_module("harness.%s" % pid.lower())
    except ModuleNotFoundError as e:
        print("no harness for %s: %s" % (pid, e))
        return 2
    if a.replay:
        data = json.load(open(a.replay))
        if hasattr(mod, "replay"):
            return mod.replay(data)
        print(json.dumps(data, indent=1))
        return 0
    common.ensure_driver(pid)
    ctx = common.Ctx(pid, a.tier, seed, getattr(mod, "FILES", []))
    try:
        mod.run(ctx)
    except SystemExit:
        raise
    except Exception as e:
        # An exception that comes OUT OF the library (a frame under REPO lies below the last harness frame) on an
        # input the harness considers valid means the code no longer does what every run on the unchanged tree
        # shows it does: reported as a failing history (the seed + tier reproduce it).  Anything else is a crash
        # of the harness itself: a tool failure, never a verdict.
        tb = traceback.extract_tb(e.__traceback__)
        repo = os.path.realpath(common.REPO) + os.sep
        harn = os.path.realpath(os.path.dirname(__file__)) + os.sep
        idx_h = max([i for i, f in enumerate(tb) if os.path.realpath(f.filename).startswith(harn)] or [-1])
        lib = [f for i, f in enumerate(tb) if i > idx_h and os.path.realpath(f.filename).startswith(repo)]
        traceback.print_exc()
        if not lib:
            # No Python frame of the library below the harness: either a jitted kernel raised (Numba frames do
            # not appear in the traceback) or the harness itself is broken by the change.  On the unchanged tree
            # this never happens (it would be exit 2 and the check would count as broken); on a changed tree it
            # means the correspondence run could not be completed: reported like a broken correspondence.
            ctx.mismatches.append({"request": "(run aborted)", "code": "%s: %s" % (type(e).__name__, str(e)[:300]),
                                   "model": "-", "why": "the correspondence run raised before completion",
                                   "meta": {"how": "re-run `VERIF_SEED=%d ./check %s --tier %s`" % (seed, pid, a.tier),
                                            "traceback": traceback.format_exception(type(e), e, e.__traceback__)[-8:]}})
        else:
          ctx.spec_fail("library-exception:%s:%s" % (type(e).__name__, lib[-1].name),
                      "the library raised %s: %s on an input of the correspondence run (valid by construction)" % (
                          type(e).__name__, str(e)[:200]),
                      {"how": "re-run `VERIF_SEED=%d ./check %s --tier %s`" % (seed, pid, a.tier),
                       "traceback": traceback.format_exception(type(e), e, e.__traceback__)[-12:]})
    if a.no_lean:
        lean = {"module": "skipped", "obligations": 0, "discharged": 0, "theorems": [], "failures": [],
                "partial": [], "build_ok": True}
    else:
        lean = common.lean_check(pid, thorough=(a.tier == "thorough"))
    return ctx.finish(lean)


if __name__ == "__main__":
    sys.exit(main())
