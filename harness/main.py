"""entry point: python -m harness.main <id> [--tier quick|thorough] [--replay file]"""
import argparse
import importlib
import json
import os
import signal
import sys
import traceback

from . import common


def main():
    ap = argparse.ArgumentParser()
    ap.add_argument("pid")
    ap.add_argument("--tier", default=os.environ.get("VERIF_TIER", "quick"), choices=["quick", "thorough"])
    ap.add_argument("--replay", default=None)
    ap.add_argument("--no-lean", action="store_true", help="skip the proof build/audit (development only)")
    a = ap.parse_args()
    pid = a.pid.upper()
    seed = int(os.environ.get("VERIF_SEED", "0") or 0)
    # must happen before numba is imported (it reads NUMBA_CACHE_DIR at import time)
    os.environ["NUMBA_CACHE_DIR"] = common.numba_cache_dir("main")
    try:
        mod = importlib.import_module("harness.%s" % pid.lower())
    except ModuleNotFoundError as e:
        print("no harness for %s: %s" % (pid, e))
        return 2
    if a.replay:
        data = json.load(open(a.replay))
        if hasattr(mod, "replay"):
            return mod.replay(data)
        print(json.dumps(data, indent=1))
        return 0
    common.ensure_driver(pid)
    ctx = common.Ctx(pid, a.tier, seed, getattr(mod, "FILES", []))
    try:
        mod.run(ctx)
    except SystemExit:
        raise
    except Exception:
        # a crash of the harness on the real code is a tool failure, not a verdict
        traceback.print_exc()
        return 2
    if a.no_lean:
        lean = {"module": "skipped", "obligations": 0, "discharged": 0, "theorems": [], "failures": [],
                "partial": [], "build_ok": True}
    else:
        lean = common.lean_check(pid, thorough=(a.tier == "thorough"))
    return ctx.finish(lean)


if __name__ == "__main__":
    sys.exit(main())
