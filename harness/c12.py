"""C12 — Kalman filter = Gaussian conditioning; state-space moments: correspondence + spec run.

Correspondence (model = lean/QEModel/C12.lean, run at Rat; the jitted kernel also at Float):
  * kalman mode=update / p2f / f2f : Kalman.update along an observation record (x_hat, Sigma after EVERY
    observation), prior_to_filtered and filtered_to_forecast alone; LinAlgError step compared exactly, moments
    inside ENV_K * scale.
  * statgain : K_infinity and stationary_innovation_covar recomputed exactly from the code's Sigma_infinity.
  * simk / simkf : simulate_linear_model (Rat on dyadic data; Float bit-for-bit on arbitrary doubles).
  * simulate / replicate : on the draws actually made (scripted or recorded RandomState).
  * moments, impulse, geosum, partition (exact), statdist.
Spec run (exact Fractions on the code's outputs, independent of the model):
  * batch Gaussian conditioning: the joint law of (x_T, y_0..y_{T-1}) is built from the model equations as a linear
    map of independent primitives, conditioned in one block solve, and compared with the code's final (x_hat, Sigma)
    (every prefix in the thorough tier); symmetry; PSD by exact LDL^T;
  * stationary values: dual Riccati residual, gain equation, Sigma_infinity reproduced by update(), x_hat recursion
    with K_infinity;
  * moment_sequence against the closed forms A^t mu_0, A^t S_0 A'^t + sum_j A^j CC' A'^j; impulse against A^j C, G A^j C;
    geometric sums against (I - beta A) S = x; stationary_distributions against the stationarity equations;
    simulate / replicate against the law x_{t+1} = A x_t + C w_{t+1}, y_t = G x_t + H v_t on the recorded shocks, and the
    arguments handed to the random generator (mean, cov, sizes).
"""
from fractions import Fraction as F

import numpy as np

from .common import Case, fx, rat, rats, ratm, parse_ratm

FILES = ["quantecon/_kalman.py", "quantecon/_lss.py", "quantecon/_matrix_eqn.py"]

ENV_K = 1e-8       # Kalman moments, stationary values, stationary distributions, geometric sums (involve inv/solve)
ENV_X = 1e-12      # pure products / sums (moments, impulse, simulation)
COND_MAX = 10 ** 5  # finite-record clauses are generated inside cond_inf(S_yy) <= COND_MAX

# ----------------------------------------------------------------------------------------------
# exact linear algebra on lists of Fractions


def fm(a):
    a = np.asarray(a, dtype=float)
    if a.ndim == 1:
        a = a.reshape(-1, 1)
    return [[F(float(x)) for x in row] for row in a]


def eye(n):
    return [[F(int(i == j)) for j in range(n)] for i in range(n)]


def zeros(n, m):
    return [[F(0)] * m for _ in range(n)]


def mm(A, B):
    if not A:
        return []
    if not B:
        return [[] for _ in A] if not A[0] else [[F(0)] * 0 for _ in A]
    Bt = list(zip(*B))
    return [[sum((a * b for a, b in zip(r, c) if a and b), F(0)) for c in Bt] for r in A]


def tr(A):
    return [list(r) for r in zip(*A)]


def madd(A, B):
    return [[a + b for a, b in zip(r, s)] for r, s in zip(A, B)]


def msub(A, B):
    return [[a - b for a, b in zip(r, s)] for r, s in zip(A, B)]


def scal(c, A):
    return [[c * a for a in r] for r in A]


def maxabs(A):
    return max((abs(x) for r in A for x in r), default=F(0))


def ninf(A):
    return max((sum(abs(x) for x in r) for r in A), default=F(0))


def mpow(A, t):
    R = eye(len(A))
    for _ in range(t):
        R = mm(A, R)
    return R


def solve_exact(A, B):
    """X with A X = B, or None when A is singular"""
    n = len(A)
    T = [list(r) + list(b) for r, b in zip(A, B)]
    for k in range(n):
        p = next((i for i in range(k, n) if T[i][k] != 0), None)
        if p is None:
            return None
        T[k], T[p] = T[p], T[k]
        pv = T[k][k]
        T[k] = [x / pv for x in T[k]]
        for i in range(n):
            if i != k and T[i][k] != 0:
                f = T[i][k]
                T[i] = [x - f * y for x, y in zip(T[i], T[k])]
    return [r[n:] for r in T]


def psd_tol(S, tol):
    """symmetrised S + tol*I is positive definite (exact LDL^T pivots > 0)"""
    n = len(S)
    T = [[(S[i][j] + S[j][i]) / 2 + (tol if i == j else 0) for j in range(n)] for i in range(n)]
    for k in range(n):
        if T[k][k] <= 0:
            return False
        for i in range(k + 1, n):
            f = T[i][k] / T[k][k]
            if f != 0:
                T[i] = [x - f * y for x, y in zip(T[i], T[k])]
    return True


def to_np(A, shape=None):
    a = np.array([[float(x) for x in r] for r in A], dtype=float)
    if shape is not None:
        a = a.reshape(shape)
    return a


def col(v):
    return [[x] for x in v]


def flat(Mx):
    return [x for r in Mx for x in r]


# ----------------------------------------------------------------------------------------------
# wire helpers


def wire_f(A):
    """matrix of doubles -> wire string with exact bit patterns"""
    A = np.asarray(A, dtype=float)
    if A.ndim == 1:
        A = A.reshape(-1, 1)
    rows = [",".join(fx(x) for x in r) if len(r) else "-" for r in A]
    return ";".join(rows) if rows else "-"


def parse_out(s):
    """'ok a=<mat> b=<mat>' -> (status tokens, {name: matrix of Fractions})"""
    status, mats = [], {}
    for t in s.split():
        if "=" in t:
            k, v = t.split("=", 1)
            if k in ("step", "nc", "idx", "n", "m", "k", "l", "check"):
                status.append(t)
            else:
                mats[k] = parse_ratm(v)
        else:
            status.append(t)
    return status, mats


def env_cmp(env, stat=None):
    """comparator: status tokens equal, same matrices, entries within env * max(1, |exact|_max of the record)"""
    def cmp(mo, impl):
        s1, m1 = parse_out(mo)
        s2, m2 = parse_out(impl)
        if s1 != s2:
            return "status differs: model %s code %s" % (s1, s2)
        if sorted(m1) != sorted(m2):
            return "outputs differ in structure: %s vs %s" % (sorted(m1), sorted(m2))
        scale = max([F(1)] + [maxabs(v) for v in m1.values()])
        tol = F(env) * scale
        worst = F(0)
        for k in m1:
            a, b = m1[k], m2[k]
            if len(a) != len(b) or any(len(r) != len(s) for r, s in zip(a, b)):
                return "shape of %s differs" % k
            for r, s in zip(a, b):
                for x, y in zip(r, s):
                    d = abs(x - y)
                    if d > worst:
                        worst = d
                    # model values are truncated to 2^-96 on the wire
                    if d > tol + F(1, 2 ** 90):
                        return "%s: |model - code| = %.3e > %.3e" % (k, float(d), float(tol))
        if stat is not None:
            stat.append(float(worst / scale))
        return None
    return cmp


# ----------------------------------------------------------------------------------------------
# generators: dyadic data with few bits, so the doubles handed to the code ARE the rationals of the model


def gen_mat(rng, n, m, den=4, lo=-4, hi=4):
    return [[F(rng.randint(lo, hi), den) for _ in range(m)] for _ in range(n)]


def gen_A(rng, n, kind):
    """stable (inf-norm < 1), 'unstable' (one mildly explosive / unit direction), 'tri' (triangular), 'nil' (nilpotent)"""
    A = gen_mat(rng, n, n, den=8, lo=-6, hi=6)
    if kind == "nil":
        return [[A[i][j] if j > i else F(0) for j in range(n)] for i in range(n)]
    if kind == "tri":
        A = [[A[i][j] if j >= i else F(0) for j in range(n)] for i in range(n)]
    while ninf(A) >= 1:
        A = scal(F(1, 2), A)
    if kind == "unstable":
        i = rng.randrange(n)
        A[i][i] = rng.choice([F(1), F(9, 8), F(-9, 8), F(5, 4)])
    return A


def gen_C(rng, n, m, kind):
    C = gen_mat(rng, n, m, den=4, lo=-4, hi=4)
    if kind == "zero":
        return zeros(n, m)
    if kind == "zerorow":
        i = rng.randrange(n)
        C[i] = [F(0)] * m
    if kind == "rank1" and m >= 1:
        u = [F(rng.randint(-3, 3), 2) for _ in range(n)]
        w = [F(rng.randint(-2, 2)) for _ in range(m)]
        C = [[a * b for b in w] for a in u]
    return C


def gen_H(rng, k, kind):
    """k x l; 'full': square with full row rank; singular kinds: zero, zero row, rank one, fewer columns"""
    if kind == "full":
        H = gen_mat(rng, k, k, den=4, lo=-2, hi=2)
        for i in range(k):
            H[i][i] = F(rng.choice([1, 2, 3, 4, 6]), 2) + sum(abs(H[i][j]) for j in range(k) if j != i)
        return H
    if kind == "zero":
        return zeros(k, rng.randint(1, 2))
    if kind == "zerorow":
        H = gen_mat(rng, k, rng.randint(1, 3), den=2, lo=-3, hi=3)
        H[rng.randrange(k)] = [F(0)] * len(H[0])
        return H
    if kind == "thin":
        return gen_mat(rng, k, 1, den=2, lo=-3, hi=3)
    return gen_mat(rng, k, rng.randint(1, 3), den=2, lo=-3, hi=3)


def gen_psd(rng, n, kind):
    if kind == "zero":
        return zeros(n, n)
    r = n if kind == "full" else rng.randint(1, max(1, n - 1))
    L = gen_mat(rng, n, r, den=2, lo=-3, hi=3)
    if kind == "full":
        for i in range(n):
            L[i][i] += F(2)
    return mm(L, tr(L))


def gen_vec(rng, n, den=8, lo=-40, hi=40):
    return [F(rng.randint(lo, hi), den) for _ in range(n)]


def gen_real(rng, n):
    """arbitrary doubles (as exact Fractions)"""
    return [F(float(rng.gauss(0, 3))) for _ in range(n)]


# ----------------------------------------------------------------------------------------------
# spec oracle: batch Gaussian conditioning, built from the model equations only


def joint_maps(A, C, G, H, T):
    """linear maps of the primitives xi = (x0 - mean, w_1..w_T, v_0..v_{T-1}) onto x_0..x_T and y_0..y_{T-1}"""
    n, m, k, l = len(A), len(C[0]), len(G), len(H[0])
    N = n + T * m + T * l
    Lx = [[[F(int(j == i)) for j in range(N)] for i in range(n)]]
    for t in range(T):
        nxt = mm(A, Lx[-1])
        off = n + t * m
        for i in range(n):
            for j in range(m):
                nxt[i][off + j] += C[i][j]
        Lx.append(nxt)
    Ly = []
    for t in range(T):
        row = mm(G, Lx[t])
        off = n + T * m + t * l
        for i in range(k):
            for j in range(l):
                row[i][off + j] += H[i][j]
        Ly.append(row)
    return Lx, Ly, N


_BC_CACHE = {}


def batch_condition(A, C, G, H, xh, S0, ys, target):
    key = (ratm(A), ratm(C), ratm(G), ratm(H), rats(xh), ratm(S0), ratm(ys), target)
    if key not in _BC_CACHE:
        if len(_BC_CACHE) > 64:
            _BC_CACHE.clear()
        _BC_CACHE[key] = _batch_condition(A, C, G, H, xh, S0, ys, target)
    return _BC_CACHE[key]


def _batch_condition(A, C, G, H, xh, S0, ys, target):
    """exact conditional mean/covariance of x_target given y_0..y_{T-1} (T = len(ys)), prior x_0 ~ (xh, S0).
    Returns (mean, cov, cond_inf(S_yy)) or None when S_yy is singular."""
    n, T = len(A), len(ys)
    m, l = len(C[0]), len(H[0])
    Lx, Ly, N = joint_maps(A, C, G, H, max(T, target))
    # covariance of the primitives: blockdiag(S0, I, I)
    Cov = [[F(0)] * N for _ in range(N)]
    for i in range(n):
        for j in range(n):
            Cov[i][j] = S0[i][j]
    for i in range(n, N):
        Cov[i][i] = F(1)
    # means: x_t has mean A^t xh, y_t has mean G A^t xh
    mx = [col(xh)]
    for t in range(max(T, target)):
        mx.append(mm(A, mx[-1]))
    LX = Lx[target]
    LY = [r for t in range(T) for r in Ly[t]]
    mY = [r for t in range(T) for r in mm(G, mx[t])]
    yv = [[v] for y in ys for v in y]
    Sxx = mm(mm(LX, Cov), tr(LX))
    if not LY:
        return mx[target], Sxx, F(1)
    Sxy = mm(mm(LX, Cov), tr(LY))
    Syy = mm(mm(LY, Cov), tr(LY))
    Syy_inv = solve_exact(Syy, eye(len(Syy)))
    if Syy_inv is None:
        return None
    cond = ninf(Syy) * ninf(Syy_inv)
    Kb = mm(Sxy, Syy_inv)
    mean = madd(mx[target], mm(Kb, msub(yv, mY)))
    cov = msub(Sxx, mm(Kb, tr(Sxy)))
    return mean, cov, cond


def close(Ax, Bx, tol):
    return all(abs(a - b) <= tol for r, s in zip(Ax, Bx) for a, b in zip(r, s)) and len(Ax) == len(Bx)


# ----------------------------------------------------------------------------------------------
# random streams


class Scripted(np.random.RandomState):
    """a RandomState whose draws are chosen by the harness (dyadic) and recorded"""

    def __init__(self, rng, x0fn):
        super().__init__(0)
        self._r = rng
        self._x0fn = x0fn
        self.calls = []

    def multivariate_normal(self, mean, cov, *a, **kw):
        x0 = np.array([float(v) for v in self._x0fn()])
        self.calls.append(("mvn", np.array(mean, dtype=float), np.array(cov, dtype=float), x0))
        return x0

    def standard_normal(self, size=None):
        shape = (size,) if isinstance(size, int) else tuple(size)
        out = np.array([self._r.randint(-8, 8) / 4.0 for _ in range(int(np.prod(shape)))]).reshape(shape)
        self.calls.append(("sn", shape, out))
        return out


class Recording(np.random.RandomState):
    """a genuine RandomState whose draws are recorded (arbitrary real shocks)"""

    def __init__(self, seed):
        super().__init__(seed)
        self.calls = []
        self._inner = False

    def multivariate_normal(self, mean, cov, *a, **kw):
        self._inner = True      # the legacy sampler draws its normals through self.standard_normal
        try:
            x0 = super().multivariate_normal(mean, cov, *a, **kw)
        finally:
            self._inner = False
        self.calls.append(("mvn", np.array(mean, dtype=float), np.array(cov, dtype=float), np.array(x0)))
        return x0

    def standard_normal(self, size=None):
        out = super().standard_normal(size)
        if self._inner:
            return out
        shape = (size,) if isinstance(size, int) else tuple(size)
        self.calls.append(("sn", shape, np.array(out)))
        return out


# ----------------------------------------------------------------------------------------------


# ----------------------------------------------------------------------------------------------
# input forms: the same (integer-valued) data handed to the library as python ints, lists, integer ndarrays,
# 0-d / scalar forms, F-ordered and non-contiguous arrays


MAT_FORMS = ["float", "list", "int64", "int32", "F", "intF", "strided", "intstrided", "int8", "float32", "reversed", "transposed",
             "tuple"]
MAT_FORMS_FLOAT = ["float", "float", "F", "strided", "reversed", "transposed", "float32"]
VEC_FORMS = ["float-col", "list", "int1d", "intcol", "listcol", "strided", "intstrided", "tuple", "int8", "float32", "reversed",
             "row2d", "introw2d"]
VEC_FORMS_FLOAT = ["float-col", "float-col", "strided", "reversed", "float32", "row2d"]
INT_SCALARS = [int, np.int8, np.int16, np.int32, np.int64, np.uint8, np.uint16, np.uint32, np.uint64, np.intp]


def f32_exact(vals):
    return all(F(float(np.float32(float(v)))) == v for v in vals)
SCALAR_FORMS = ["pyint", "pyfloat", "0d-int", "0d-float", "np-int64", "list1", "int1d"]


def is_int_valued(Mx):
    return all(v.denominator == 1 for r in Mx for v in r)


def mat_form(Mx, kind):
    """matrix (list of rows of Fractions; integer-valued for the integer kinds) in the requested representation"""
    if kind in ("float", "F", "strided", "float32", "reversed", "transposed"):
        ints = [[float(v) for v in r] for r in Mx]
    else:
        ints = [[int(v) for v in r] for r in Mx]
    if kind == "float":
        return np.array(ints, dtype=float)
    if kind == "float32":
        return np.array(ints, dtype=np.float32)
    if kind == "int8":
        return np.array(ints, dtype=np.int8)
    if kind == "tuple":
        return tuple(tuple(r) for r in ints)
    if kind == "reversed":      # a view with negative strides
        return np.array([r[::-1] for r in ints[::-1]], dtype=float)[::-1, ::-1]
    if kind == "transposed":    # a transposed view (F-contiguous, not owning its data)
        return np.array([list(c) for c in zip(*ints)], dtype=float).T
    if kind == "list":
        return ints
    if kind == "int64":
        return np.array(ints, dtype=np.int64)
    if kind == "int32":
        return np.array(ints, dtype=np.int32)
    if kind == "F":
        return np.asfortranarray(np.array(ints, dtype=float))
    if kind == "intF":
        return np.asfortranarray(np.array(ints, dtype=np.int64))
    if kind in ("strided", "intstrided"):
        r, c = len(ints), len(ints[0])
        big = np.full((2 * r, 3 * c), 7, dtype=(float if kind == "strided" else np.int64))
        big[::2, ::3] = ints
        return big[::2, ::3]
    raise ValueError(kind)


def vec_form(v, kind):
    ints = [float(t) for t in v] if kind in ("float-col", "strided", "float32", "reversed", "row2d") else [int(t) for t in v]
    if kind == "row2d":         # a 2-D array with ONE ROW
        return np.array([ints], dtype=float)
    if kind == "introw2d":
        return np.array([ints], dtype=np.int64)
    if kind == "float-col":
        return np.array(ints, dtype=float).reshape(-1, 1)
    if kind == "float32":
        return np.array(ints, dtype=np.float32)
    if kind == "int8":
        return np.array(ints, dtype=np.int8)
    if kind == "reversed":
        return np.array(ints[::-1], dtype=float)[::-1]
    if kind == "list":
        return ints
    if kind == "tuple":
        return tuple(ints)
    if kind == "int1d":
        return np.array(ints, dtype=np.int64)
    if kind == "intcol":
        return np.array(ints, dtype=np.int64).reshape(-1, 1)
    if kind == "listcol":
        return [[t] for t in ints]
    if kind in ("strided", "intstrided"):
        big = np.full(3 * len(ints), 7, dtype=(float if kind == "strided" else np.int64))
        big[::3] = ints
        return big[::3]
    raise ValueError(kind)


def scalar_form(v, kind):
    t = int(v)
    return {"pyint": t, "pyfloat": float(t), "0d-int": np.array(t), "0d-float": np.array(float(t)),
            "np-int64": np.int64(t), "list1": [t], "int1d": np.array([t])}[kind]


def snapshot(obj):
    """(type, dtype, flat contents) of a caller-owned object, to detect modification by the library"""
    if isinstance(obj, np.ndarray):
        return ("nd", str(obj.dtype), obj.ravel().tolist())
    if isinstance(obj, (list, tuple)):
        return (type(obj).__name__, None, json_like(obj))
    return (type(obj).__name__, None, obj)


def json_like(o):
    return [json_like(e) for e in o] if isinstance(o, (list, tuple)) else o


def ss_line(A, C, G, H):
    s = "A=%s C=%s G=%s" % (ratm(A), ratm(C), ratm(G))
    s += " H=%s" % (ratm(H) if H is not None else "none")
    return s


def run(ctx):
    import warnings
    warnings.simplefilter("ignore")
    from numpy.linalg import LinAlgError
    from quantecon import LinearStateSpace, Kalman
    from quantecon._lss import simulate_linear_model

    rng = ctx.rng
    cases = []
    errs_k, errs_x = [], []
    ctx.rule = ("dyadic state space models n<=4, k<=3, m<=3, l<=3 (A stable / mildly unstable / triangular / nilpotent; C and H "
                "full, zero, zero row, rank one; priors PSD full / rank-deficient / zero), observation records of length <=6 "
                "(dyadic and arbitrary doubles); a case is non-trivial when n>=2 or the record has >=2 observations (Kalman), "
                "ts>=3 (simulation), j>=2 / k>=2 (impulse, moments), n>=2 (others); distinct by request line")

    owned_all = []      # (label, object, snapshot) of everything handed to LinearStateSpace: must stay unchanged

    def any_mat(Mx, label):
        if not Mx or not Mx[0]:
            return to_np(Mx)
        kind = rng.choice(MAT_FORMS if is_int_valued(Mx) and maxabs(Mx) < 100 else MAT_FORMS_FLOAT)
        if kind == "float32" and not f32_exact(flat(Mx)):
            kind = "float"
        ctx.count("lssforms:mat=" + kind)
        o = mat_form(Mx, kind)
        owned_all.append((label + ":" + kind, o, snapshot(o)))
        return o

    def any_vec(v, label):
        kind = rng.choice(VEC_FORMS if all(t.denominator == 1 and abs(t) < 100 for t in v) else VEC_FORMS_FLOAT)
        if kind == "float32" and not f32_exact(v):
            kind = "float-col"
        ctx.count("lssforms:vec=" + kind)
        o = vec_form(v, kind)
        owned_all.append((label + ":" + kind, o, snapshot(o)))
        return o

    def mk_ss(A, C, G, H, mu0=None, S0=None):
        return LinearStateSpace(any_mat(A, "A"), any_mat(C, "C"), any_mat(G, "G"), None if H is None else any_mat(H, "H"),
                                None if mu0 is None else any_vec(mu0, "mu_0"), None if S0 is None else any_mat(S0, "Sigma_0"))

    def finding(key, what, replay):
        """a behaviour of the CLEAN code that the hardening rules flag: counted only, until the coordinator lists it"""
        if key in ctx.known:
            ctx.spec_fail(key, what, replay)
            return
        ctx.count("unlisted-finding:" + key)
        ctx.extra.setdefault("unlisted_findings", {}).setdefault(key, {"what": what, "replay": replay})

    class Audit:
        """keeps the bits of every returned array and re-judges them after every later call; aliasing audit"""

        def __init__(self, replay):
            self.kept, self.replay = [], replay

        def keep(self, label, *arrs):
            for a_ in arrs:
                if isinstance(a_, np.ndarray):
                    self.kept.append((label, a_, a_.copy(), a_.shape))

        def recheck(self, after):
            for label, a_, bits, shp in self.kept:
                if a_.shape != shp or not np.array_equal(a_, bits, equal_nan=True):
                    ctx.spec_fail("result_changed_later", "the result of `%s` changed after the later call `%s`" % (label, after),
                                  self.replay)
                    return False
            return True

        def alias(self, call, results, others, allowed={}):
            """results: [(name, array)], others: [(name, array)] (inputs, object arrays); earlier results are added"""
            pool = list(others) + [(lab, a_) for lab, a_, _, _ in self.kept]
            for q_, (rn, r_) in enumerate(results):
                if not isinstance(r_, np.ndarray) or r_.size == 0:
                    continue
                for rn2, r2_ in results[q_ + 1:]:
                    if isinstance(r2_, np.ndarray) and r2_.size and np.shares_memory(r_, r2_):
                        ctx.spec_fail("alias_" + call, "returned %s and %s share memory" % (rn, rn2), self.replay)
                for on, o_ in pool:
                    if isinstance(o_, np.ndarray) and o_.size and np.shares_memory(r_, o_):
                        key = "%s:%s~%s" % (call, rn, on.split("#")[0])
                        hit = [a_ for a_ in allowed if key.startswith(a_)]
                        if hit:
                            finding(allowed[hit[0]], "%s returned by %s shares memory with %s" % (rn, call, on), self.replay)
                        else:
                            ctx.spec_fail("alias_" + call, "returned %s shares memory with %s" % (rn, on), self.replay)

    # ---- Kalman: finite observation records --------------------------------------------------------
    def kalman_case(A, C, G, H, xh, S0, ys, mode, expect_singular=False, objs=None, tag=None):
        """objs = dict(kn=<existing Kalman or None>, ss=<LinearStateSpace>, x=<x_hat object>, S=<Sigma object>,
        ys=[observation objects]): the same data in another representation; with kn given, set_state() is used"""
        n, k = len(A), len(G)
        if mode == "p2f":
            ys = ys[:1]
        if objs is None:
            kn = Kalman(mk_ss(A, C, G, H), to_np(col(xh)), to_np(S0))
            yobjs = [to_np(col(y)) for y in ys]
        else:
            if objs.get("keep"):
                kn = objs["kn"]                  # continue from the instance's current state (history stream)
            elif objs.get("kn") is not None:
                kn = objs["kn"]
                kn.set_state(objs["x"], objs["S"])
            else:
                kn = Kalman(objs["ss"], objs["x"], objs["S"])
            objs["kn_out"] = kn
            yobjs = objs["ys"]
        states, status = [], "ok"
        try:
            if mode == "update":
                for y in yobjs:
                    kn.update(y)
                    states.append((np.array(kn.x_hat, dtype=float), np.array(kn.Sigma, dtype=float)))
            elif mode == "p2f":
                kn.prior_to_filtered(yobjs[0])
                states.append((np.array(kn.x_hat, dtype=float), np.array(kn.Sigma, dtype=float)))
            else:
                kn.filtered_to_forecast()
                states.append((np.array(kn.x_hat), np.array(kn.Sigma)))
        except LinAlgError:
            status = "ERR:LinAlgError step=%d" % len(states)
            ctx.count("kalman:LinAlgError")
        impl = status + " " + " ".join("x%d=%s S%d=%s" % (t, wire_f(x), t, wire_f(S)) for t, (x, S) in enumerate(states))
        line = "C12 kalman %s x=%s S=%s ys=%s mode=%s" % (ss_line(A, C, G, H), rats(xh), ratm(S0), ratm(ys), mode)
        cases.append(Case(line, impl, nontrivial=(n >= 2 or len(ys) >= 2), cmp=env_cmp(ENV_K, errs_k), tag=tag or ("kalman-" + mode)))
        replay = {"op": "kalman", "mode": mode, "forms": (objs or {}).get("forms"), "A": ratm(A), "C": ratm(C), "G": ratm(G), "H": ratm(H),
                  "x_hat": rats(xh), "Sigma": ratm(S0), "ys": ratm(ys)}
        # -- spec: shapes, symmetry, PSD, batch conditioning
        for t, (x, S) in enumerate(states):
            if x.shape != (n, 1) or S.shape != (n, n) or not (np.all(np.isfinite(x)) and np.all(np.isfinite(S))):
                ctx.spec_fail("kalman_shape", "x_hat/Sigma have shape %s/%s or are not finite" % (x.shape, S.shape), replay)
                return
        # the covariance path must not depend on the data (same record length, other observations and x_hat)
        if mode == "update" and status == "ok" and ys:
            kn2 = Kalman(kn.ss, to_np(col([v + 1 for v in xh])), to_np(S0))
            try:
                for y in ys:
                    kn2.update(to_np(col([-2 * v + 3 for v in y])))
                # (not bitwise: the prior may have been handed over in another memory layout, BLAS then rounds differently)
                if not np.allclose(kn2.Sigma, states[-1][1], rtol=1e-11, atol=1e-11 * max(1.0, float(np.abs(states[-1][1]).max()))):
                    ctx.spec_fail("kalman_sigma_data_dependent", "Sigma after the record depends on the observations / x_hat", replay)
            except LinAlgError:
                ctx.spec_fail("kalman_sigma_data_dependent", "the filter fails on one record and not on another of the same length", replay)
        if expect_singular:
            if status == "ok":
                ctx.spec_fail("kalman_singular", "innovation covariance is exactly singular but no error was raised", replay)
            return
        if status != "ok":
            return
        if mode == "f2f":
            xe, Se = mm(A, col(xh)), madd(mm(mm(A, S0), tr(A)), mm(C, tr(C)))
            targets = [(0, xe, Se)]
        else:
            targets = []
            ts = range(1, len(ys) + 1) if (ctx.thorough or mode == "p2f") else [len(ys)]
            for T in ts:
                b = batch_condition(A, C, G, H, xh, S0, ys[:T], 0 if mode == "p2f" else T)
                if b is None:
                    ctx.count("kalman:oracle-singular")
                    return
                targets.append((T - 1, b[0], b[1]))
        for t, xe, Se in targets:
            x, S = fm(states[t][0]), fm(states[t][1])
            scale = max(F(1), maxabs(xe), maxabs(Se), maxabs(col(xh)), maxabs(ys))
            tol = F(ENV_K) * scale
            if not close(x, xe, tol):
                ctx.spec_fail("kalman_mean", "x_hat after %d observation(s) differs from the exact conditional mean by %.3e"
                              % (t + 1, float(maxabs(msub(x, xe)))), replay)
            if not close(S, Se, tol):
                ctx.spec_fail("kalman_cov", "Sigma after %d observation(s) differs from the exact conditional covariance by %.3e"
                              % (t + 1, float(maxabs(msub(S, Se)))), replay)
        for t, (xa, Sa) in enumerate(states):
            S = fm(Sa)
            tol = F(ENV_K) * max(F(1), maxabs(S))
            if maxabs(msub(S, tr(S))) > tol:
                ctx.spec_fail("kalman_symmetric", "Sigma after step %d is not symmetric" % t, replay)
            if not psd_tol(S, tol):
                ctx.spec_fail("kalman_psd", "Sigma after step %d is not positive semidefinite" % t, replay)

    n_kal = ctx.n(110, 2400)
    made = 0
    attempts = 0
    while made < n_kal and attempts < 20 * n_kal:
        attempts += 1
        n, k, m = rng.randint(1, 4), rng.randint(1, 3), rng.randint(1, 3)
        akind = rng.choice(["stable", "stable", "unstable", "tri", "nil"])
        ckind = rng.choice(["full", "full", "zero", "zerorow", "rank1"])
        hkind = rng.choice(["full", "full", "zero", "zerorow", "thin", "any"])
        skind = rng.choice(["full", "full", "low", "zero"])
        A, C, G = gen_A(rng, n, akind), gen_C(rng, n, m, ckind), gen_mat(rng, k, n, den=2, lo=-3, hi=3)
        H, S0 = gen_H(rng, k, hkind), gen_psd(rng, n, skind)
        xh = gen_vec(rng, n)
        T = rng.randint(1, 6)
        ys = [gen_real(rng, k) if rng.random() < 0.3 else gen_vec(rng, k) for _ in range(T)]
        mode = rng.choice(["update", "update", "update", "p2f", "f2f"])
        if mode == "p2f":
            ys = ys[:1]
        if mode == "f2f":
            ys = []
        # stay inside the well-conditioned domain (exactly singular innovation covariances are a separate stream)
        if mode != "f2f":
            b = batch_condition(A, C, G, H, xh, S0, ys, len(ys) if mode == "update" else 0)
            if b is None:
                ctx.count("kalman:gen-singular-skipped")
                continue
            if b[2] > COND_MAX:
                ctx.count("kalman:gen-illcond-skipped")
                continue
        made += 1
        ctx.count("kalman:A-" + akind)
        ctx.count("kalman:C-" + ckind)
        ctx.count("kalman:H-" + hkind)
        ctx.count("kalman:S-" + skind)
        ctx.count("kalman:T=%d" % len(ys))
        kalman_case(A, C, G, H, xh, S0, ys, mode)

    # exactly singular innovation covariance, detected without rounding: a zero row of G and of H, or F = 0
    for _ in range(ctx.n(10, 120)):
        n, k = rng.randint(1, 3), rng.randint(1, 3)
        A, C, G = gen_A(rng, n, "stable"), gen_C(rng, n, 1, "full"), gen_mat(rng, k, n, den=1, lo=-2, hi=2)
        H = gen_mat(rng, k, k, den=1, lo=-2, hi=2)
        for i in range(k):
            H[i][i] = F(3) + sum(abs(H[i][j]) for j in range(k) if j != i)
        S0 = gen_psd(rng, n, "full")
        pre = rng.randint(0, 1) if True else 0
        if rng.random() < 0.5:
            i = rng.randrange(k)
            G[i] = [F(0)] * n
            H[i] = [F(0)] * k
            ctx.count("kalman:singular-zero-row")
            pre = 0
        else:
            H, S0, C = zeros(k, 1), zeros(n, n), zeros(n, 1)
            ctx.count("kalman:singular-F=0")
            pre = 0
        ys = [gen_vec(rng, k) for _ in range(pre + 2)]
        kalman_case(A, C, G, H, gen_vec(rng, n), S0, ys, rng.choice(["update", "p2f"]), expect_singular=True)

    # ---- Kalman: very diffuse prior with more sensors than states (fixed probes) ---------------------------------
    # prior_to_filtered forms Sigma - M G Sigma (not the Joseph form): with cond(F) large the subtraction cancels and the
    # result can come out with a negative eigenvalue.  Measured on the clean code (4000 random models, k >= n, H = I):
    # -min eig / |Sigma_0| stays below 5e-12 for cond_2(F) < 2^26 and grows like 0.5 * eps * cond(F) beyond (1.1e-8 at 2^27,
    # 6.7e-8 at 2^29).  Inside the boundary the ordinary keys apply (tolerance relative to the prior scale); beyond it a
    # loss of positive semidefiniteness is reported under its own narrow key.
    DIFFUSE_COND = F(2) ** 26
    for e_ in (20, 28):
        s_ = F(2) ** e_
        A_, C_, G_, H_ = [[F(1, 2)]], [[F(1)]], [[F(1)], [F(1)], [F(1)]], eye(3)
        xh_, S0_, y_ = [F(0)], [[s_]], [F(1), F(2), F(3)]
        knd = Kalman(LinearStateSpace(to_np(A_), to_np(C_), to_np(G_), to_np(H_)), to_np(col(xh_)), to_np(S0_))
        knd.prior_to_filtered(to_np(col(y_)))
        Sd, xd = fm(knd.Sigma), fm(knd.x_hat)
        Fm_ = madd(mm(mm(G_, S0_), tr(G_)), mm(H_, tr(H_)))
        condF = ninf(Fm_) * ninf(solve_exact(Fm_, eye(3)))
        b_ = batch_condition(A_, C_, G_, H_, xh_, S0_, [y_], 0)
        rp = {"op": "kalman", "mode": "p2f", "A": ratm(A_), "C": ratm(C_), "G": ratm(G_), "H": ratm(H_), "x_hat": rats(xh_),
              "Sigma": ratm(S0_), "ys": ratm([y_]), "code_Sigma": wire_f(knd.Sigma), "code_x_hat": wire_f(knd.x_hat),
              "exact_Sigma": ratm(b_[1]), "cond_inf_F": float(condF)}
        ctx.count("kalman:diffuse-prior-2^%d" % e_)
        if condF >= DIFFUSE_COND:
            if not psd_tol(Sd, F(ENV_K) * max(F(1), maxabs(Sd))):
                finding("kalman_psd_loss_diffuse_prior", "prior_to_filtered with prior variance 2^%d and 3 sensors on 1 state returns "
                        "Sigma = %s (exact %s): negative" % (e_, float(Sd[0][0]), float(b_[1][0][0])), rp)
        else:
            tol_ = F(ENV_K) * s_        # inside the boundary: rounding relative to the prior scale
            if not psd_tol(Sd, tol_):
                ctx.spec_fail("kalman_psd", "Sigma after a measurement update from a diffuse prior (cond F = %.2e) is not PSD" % float(condF), rp)
            if not close(Sd, b_[1], tol_) or not close(xd, b_[0], tol_):
                ctx.spec_fail("kalman_cov", "filtered moments from a diffuse prior (cond F = %.2e) differ from the exact conditional "
                              "moments beyond 1e-8 * |Sigma_0|" % float(condF), rp)

    # ---- Kalman: input representations, object reuse, aliasing -----------------------------------------
    # integer-valued models handed over as python ints / lists / integer ndarrays / 0-d / F-ordered / strided views;
    # the same prior objects reused after set_state(); the same observation object reused across update() calls;
    # afterwards none of the caller's objects may have changed
    def int_diag_dom(kk, lo, hi):
        Hm = gen_mat(rng, kk, kk, den=1, lo=lo, hi=hi)
        for i_ in range(kk):
            Hm[i_][i_] = F(rng.randint(1, 3)) + sum(abs(Hm[i_][j_]) for j_ in range(kk) if j_ != i_)
        return Hm

    def int_prior(n_):
        L = gen_mat(rng, n_, n_, den=1, lo=-2, hi=2)
        for i_ in range(n_):
            L[i_][i_] += F(2)
        return [F(rng.randint(-9, 9)) for _ in range(n_)], mm(L, tr(L))

    n_forms = ctx.n(50, 700)
    made = attempts = 0
    while made < n_forms and attempts < 30 * n_forms:
        attempts += 1
        scalar = rng.random() < 0.25             # python / 0-d scalars throughout, as in Kalman(ss, 8, 1)
        n, k = (1, 1) if scalar else (rng.randint(1, 3), rng.randint(1, 2))
        A = gen_mat(rng, n, n, den=1, lo=-1, hi=1)
        C = gen_mat(rng, n, rng.randint(1, 2), den=1, lo=-2, hi=2)
        G = gen_mat(rng, k, n, den=1, lo=-2, hi=2)
        H = int_diag_dom(k, -1, 1)
        xh, S0 = int_prior(n)
        if scalar and rng.random() < 0.3:
            xh, S0 = [F(8)], [[F(1)]]            # the lecture's Kalman(ss, 8, 1)
        x2, S2 = int_prior(n)
        T1, T2 = rng.randint(1, 4), rng.randint(0, 3)
        same_y = rng.random() < 0.35
        y_one = [F(rng.randint(-9, 9)) for _ in range(k)]
        ys1 = [list(y_one) if same_y else [F(rng.randint(-9, 9)) for _ in range(k)] for _ in range(T1)]
        ys2 = [[F(rng.randint(-9, 9)) for _ in range(k)] for _ in range(T2)]
        again = T2 > 0 and rng.random() < 0.3      # set_state with the SAME prior objects and the same record
        if again:
            x2, S2, ys2, T2 = xh, S0, ys1, T1
        b = batch_condition(A, C, G, H, xh, S0, ys1, T1)
        b2 = batch_condition(A, C, G, H, x2, S2, ys2, T2) if T2 else (0, 0, F(1))
        if b is None or b2 is None or b[2] > COND_MAX or b2[2] > COND_MAX:
            continue
        made += 1
        owned = {}
        if scalar:
            fk = {nm: rng.choice(SCALAR_FORMS) for nm in ("A", "C", "G", "H", "x", "S", "x2", "S2", "y")}
            C1 = [[C[0][0]]]
            C = C1
            owned["A"], owned["C"], owned["G"], owned["H"] = (scalar_form(Mx[0][0], fk[nm]) for Mx, nm in
                                                              ((A, "A"), (C, "C"), (G, "G"), (H, "H")))
            owned["x"], owned["S"] = scalar_form(xh[0], fk["x"]), scalar_form(S0[0][0], fk["S"])
            owned["x2"], owned["S2"] = (owned["x"], owned["S"]) if again else \
                (scalar_form(x2[0], fk["x2"]), scalar_form(S2[0][0], fk["S2"]))
            mk_y = lambda y: scalar_form(y[0], fk["y"])
        else:
            fk = {nm: rng.choice(MAT_FORMS) for nm in ("A", "C", "G", "H", "S", "S2")}
            fk.update({nm: rng.choice(VEC_FORMS) for nm in ("x", "x2", "y")})
            owned["A"], owned["C"], owned["G"], owned["H"] = (mat_form(Mx, fk[nm]) for Mx, nm in
                                                              ((A, "A"), (C, "C"), (G, "G"), (H, "H")))
            owned["x"], owned["S"] = vec_form(xh, fk["x"]), mat_form(S0, fk["S"])
            owned["x2"], owned["S2"] = (owned["x"], owned["S"]) if again else (vec_form(x2, fk["x2"]), mat_form(S2, fk["S2"]))
            mk_y = lambda y: vec_form(y, fk["y"])
        if same_y:
            yo = mk_y(ys1[0])
            y1objs = [yo] * T1                    # one observation object reused across the update() calls
        else:
            y1objs = [mk_y(y) for y in ys1]
        y2objs = y1objs if again else [mk_y(y) for y in ys2]
        for j_, o in enumerate(y1objs + y2objs):
            owned["y%d" % j_] = o
        snaps = {nm: snapshot(o) for nm, o in owned.items()}
        forms = ("scalar " if scalar else "") + " ".join("%s=%s" % kv for kv in sorted(fk.items())) + \
            (" same-y-object" if same_y else "") + (" set_state-same-objects" if again else "")
        for nm in ("x", "S", "y"):
            ctx.count("forms:%s=%s" % (nm, fk[nm]))
        ctx.count("forms:scalar" if scalar else "forms:n=%d" % n)
        if same_y:
            ctx.count("forms:same-y-object")
        ss_obj = LinearStateSpace(owned["A"], owned["C"], owned["G"], owned["H"])
        o1 = dict(kn=None, ss=ss_obj, x=owned["x"], S=owned["S"], ys=y1objs, forms=forms)
        kalman_case(A, C, G, H, xh, S0, ys1, "update", objs=o1, tag="kalman-forms")
        if T2:
            ctx.count("forms:set_state" + ("-same-objects" if again else ""))
            o2 = dict(kn=o1["kn_out"], x=owned["x2"], S=owned["S2"], ys=y2objs, forms=forms + " after-set_state")
            kalman_case(A, C, G, H, x2, S2, ys2, "update", objs=o2, tag="kalman-setstate")
        if any(isinstance(o, np.ndarray) and o.ndim == 2 and fk.get(nm[:1] if nm.startswith("y") else nm) in ("row2d", "introw2d")
               and o.shape[0] != 1 for nm, o in owned.items()):
            finding("input_reshaped_in_place", "a one-row 2-D x_hat / y is reshaped to a column in place by set_state / "
                    "prior_to_filtered", {"op": "kalman", "forms": forms})
        changed = [nm for nm, o in owned.items() if snapshot(o) != snaps[nm]]
        if changed:
            ctx.spec_fail("kalman_caller_modified", "the filter modified the caller's objects %s" % changed,
                          {"op": "kalman", "mode": "update", "forms": forms, "A": ratm(A), "C": ratm(C), "G": ratm(G),
                           "H": ratm(H), "x_hat": rats(xh), "Sigma": ratm(S0), "ys": ratm(ys1)})

    # ---- Kalman: histories of public calls on ONE instance ----------------------------------------------
    # stationary_values (both methods) / K_infinity / Sigma_infinity / whitener_lss / stationary_coefficients /
    # stationary_innovation_covar interleaved with set_state / prior_to_filtered / filtered_to_forecast / update,
    # including priors within 1e-6 .. 1e-2 of Sigma_infinity and fast-converging models.  Every state-changing call is
    # judged from the instance's exact current state (one-step batch oracle + model), the whole history is replayed by
    # the model's `history` op, and the stationary calls must leave (x_hat, Sigma) bit-for-bit unchanged.
    STAT_KINDS = ["sv-doubling", "sv-qz", "K_infinity", "Sigma_infinity", "whitener_lss", "coef-ma", "coef-var", "innov-covar"]

    def do_stat(kn, kind):
        if kind == "sv-doubling":
            return kn.stationary_values() if rng.random() < 0.5 else kn.stationary_values("doubling")
        elif kind == "sv-qz":
            return kn.stationary_values(method="qz") if rng.random() < 0.5 else kn.stationary_values("qz")
        elif kind == "K_infinity":
            kn.K_infinity
        elif kind == "Sigma_infinity":
            kn.Sigma_infinity
        elif kind == "whitener_lss":
            kn.whitener_lss()
        elif kind == "coef-ma":
            kn.stationary_coefficients(3, "ma")
        elif kind == "coef-var":
            kn.stationary_coefficients(2, "var")
        else:
            kn.stationary_innovation_covar()

    for _ in range(ctx.n(45, 500)):
        n, k, m = rng.randint(1, 3), rng.randint(1, 2), rng.randint(1, 2)
        akind = rng.choice(["stable", "fast", "fast", "tri"])
        A = gen_A(rng, n, "tri" if akind == "tri" else "stable")
        if akind == "fast":
            A = scal(F(1, 4), A)                  # the covariance recursion converges in one to three steps
        C = gen_C(rng, n, m, rng.choice(["full", "full", "rank1"]))
        G = gen_mat(rng, k, n, den=2, lo=-3, hi=3)
        H = gen_H(rng, k, "full")
        xh, S0 = gen_vec(rng, n), gen_psd(rng, n, rng.choice(["full", "low"]))
        ss = mk_ss(A, C, G, H)
        x0np, S0np = to_np(col(xh)), to_np(S0)
        kn = Kalman(ss, x0np, S0np)
        plan = ["update"] * rng.randint(0, 2) + [rng.choice(STAT_KINDS)]
        for _j in range(rng.randint(3, 7)):
            plan.append(rng.choice(["update", "update", "update", "update", "set-near", "set-near", "set-far", "set-exact",
                                    "p2f", "f2f", "edit-ss", rng.choice(STAT_KINDS)]))
        hist_line, hist_impl, cnt, cache = [], [], 0, False
        hreplay = {"op": "history", "A": ratm(A), "C": ratm(C), "G": ratm(G), "H": ratm(H), "x_hat": rats(xh),
                   "Sigma": ratm(S0), "calls": []}
        ok_hist = True
        au = Audit(hreplay)
        KAL_ALLOWED = {"set_state:x_hat~input x_hat": "kalman_set_state_keeps_caller_arrays",
                       "set_state:Sigma~input Sigma": "kalman_set_state_keeps_caller_arrays",
                       "stationary_values:Sigma_infinity~cache": "stationary_values_returns_cache",
                       "stationary_values:K_infinity~cache": "stationary_values_returns_cache"}

        def flush():
            """emit the history walked so far as one model case and start a new segment at the current state"""
            nonlocal hist_line, hist_impl, cnt, x0np, S0np
            if cnt:
                line = "C12 history %s x=%s S=%s n=%d %s" % (ss_line(A, C, G, H), rats([r_[0] for r_ in fm(x0np)]),
                                                             ratm(fm(S0np)), cnt, " ".join(hist_line))
                cases.append(Case(line, "ok " + " ".join(hist_impl), nontrivial=True, cmp=env_cmp(ENV_K, errs_k), tag="history"))
            hist_line, hist_impl, cnt = [], [], 0
            x0np, S0np = np.array(kn.x_hat), np.array(kn.Sigma)

        for op in plan:
            xcur, Scur = [r_[0] for r_ in fm(kn.x_hat)], fm(kn.Sigma)
            if op == "edit-ss":
                # attribute reassignment / in-place edit of the model the filter is built on: later calls must use it
                flush()
                A = [list(r_) for r_ in A]
                G = [list(r_) for r_ in G]
                if rng.random() < 0.5:
                    i_, j_ = rng.randrange(n), rng.randrange(n)
                    v = F(rng.choice([-1, 1]), 16)
                    A[i_][j_] += v
                    if ninf(A) >= 1:
                        A[i_][j_] -= 2 * v
                    kn.ss.A[i_, j_] = float(A[i_][j_])
                    hreplay["calls"].append("in place ss.A[%d,%d] = %s" % (i_, j_, rat(A[i_][j_])))
                else:
                    G = gen_mat(rng, k, n, den=2, lo=-3, hi=3)
                    kn.ss.G = to_np(G)
                    hreplay["calls"].append("ss.G = %s" % ratm(G))
                hreplay.update({"A_after_edit": ratm(A), "G_after_edit": ratm(G)})
                owned_all[:] = [e_ for e_ in owned_all if not (isinstance(e_[1], np.ndarray) and np.shares_memory(e_[1], kn.ss.A))]
                ctx.count("history:edit-ss")
                if cache:
                    try:
                        Kfresh = Kalman(kn.ss).stationary_values()[1]
                        if not np.allclose(kn.K_infinity, Kfresh, rtol=1e-9, atol=1e-12):
                            finding("kalman_stationary_cache_stale", "K_infinity / Sigma_infinity keep the values of the model before "
                                    "ss.A / ss.G were changed (the properties never recompute)", dict(hreplay))
                        res_ = kn.stationary_values()
                        au.keep("stationary_values", *res_)
                        hist_line.append("op%d=stat Sg%d=%s" % (cnt, cnt, ratm(fm(np.array(kn.Sigma_infinity)))))
                        hist_impl.append("x%d=%s S%d=%s K%d=%s" % (cnt, wire_f(kn.x_hat), cnt, wire_f(kn.Sigma), cnt, wire_f(kn.K_infinity)))
                        cnt += 1
                    except (ValueError, LinAlgError):
                        ok_hist = False
                        break
                continue
            if op in STAT_KINDS:
                xb, Sb = np.array(kn.x_hat), np.array(kn.Sigma)
                try:
                    res_ = do_stat(kn, op)
                    Sinf, Kinf = np.array(kn.Sigma_infinity), np.array(kn.K_infinity)
                    if op.startswith("sv-"):
                        au.alias("stationary_values", [("Sigma_infinity", res_[0]), ("K_infinity", res_[1])],
                                 [("cache.Sigma_infinity", kn.Sigma_infinity), ("cache.K_infinity", kn.K_infinity),
                                  ("kn.x_hat", kn.x_hat), ("kn.Sigma", kn.Sigma), ("ss.A", kn.ss.A), ("ss.G", kn.ss.G)], KAL_ALLOWED)
                        au.keep("stationary_values", *res_)
                except (ValueError, LinAlgError) as e:
                    ctx.count("history:stat-raised-" + type(e).__name__)
                    ok_hist = False
                    break
                cache = True
                ctx.count("history:" + op)
                hreplay["calls"].append(op)
                if not (np.array_equal(xb, kn.x_hat) and np.array_equal(Sb, kn.Sigma)):
                    ctx.spec_fail("history_stat_changes_state", "%s changed (x_hat, Sigma)" % op, hreplay)
                hist_line.append("op%d=stat Sg%d=%s" % (cnt, cnt, ratm(fm(Sinf))))
            elif op.startswith("set"):
                if op == "set-far" or not cache:
                    xs, Ss = gen_vec(rng, n), gen_psd(rng, n, rng.choice(["full", "low"]))
                    op = "set-far"
                else:
                    Sinf_e = fm(np.array(kn.Sigma_infinity))
                    Ss = [[(Sinf_e[i_][j_] + Sinf_e[j_][i_]) / 2 for j_ in range(n)] for i_ in range(n)]
                    if op == "set-near":
                        L = gen_mat(rng, n, n, den=1, lo=-2, hi=2)
                        P = mm(L, tr(L))
                        pm = maxabs(P)
                        d = F(1, 2 ** rng.randint(7, 20))     # perturbation of absolute size 7.8e-3 .. 9.5e-7
                        if pm > 0:
                            Ss = madd(Ss, scal(d / pm, P))
                        ctx.count("history:set-near-2^-%d" % (d.denominator.bit_length() - 1))
                    xs = gen_vec(rng, n)
                xnp, Snp = to_np(col(xs)), to_np(Ss)
                if rng.random() < 0.5:
                    kn.set_state(xnp, Snp)
                else:
                    kn.set_state(Sigma=Snp, x_hat=xnp)
                au.alias("set_state", [("x_hat", kn.x_hat), ("Sigma", kn.Sigma)], [("input x_hat", xnp), ("input Sigma", Snp)], KAL_ALLOWED)
                xs, Ss = [r_[0] for r_ in fm(xnp)], fm(Snp)   # the exact doubles handed over
                ctx.count("history:" + op)
                hreplay["calls"].append("%s x=%s S=%s" % (op, rats(xs), ratm(Ss)))
                hist_line.append("op%d=set x%d=%s S%d=%s" % (cnt, cnt, rats(xs), cnt, ratm(Ss)))
            else:
                y = gen_real(rng, k) if rng.random() < 0.3 else gen_vec(rng, k)
                ys_ = [] if op == "f2f" else [y]
                ctx.count("history:" + op + ("-after-stat" if cache else ""))
                if cache and op == "update":
                    Sinf_np = np.array(kn.Sigma_infinity)
                    if np.allclose(np.array(kn.Sigma), Sinf_np, rtol=1e-4, atol=1e-2) and not np.array_equal(np.array(kn.Sigma), Sinf_np):
                        ctx.count("history:update-within-1e-2-of-Sigma_inf")
                hreplay["calls"].append("%s y=%s" % (op, rats(y)) if ys_ else op)
                o_ = dict(kn=kn, keep=True, ys=[to_np(col(y))] if ys_ else [], forms="history: " + "; ".join(hreplay["calls"]))
                kalman_case(A, C, G, H, xcur, Scur, ys_, op, objs=o_, tag="kalman-history")
                au.alias(op, [("x_hat", kn.x_hat), ("Sigma", kn.Sigma)],
                         [("y", yo_) for yo_ in o_["ys"]] +
                         [("ss." + nm, v_) for nm, v_ in vars(kn.ss).items() if isinstance(v_, np.ndarray)] +
                         [("kn." + nm, v_) for nm, v_ in vars(kn).items() if isinstance(v_, np.ndarray) and nm not in ("x_hat", "Sigma")])
                hist_line.append("op%d=%s" % (cnt, op) + (" y%d=%s" % (cnt, rats(y)) if ys_ else ""))
            hist_impl.append("x%d=%s S%d=%s K%d=%s" % (cnt, wire_f(kn.x_hat), cnt, wire_f(kn.Sigma), cnt,
                                                      wire_f(kn.K_infinity) if cache else "-"))
            cnt += 1
            # every array handed out so far (states, stationary values) must still hold the bits it had when returned
            if not au.recheck(hreplay["calls"][-1] if hreplay["calls"] else op):
                ok_hist = False
                break
            au.keep("state after call %d (%s)" % (len(hreplay["calls"]), op), kn.x_hat, kn.Sigma)
        if ok_hist and cnt:
            flush()
            ctx.count("history:A-" + akind)

    # ---- Kalman: stationary values ------------------------------------------------------------------
    n_stat = ctx.n(30, 700)
    for _ in range(n_stat):
        n, k, m = rng.randint(1, 4), rng.randint(1, 3), rng.randint(1, 3)
        akind = rng.choice(["stable", "stable", "tri", "unstable"])
        A, C, G = gen_A(rng, n, akind), gen_C(rng, n, m, rng.choice(["full", "full", "zerorow", "rank1"])), \
            gen_mat(rng, k, n, den=2, lo=-3, hi=3)
        H = gen_H(rng, k, "full")
        ss = mk_ss(A, C, G, H)
        kn = Kalman(ss)
        replay = {"op": "stationary", "A": ratm(A), "C": ratm(C), "G": ratm(G), "H": ratm(H)}
        try:
            Sig, K = kn.stationary_values()
        except (ValueError, LinAlgError) as e:
            ctx.count("stationary:solver-raised-" + type(e).__name__ + "-" + akind)
            continue
        if not (np.all(np.isfinite(Sig)) and np.all(np.isfinite(K))):
            ctx.count("stationary:nonfinite-" + akind)
            continue
        Se, Ke = fm(Sig), fm(K)
        Q, R = mm(C, tr(C)), mm(H, tr(H))
        Fm = madd(mm(mm(G, Se), tr(G)), R)
        scale = max(F(1), maxabs(Se), maxabs(Ke), maxabs(Fm))
        tol = F(ENV_K) * scale
        # a fixed point exists and is what the code returned?  (mildly unstable A without detectability has none)
        ASG = mm(mm(A, Se), tr(G))
        Fi = solve_exact(Fm, eye(k))
        if Fi is None:
            ctx.spec_fail("stationary_gain", "G Sigma_inf G' + R is singular", replay)
            continue
        ricc = madd(msub(mm(mm(A, Se), tr(A)), mm(mm(ASG, Fi), tr(ASG))), Q)
        res = maxabs(msub(ricc, Se))
        if akind == "unstable" and res > tol:
            # not detectable / no stabilising solution: outside the property's "stationary" clause
            ctx.count("stationary:unstable-no-fixed-point-skipped")
            continue
        ctx.count("stationary:A-" + akind)
        if res > tol:
            ctx.spec_fail("stationary_riccati", "Sigma_infinity violates the dual Riccati equation by %.3e" % float(res), replay)
        if maxabs(msub(mm(Ke, Fm), ASG)) > tol * max(F(1), maxabs(Fm)):
            ctx.spec_fail("stationary_gain", "K_infinity (G S G' + R) != A S G'", replay)
        if maxabs(msub(Se, tr(Se))) > tol or not psd_tol(Se, tol):
            ctx.spec_fail("stationary_psd", "Sigma_infinity is not symmetric PSD", replay)
        # fixed point of the code's own update, arbitrary x_hat and y
        xh, y = gen_vec(rng, n), gen_vec(rng, k)
        k2 = Kalman(ss, to_np(col(xh)), np.array(Sig))
        try:
            k2.update(to_np(col(y)))
        except LinAlgError:
            ctx.spec_fail("stationary_fixed_point", "update() raised LinAlgError at Sigma_infinity", replay)
            continue
        if maxabs(msub(fm(k2.Sigma), Se)) > tol:
            ctx.spec_fail("stationary_fixed_point", "update() maps Sigma_infinity to a different covariance (diff %.3e)"
                          % float(maxabs(msub(fm(k2.Sigma), Se))), replay)
        xe = madd(mm(A, col(xh)), mm(Ke, msub(col(y), mm(G, col(xh)))))
        if maxabs(msub(fm(k2.x_hat), xe)) > F(ENV_K) * max(F(1), maxabs(xe), scale):
            ctx.spec_fail("stationary_fixed_point", "at Sigma_infinity x_hat' != A x_hat + K_inf (y - G x_hat)", replay)
        V = kn.stationary_innovation_covar()
        impl = "ok K=%s V=%s" % (wire_f(K), wire_f(V))
        line = "C12 statgain A=%s G=%s H=%s S=%s" % (ratm(A), ratm(G), ratm(H), ratm(Se))
        cases.append(Case(line, impl, nontrivial=(n >= 2), cmp=env_cmp(ENV_K, errs_k), tag="statgain"))

    # ---- jitted kernel ------------------------------------------------------------------------------
    for i in range(ctx.n(50, 1000)):
        n, ts = rng.randint(1, 4), rng.randint(1, 8)
        if i % 2 == 0:   # dyadic, Rat model
            A = gen_A(rng, n, rng.choice(["stable", "unstable", "tri"]))
            x0 = gen_vec(rng, n, den=4, lo=-8, hi=8)
            v = gen_mat(rng, n, ts - 1, den=4, lo=-8, hi=8)
            out = simulate_linear_model(to_np(A), np.array([float(t) for t in x0]), to_np(v, (n, ts - 1)), ts)
            line = "C12 simk A=%s x0=%s v=%s ts=%d" % (ratm(A), rats(x0), ratm(v) if ts > 1 else "-", ts)
            cases.append(Case(line, "ok x=%s" % wire_f(out), nontrivial=(ts >= 3), cmp=env_cmp(ENV_X, errs_x), tag="simk"))
            Ae, xe = A, fm(out)
            ve = v
        else:            # arbitrary doubles, Float model, bit for bit
            r = ctx.np_rng()
            A = r.standard_normal((n, n)) * 0.7
            x0 = r.standard_normal(n)
            v = r.standard_normal((n, ts - 1))
            out = simulate_linear_model(A, x0, v, ts)
            line = "C12 simkf A=%s x0=%s v=%s ts=%d" % (wire_f(A), ",".join(fx(t) for t in x0),
                                                       wire_f(v) if ts > 1 else "-", ts)
            cases.append(Case(line, "ok x=%s" % wire_f(out), nontrivial=(ts >= 3), tag="simkf"))
            Ae, xe, ve = fm(A), fm(out), fm(v)
            x0 = [F(float(t)) for t in x0]
        # spec: the matrix recursion on the given shocks
        ok = [xe[i_][0] for i_ in range(n)] == list(x0)
        for t in range(ts - 1):
            nx = madd(mm(Ae, [[xe[i_][t]] for i_ in range(n)]), [[ve[i_][t]] for i_ in range(n)])
            sc = max(F(1), maxabs(nx))
            ok = ok and all(abs(nx[i_][0] - xe[i_][t + 1]) <= F(ENV_X) * sc for i_ in range(n))
        if out.shape != (n, ts) or not ok:
            ctx.spec_fail("simulate_linear_model", "path violates x_{t+1} = A x_t + v_t",
                          {"op": "simk", "A": wire_f(to_np(Ae)), "x0": rats(x0), "v": wire_f(to_np(ve, (n, ts - 1))), "ts": ts})

    # ---- simulate / replicate -----------------------------------------------------------------------
    def lss_random(allow_noH=True):
        n, k, m = rng.randint(1, 4), rng.randint(1, 3), rng.randint(1, 3)
        A = gen_A(rng, n, rng.choice(["stable", "unstable", "tri"]))
        C = gen_C(rng, n, m, rng.choice(["full", "full", "zero", "zerorow", "rank1"]))
        G = gen_mat(rng, k, n, den=2, lo=-3, hi=3)
        H = None if (allow_noH and rng.random() < 0.3) else gen_H(rng, k, rng.choice(["full", "zero", "zerorow", "thin", "any"]))
        mu0 = gen_vec(rng, n, den=4, lo=-8, hi=8)
        S0 = gen_psd(rng, n, rng.choice(["full", "low", "zero"]))
        if rng.random() < 0.3:      # integer-valued model: reaches the integer representations of mk_ss
            ctx.count("lss:integer-model")
            A = gen_mat(rng, n, n, den=1, lo=-1, hi=1)
            C = gen_mat(rng, n, m, den=1, lo=-2, hi=2)
            G = gen_mat(rng, k, n, den=1, lo=-2, hi=2)
            if H is not None:
                H = gen_mat(rng, k, len(H[0]), den=1, lo=-2, hi=2)
            mu0 = gen_vec(rng, n, den=1, lo=-8, hi=8)
            L = gen_mat(rng, n, n, den=1, lo=-2, hi=2)
            S0 = mm(L, tr(L))
        return n, k, m, A, C, G, H, mu0, S0

    def check_stream(calls, mu0, S0, expect, key, replay):
        """the generator was asked for N(mu_0, Sigma_0) and for standard normals of the documented sizes"""
        good = len(calls) == len(expect)
        for c, e in zip(calls, expect):
            if e == "mvn":
                good = good and c[0] == "mvn" and c[1].tolist() == [float(t) for t in mu0] and \
                    c[2].tolist() == to_np(S0).tolist()
            else:
                good = good and c[0] == "sn" and tuple(c[1]) == tuple(e)
        if not good:
            ctx.spec_fail(key, "random draws requested are not N(mu_0, Sigma_0) / standard normals of sizes %s" % (expect,), replay)
        return good

    for i in range(ctx.n(50, 1000)):
        n, k, m, A, C, G, H, mu0, S0 = lss_random()
        l = len(H[0]) if H is not None else 0
        ts = rng.randint(1, 7)
        ss = mk_ss(A, C, G, H, mu0, S0)
        scripted = i % 3 != 0
        rs = Scripted(rng, lambda: gen_vec(rng, n, den=4, lo=-8, hi=8)) if scripted else Recording(rng.randrange(2 ** 31))
        x, y = ss.simulate(ts_length=ts, random_state=rs)
        replay = {"op": "simulate", "A": ratm(A), "C": ratm(C), "G": ratm(G), "H": ratm(H) if H is not None else None,
                  "mu_0": rats(mu0), "Sigma_0": ratm(S0), "ts": ts, "scripted": scripted,
                  "draws": [wire_f(c[-1]) for c in rs.calls]}
        expect = ["mvn", (m, ts - 1)] + ([(l, ts)] if H is not None else [])
        if not check_stream(rs.calls, mu0, S0, expect, "simulate_draws", replay):
            continue
        x0 = [F(float(t)) for t in rs.calls[0][3]]
        w = fm(rs.calls[1][2].reshape(m, ts - 1)) if ts > 1 else [[] for _ in range(m)]
        v2 = fm(rs.calls[2][2].reshape(l, ts)) if H is not None else []
        ctx.count("simulate:" + ("scripted" if scripted else "recorded") + ("-noH" if H is None else ""))
        # spec: the law on the recorded shocks
        xe, ye = fm(x), fm(y)
        good = x.shape == (n, ts) and y.shape == (k, ts) and [xe[i_][0] for i_ in range(n)] == x0
        for t in range(ts):
            xt = [[xe[i_][t]] for i_ in range(n)]
            if t + 1 < ts:
                nx = madd(mm(A, xt), mm(C, [[w[j][t]] for j in range(m)]))
                sc = F(ENV_X) * max(F(1), maxabs(nx))
                good = good and all(abs(nx[i_][0] - xe[i_][t + 1]) <= sc for i_ in range(n))
            yt = mm(G, xt)
            if H is not None:
                yt = madd(yt, mm(H, [[v2[j][t]] for j in range(l)]))
            sc = F(ENV_X) * max(F(1), maxabs(yt))
            good = good and all(abs(yt[i_][0] - ye[i_][t]) <= sc for i_ in range(k))
        if not good:
            ctx.spec_fail("simulate_law", "simulate() path violates x_{t+1}=A x_t+C w_{t+1}, y_t=G x_t+H v_t on the drawn shocks", replay)
        line = "C12 simulate %s x0=%s w=%s v2=%s ts=%d" % (ss_line(A, C, G, H), rats(x0), rats(flat(w)), rats(flat(v2)), ts)
        cases.append(Case(line, "ok x=%s y=%s" % (wire_f(x), wire_f(y)), nontrivial=(ts >= 3),
                          cmp=env_cmp(ENV_X, errs_x), tag="simulate"))

    for i in range(ctx.n(30, 500)):
        n, k, m, A, C, G, H, mu0, S0 = lss_random()
        l = len(H[0]) if H is not None else 0
        T, reps = rng.randint(0, 5), rng.randint(1, 4)
        ss = mk_ss(A, C, G, H, mu0, S0)
        scripted = i % 3 != 0
        rs = Scripted(rng, lambda: gen_vec(rng, n, den=4, lo=-8, hi=8)) if scripted else Recording(rng.randrange(2 ** 31))
        x, y = ss.replicate(T=T, num_reps=reps, random_state=rs)
        replay = {"op": "replicate", "A": ratm(A), "C": ratm(C), "G": ratm(G), "H": ratm(H) if H is not None else None,
                  "mu_0": rats(mu0), "Sigma_0": ratm(S0), "T": T, "num_reps": reps, "draws": [wire_f(c[-1]) for c in rs.calls]}
        per = ["mvn", (m, T)] + ([(l, T + 1)] if H is not None else [])
        expect = per * reps + ([(l, reps)] if H is not None else [])
        if not check_stream(rs.calls, mu0, S0, expect, "replicate_draws", replay):
            continue
        x0s, ws = [], []
        for j in range(reps):
            c = rs.calls[j * len(per):(j + 1) * len(per)]
            x0s.append([F(float(t)) for t in c[0][3]])
            ws.append(fm(c[1][2].reshape(m, T)) if T > 0 else [[] for _ in range(m)])
        v2 = fm(rs.calls[-1][2].reshape(l, reps)) if H is not None else []
        # spec: column j is x_T of the j-th path; y = G x + H v
        xe, ye = fm(x), fm(y)
        good = x.shape == (n, reps) and y.shape == (k, reps)
        for j in range(reps):
            xt = col(x0s[j])
            for t in range(T):
                xt = madd(mm(A, xt), mm(C, [[ws[j][q][t]] for q in range(m)]))
            sc = F(ENV_X) * max(F(1), maxabs(xt))
            good = good and all(abs(xt[i_][0] - xe[i_][j]) <= sc for i_ in range(n))
            yt = mm(G, [[xe[i_][j]] for i_ in range(n)])
            if H is not None:
                yt = madd(yt, mm(H, [[v2[q][j]] for q in range(l)]))
            sc = F(ENV_X) * max(F(1), maxabs(yt))
            good = good and all(abs(yt[i_][0] - ye[i_][j]) <= sc for i_ in range(k))
        if not good:
            ctx.spec_fail("replicate_law", "replicate() columns are not x_T / y_T of the drawn paths", replay)
        ctx.count("replicate:T=%d" % T)
        line = "C12 replicate %s x0s=%s ws=%s v2=%s T=%d" % (
            ss_line(A, C, G, H), ratm(x0s), ";".join(rats(flat(wj)) for wj in ws) if T > 0 else "-", rats(flat(v2)), T)
        cases.append(Case(line, "ok x=%s y=%s" % (wire_f(x), wire_f(y)), nontrivial=(T >= 2),
                          cmp=env_cmp(ENV_X, errs_x), tag="replicate"))

    # ---- moment_sequence, impulse_response, geometric_sums ---------------------------------------------
    for _ in range(ctx.n(40, 700)):
        n, k, m, A, C, G, H, mu0, S0 = lss_random()
        ss = mk_ss(A, C, G, H, mu0, S0)
        kk = rng.randint(1, 6)
        gen = ss.moment_sequence()
        got = [next(gen) for _ in range(kk)]
        replay = {"op": "moments", "A": ratm(A), "C": ratm(C), "G": ratm(G), "H": ratm(H) if H is not None else None,
                  "mu_0": rats(mu0), "Sigma_0": ratm(S0), "k": kk}
        Q = mm(C, tr(C))
        for t, (mx, my, Sx, Sy) in enumerate(got):
            At = mpow(A, t)
            mxe = mm(At, col(mu0))
            Sxe = mm(mm(At, S0), tr(At))
            for j in range(t):
                Aj = mpow(A, j)
                Sxe = madd(Sxe, mm(mm(Aj, Q), tr(Aj)))
            mye = mm(G, mxe)
            Sye = mm(mm(G, Sxe), tr(G))
            if H is not None:
                Sye = madd(Sye, mm(H, tr(H)))
            sc = F(ENV_X) * max(F(1), maxabs(Sxe), maxabs(Sye), maxabs(mxe))
            if not (close(fm(mx), mxe, sc) and close(fm(my), mye, sc) and close(fm(Sx), Sxe, sc) and close(fm(Sy), Sye, sc)):
                ctx.spec_fail("moment_sequence", "moments at t=%d differ from the closed form" % t, replay)
        impl = "ok " + " ".join("mx%d=%s my%d=%s Sx%d=%s Sy%d=%s" % (t, wire_f(a), t, wire_f(b), t, wire_f(c), t, wire_f(d))
                                for t, (a, b, c, d) in enumerate(got))
        line = "C12 moments %s mu0=%s S0=%s k=%d" % (ss_line(A, C, G, H), rats(mu0), ratm(S0), kk)
        cases.append(Case(line, impl, nontrivial=(kk >= 2), cmp=env_cmp(ENV_X, errs_x), tag="moments"))
        if H is None:
            ctx.count("moments:noH")

    for _ in range(ctx.n(40, 700)):
        n, k, m, A, C, G, H, mu0, S0 = lss_random()
        ss = mk_ss(A, C, G, H, mu0, S0)
        j = rng.randint(-1, 6)
        xc, yc = ss.impulse_response(j)
        replay = {"op": "impulse", "A": ratm(A), "C": ratm(C), "G": ratm(G), "j": j}
        good = len(xc) == max(j, 0) + 1 and len(yc) == max(j, 0) + 1
        for i in range(min(len(xc), len(yc))):
            e = mm(mpow(A, i), C)
            sc = F(ENV_X) * max(F(1), maxabs(e))
            good = good and close(fm(xc[i]), e, sc) and close(fm(yc[i]), mm(G, e), sc * max(F(1), ninf(G)))
        if not good:
            ctx.spec_fail("impulse_response", "coefficients are not A^i C / G A^i C", replay)
        impl = "ok " + " ".join("xc%d=%s" % (i, wire_f(a)) for i, a in enumerate(xc)) + " " + \
            " ".join("yc%d=%s" % (i, wire_f(a)) for i, a in enumerate(yc))
        cases.append(Case("C12 impulse A=%s C=%s G=%s j=%d" % (ratm(A), ratm(C), ratm(G), j), impl, nontrivial=(j >= 2),
                          cmp=env_cmp(ENV_X, errs_x), tag="impulse"))

    for i in range(ctx.n(40, 700)):
        n, k, m, A, C, G, H, mu0, S0 = lss_random()
        ss = mk_ss(A, C, G, H, mu0, S0)
        beta = F(rng.randint(0, 15), 16)
        xt = gen_vec(rng, n, den=4, lo=-8, hi=8)
        singular = False
        if i % 10 == 9:     # exactly singular I - beta A with a zero row
            r0 = rng.randrange(n)
            A = [list(r) for r in A]
            A[r0] = [F(2) if j == r0 else F(0) for j in range(n)]
            beta = F(1, 2)
            ss = mk_ss(A, C, G, H, mu0, S0)
            singular = True
        replay = {"op": "geosum", "A": ratm(A), "G": ratm(G), "beta": rat(beta), "x": rats(xt)}
        if not singular and solve_exact(msub(eye(n), scal(beta, A)), eye(n)) is None:
            ctx.count("geosum:singular-skipped")      # exactly singular without a zero row: detection in doubles not guaranteed
            continue
        xkind = rng.choice(["float-col", "intcol", "listcol"]) if all(t.denominator == 1 for t in xt) else "float-col"
        xobj = vec_form(xt, xkind)
        owned_all.append(("x_t:" + xkind, xobj, snapshot(xobj)))
        try:
            Sx, Sy = ss.geometric_sums(float(beta), xobj)
            impl = "ok Sx=%s Sy=%s" % (wire_f(Sx), wire_f(Sy))
            IbA = msub(eye(n), scal(beta, A))
            Sxe = fm(Sx)
            cnd = ninf(IbA) * ninf(solve_exact(IbA, eye(n)) or [[F(10) ** 30]])
            sc = F(ENV_K) * max(F(1), maxabs(Sxe), maxabs(col(xt))) * max(F(1), cnd)
            if singular or Sx.shape != (n, 1) or not close(mm(IbA, Sxe), col(xt), sc) or \
                    not close(fm(Sy), mm(G, Sxe), sc * max(F(1), ninf(G))):
                ctx.spec_fail("geometric_sums", "S_x does not solve (I - beta A) S_x = x_t, or S_y != G S_x", replay)
            if cnd > COND_MAX:
                ctx.count("geosum:illcond-skipped")
                continue
        except LinAlgError:
            impl = "ERR:LinAlgError"
            ctx.count("geosum:LinAlgError")
            if not singular:
                ctx.spec_fail("geometric_sums", "solve raised on a nonsingular I - beta A", replay)
        cases.append(Case("C12 geosum A=%s G=%s beta=%s x=%s" % (ratm(A), ratm(G), rat(beta), rats(xt)), impl,
                          nontrivial=(n >= 2), cmp=env_cmp(ENV_K, errs_k), tag="geosum"))

    # ---- constant-state partition and stationary distributions -------------------------------------------
    def gen_const_model(n_const, near_miss):
        n = rng.randint(max(1, n_const), 4)
        k, m = rng.randint(1, 2), rng.randint(1, 2)
        A = gen_A(rng, n, rng.choice(["stable", "tri"]))
        C = gen_C(rng, n, m, rng.choice(["full", "full", "rank1"]))
        consts = sorted(rng.sample(range(n), n_const))
        for c in consts:
            A[c] = [F(int(j == c)) for j in range(n)]
            C[c] = [F(0)] * m
            # the constant feeds the other states
        for i in range(n):
            if i not in consts:
                for c in consts:
                    A[i][c] = F(rng.randint(-4, 4), 4)
        miss = None
        if near_miss:
            cand = [i for i in range(n) if i not in consts]
            if cand:
                i = rng.choice(cand)
                miss = rng.choice(["C-nonzero", "offdiag", "diag-minus-one", "other-unit"])
                A[i] = [F(int(j == i)) for j in range(n)]
                C[i] = [F(0)] * m
                if miss == "C-nonzero":
                    C[i][rng.randrange(m)] = F(1, 2)
                elif miss == "offdiag":
                    if n >= 2:
                        A[i][(i + 1) % n] = F(1, 4)
                    else:
                        A[i][i] = F(1, 2)
                elif miss == "diag-minus-one":
                    A[i][i] = F(-1)
                else:
                    A[i] = [F(int(j == (i + 1) % n)) for j in range(n)] if n >= 2 else [F(0)]
        G = gen_mat(rng, k, n, den=2, lo=-3, hi=3)
        H = None if rng.random() < 0.4 else gen_H(rng, k, rng.choice(["full", "zero", "any"]))
        return n, A, C, G, H, consts, miss

    def part_impl(ss):
        return "ok nc=%d idx=%s P=%s A21=%s A22=%s C2=%s" % (
            ss.num_const, ",".join(str(int(t)) for t in ss.sorted_idx) if len(ss.sorted_idx) else "-",
            wire_f(ss.P), wire_f(ss.A21), wire_f(ss.A22), wire_f(ss.C2))

    def statdist_case(A, C, G, H, mu0, consts, miss):
        n = len(A)
        ss = mk_ss(A, C, G, H, mu0, None)
        replay = {"op": "statdist", "A": ratm(A), "C": ratm(C), "G": ratm(G), "H": ratm(H) if H is not None else None,
                  "mu_0": rats(mu0)}
        # partition alone (private method, as called by stationary_distributions)
        ss._LinearStateSpace__partition()
        if sorted(ss.sorted_idx[:ss.num_const]) != consts or sorted(ss.sorted_idx) != list(range(n)):
            ctx.spec_fail("partition", "constant states found %s, expected %s" % (ss.sorted_idx[:ss.num_const], consts), replay)
        cases.append(Case("C12 partition A=%s C=%s" % (ratm(A), ratm(C)), part_impl(ss), nontrivial=(n >= 2), cmp=env_cmp(0), tag="partition"))
        ctx.count("partition:nc=%d" % ss.num_const)
        if miss:
            ctx.count("partition:near-miss-" + miss)
            return
        ss = mk_ss(A, C, G, H, mu0, None)
        try:
            mx, my, Sx, Sy, Syx = ss.stationary_distributions()
            impl = "ok mx=%s my=%s Sx=%s Sy=%s Syx=%s" % tuple(wire_f(t) for t in (mx, my, Sx, Sy, Syx))
        except ValueError:
            impl = "ERR:ValueError"
        except LinAlgError:
            impl = "ERR:LinAlgError"
        ctx.count("statdist:" + impl.split()[0] + ":nc=%d" % len(consts))
        cases.append(Case("C12 statdist %s mu0=%s" % (ss_line(A, C, G, H), rats(mu0)), impl, nontrivial=(n >= 2),
                          cmp=env_cmp(ENV_K, errs_k), tag="statdist"))
        if not impl.startswith("ok"):
            ctx.spec_fail("stationary_distributions", "raised %s on a model with stable non-constant block" % impl, replay)
            return
        if consts and any(mu0[c] != 1 for c in consts):
            ctx.count("statdist:const-value-not-one")
        mxe, mye, Sxe, Sye, Syxe = fm(mx), fm(my), fm(Sx), fm(Sy), fm(Syx)
        sc = F(ENV_K) * max(F(1), maxabs(Sxe), maxabs(mxe), maxabs(col(mu0)))
        mean_ok = close(mm(A, mxe), mxe, sc) and all(abs(mxe[c][0] - mu0[c]) <= sc for c in consts) and \
            close(mye, mm(G, mxe), sc * max(F(1), ninf(G)))
        if not mean_ok:
            if consts and any(mu0[c] != 1 for c in consts):
                ctx.spec_fail("stationary_const_not_one",
                              "stationary mean is not a fixed point of mu = A mu with the constant state(s) at their values %s"
                              % [str(mu0[c]) for c in consts], replay)
            else:
                ctx.spec_fail("stationary_distributions", "stationary mean is not a fixed point of mu = A mu", replay)
        Q = mm(C, tr(C))
        Sye_ref = mm(mm(G, Sxe), tr(G))
        if H is not None:
            Sye_ref = madd(Sye_ref, mm(H, tr(H)))
        g2 = max(F(1), ninf(G)) ** 2
        if not (close(madd(mm(mm(A, Sxe), tr(A)), Q), Sxe, sc) and close(Sxe, tr(Sxe), sc) and psd_tol(Sxe, sc)
                and close(Sye, Sye_ref, sc * g2) and close(Syxe, mm(G, Sxe), sc * g2)):
            ctx.spec_fail("stationary_distributions", "stationary covariances violate S = A S A' + CC' / S_y / S_yx", replay)

    # corpus first: the inputs of the repaired defect (fix f83dcdb) and the edge shapes
    import json
    import os
    cpath = os.path.join(ctx.corpus_dir, "c12_statdist.json")
    if os.path.exists(cpath):
        for e in json.load(open(cpath)):
            A, C, G = parse_ratm(e["A"]), parse_ratm(e["C"]), parse_ratm(e["G"])
            H = parse_ratm(e["H"]) if e.get("H") else None
            mu0 = parse_ratm(e["mu0"])[0]
            consts = [i for i in range(len(A)) if A[i][i] == 1 and all(v == 0 for v in C[i])
                      and sum(v * v for v in A[i]) == 1]
            ctx.count("statdist:corpus")
            statdist_case(A, C, G, H, mu0, consts, None)

    for i in range(ctx.n(60, 1000)):
        n_const = rng.choice([0, 1, 1, 1, 2])
        near = rng.random() < 0.3
        n, A, C, G, H, consts, miss = gen_const_model(n_const, near)
        cval = rng.choice([F(1), F(1), F(1), F(2), F(-1, 2), F(0)])
        mu0 = gen_vec(rng, n, den=4, lo=-8, hi=8)
        for c in consts:
            mu0[c] = cval if rng.random() < 0.7 else F(rng.randint(-8, 8), 4)
        statdist_case(A, C, G, H, mu0, consts, miss)

    # ---- hardening: histories on ONE LinearStateSpace, retention of every returned result, aliasing audit, ---------
    # ---- scalar / optional argument forms ----------------------------------------------------------------------------
    def exp_moments(A, C, G, H, mu0, S0, t):
        At = mpow(A, t)
        mx = mm(At, col(mu0))
        Sx = mm(mm(At, S0), tr(At))
        Q = mm(C, tr(C))
        for j_ in range(t):
            Aj = mpow(A, j_)
            Sx = madd(Sx, mm(mm(Aj, Q), tr(Aj)))
        Sy = mm(mm(G, Sx), tr(G))
        if H is not None:
            Sy = madd(Sy, mm(H, tr(H)))
        return mx, mm(G, mx), Sx, Sy

    def int_scalar(v):
        ty = rng.choice(INT_SCALARS if v >= 0 else INT_SCALARS[:5])     # unsigned kinds only for non-negative values
        ctx.count("scalarforms:int=" + ty.__name__)
        return ty(v)

    def beta_form(b):
        kinds = ["pyfloat", "np.float64", "np.float32", "0d", "0d-f32"] + (["pyint", "False", "np.int8", "np.uint8", "np.uint64"] if b == 0 else [])
        kd = rng.choice(kinds)
        ctx.count("scalarforms:beta=" + kd)
        return {"pyfloat": float(b), "np.float64": np.float64(float(b)), "np.float32": np.float32(float(b)),
                "0d": np.array(float(b)), "0d-f32": np.array(float(b), dtype=np.float32), "pyint": 0, "False": False,
                "np.int8": np.int8(0), "np.uint8": np.uint8(0), "np.uint64": np.uint64(0)}[kd]

    # behaviours of the clean code that the aliasing rule flags: counted as unlisted findings, everything else is a violation
    ALLOWED_LSS = {"moment_sequence:mu_x~ss.mu_0": "moment_sequence_yields_own_mu_0",
                   "moment_sequence:Sigma_x~ss.Sigma_0": "moment_sequence_yields_own_Sigma_0",
                   "moment_sequence:mu_x~moment_sequence t=0": "moment_sequence_yields_own_mu_0",
                   "moment_sequence:Sigma_x~moment_sequence t=0": "moment_sequence_yields_own_Sigma_0",
                   "impulse_response:xcoef0~ss.C": "impulse_response_returns_own_C"}

    for _ in range(ctx.n(35, 400)):
        n, k, m = rng.randint(1, 3), rng.randint(1, 2), rng.randint(1, 2)
        st = {"A": gen_A(rng, n, rng.choice(["stable", "stable", "tri"])), "C": gen_C(rng, n, m, rng.choice(["full", "full", "rank1"])),
              "G": gen_mat(rng, k, n, den=2, lo=-3, hi=3),
              "H": None if rng.random() < 0.3 else gen_H(rng, k, rng.choice(["full", "zero", "any"])),
              "mu0": gen_vec(rng, n, den=4, lo=-8, hi=8), "S0": gen_psd(rng, n, rng.choice(["full", "low", "zero"]))}
        # optional arguments omitted / None / positional / keyword
        how = rng.choice(["positional", "keyword", "omit-defaults"])
        ctx.count("lsshist:ctor-" + how)
        if how == "omit-defaults":
            st["mu0"], st["S0"] = [F(0)] * n, zeros(n, n)
            if st["H"] is None and rng.random() < 0.5:
                ss = LinearStateSpace(any_mat(st["A"], "A"), any_mat(st["C"], "C"), any_mat(st["G"], "G"))
            else:
                ss = LinearStateSpace(any_mat(st["A"], "A"), any_mat(st["C"], "C"), any_mat(st["G"], "G"),
                                      None if st["H"] is None else any_mat(st["H"], "H"), None, None)
        elif how == "keyword":
            ss = LinearStateSpace(Sigma_0=any_mat(st["S0"], "Sigma_0"), mu_0=any_vec(st["mu0"], "mu_0"),
                                  H=None if st["H"] is None else any_mat(st["H"], "H"), G=any_mat(st["G"], "G"),
                                  C=any_mat(st["C"], "C"), A=any_mat(st["A"], "A"))
        else:
            ss = mk_ss(st["A"], st["C"], st["G"], st["H"], st["mu0"], st["S0"])
        calls = []
        replay = {"op": "lss-history", "A": ratm(st["A"]), "C": ratm(st["C"]), "G": ratm(st["G"]),
                  "H": ratm(st["H"]) if st["H"] is not None else None, "mu_0": rats(st["mu0"]), "Sigma_0": ratm(st["S0"]),
                  "ctor": how, "calls": calls}
        au = Audit(replay)
        gens = []       # live moment generators: (generator, state at its start, tuples taken)

        def obj_arrays(exclude=()):
            """every array the instance holds, whatever its attribute is called"""
            return [("ss." + nm, v_) for nm, v_ in vars(ss).items() if isinstance(v_, np.ndarray) and nm not in exclude]

        def attrs_ok(where):
            """the object's own arrays still hold the current state"""
            good = close(fm(ss.A), st["A"], 0) and close(fm(ss.C), st["C"], 0) and close(fm(ss.G), st["G"], 0) and \
                close(fm(ss.mu_0), col(st["mu0"]), 0) and close(fm(ss.Sigma_0), st["S0"], 0) and \
                ((ss.H is None) == (st["H"] is None)) and (st["H"] is None or close(fm(ss.H), st["H"], 0))
            if not good:
                ctx.spec_fail("lss_state_changed", "A/C/G/H/mu_0/Sigma_0 of the instance changed during `%s`" % where, replay)
            return good

        for step in range(rng.randint(4, 8)):
            op = rng.choice(["moments-new", "moments-new", "moments-continue", "statdist", "geosum", "geosum-mu0", "impulse",
                             "simulate", "replicate", "set-mu0", "set-S0", "set-A", "edit-inplace"])
            A, C, G, H, mu0, S0 = (st[q] for q in ("A", "C", "G", "H", "mu0", "S0"))
            ctx.count("lsshist:" + op)
            if op == "moments-new" or (op == "moments-continue" and not gens):
                g_ = ss.moment_sequence()
                kk = rng.randint(1, 3)
                got = [next(g_) for _q in range(kk)]
                gens.append([g_, dict(st), kk])
                calls.append("moment_sequence()[:%d]" % kk)
                base, t0 = dict(st), 0
            elif op == "moments-continue":
                ent = rng.choice(gens)
                kk = rng.randint(1, 2)
                got = [next(ent[0]) for _q in range(kk)]
                base, t0 = ent[1], ent[2]
                ent[2] += kk
                calls.append("continue an earlier moment generator for %d more" % kk)
                op = "moments-continue"
            if op.startswith("moments"):
                for q_, tup in enumerate(got):
                    e = exp_moments(base["A"], base["C"], base["G"], base["H"], base["mu0"], base["S0"], t0 + q_)
                    sc = F(ENV_X) * max(F(1), maxabs(e[2]), maxabs(e[3]), maxabs(e[0]))
                    if not all(close(fm(a_), b_, sc) for a_, b_ in zip(tup, e)):
                        ctx.spec_fail("moment_sequence_history", "tuple t=%d of a moment generator differs from the closed form of "
                                      "the model it was started on" % (t0 + q_), replay)
                    au.alias("moment_sequence", [("mu_x", tup[0]), ("mu_y", tup[1]), ("Sigma_x", tup[2]), ("Sigma_y", tup[3])],
                             obj_arrays(), ALLOWED_LSS)
                    au.keep("moment_sequence t=%d" % (t0 + q_), *tup)
                if t0 == 0:
                    impl = "ok " + " ".join("mx%d=%s my%d=%s Sx%d=%s Sy%d=%s" % (t, wire_f(a), t, wire_f(b), t, wire_f(c), t, wire_f(d))
                                            for t, (a, b, c, d) in enumerate(got))
                    cases.append(Case("C12 moments %s mu0=%s S0=%s k=%d" % (ss_line(A, C, G, H), rats(mu0), ratm(S0), len(got)), impl,
                                      cmp=env_cmp(ENV_X, errs_x), tag="lsshist-moments"))
            elif op == "statdist":
                try:
                    res = ss.stationary_distributions()
                except (ValueError, LinAlgError):
                    ctx.count("lsshist:statdist-raised")
                    continue
                calls.append("stationary_distributions()")
                mx, my, Sx, Sy, Syx = (fm(r_) for r_ in res)
                sc = F(ENV_K) * max(F(1), maxabs(Sx), maxabs(mx))
                SyR = mm(mm(G, Sx), tr(G))
                if H is not None:
                    SyR = madd(SyR, mm(H, tr(H)))
                g2 = max(F(1), ninf(G)) ** 2
                if not (close(mm(A, mx), mx, sc) and close(madd(mm(mm(A, Sx), tr(A)), mm(C, tr(C))), Sx, sc) and
                        close(my, mm(G, mx), sc * g2) and close(Sy, SyR, sc * g2) and close(Syx, mm(G, Sx), sc * g2)):
                    ctx.spec_fail("stationary_distributions_history", "stationary moments violate the stationarity equations of "
                                  "the instance's current model", replay)
                au.alias("stationary_distributions", list(zip(("mu_x", "mu_y", "Sigma_x", "Sigma_y", "Sigma_yx"), res)),
                         obj_arrays(exclude=("mu_x", "mu_y", "Sigma_x", "Sigma_y", "Sigma_yx")), ALLOWED_LSS)
                au.keep("stationary_distributions", *res)
                cases.append(Case("C12 statdist %s mu0=%s" % (ss_line(A, C, G, H), rats(mu0)),
                                  "ok mx=%s my=%s Sx=%s Sy=%s Syx=%s" % tuple(wire_f(t) for t in res),
                                  cmp=env_cmp(ENV_K, errs_k), tag="lsshist-statdist"))
            elif op in ("geosum", "geosum-mu0"):
                beta = F(0) if rng.random() < 0.25 else F(rng.randint(1, 15), 16)
                IbA = msub(eye(n), scal(beta, A))
                inv_ = solve_exact(IbA, eye(n))
                if inv_ is None or ninf(IbA) * ninf(inv_) > COND_MAX:
                    continue
                if op == "geosum-mu0":
                    xobj, xt = ss.mu_0, list(mu0)           # the instance's own mu_0 as the conditioning vector
                else:
                    xt = gen_vec(rng, n, den=4, lo=-8, hi=8)
                    xobj = vec_form(xt, rng.choice(["float-col", "intcol", "listcol"]) if all(t.denominator == 1 for t in xt) else "float-col")
                xsnap = snapshot(xobj)
                bobj = beta_form(beta)
                Sx_, Sy_ = ss.geometric_sums(bobj, xobj) if rng.random() < 0.5 else ss.geometric_sums(beta=bobj, x_t=xobj)
                calls.append("geometric_sums(%s as %s, %s)" % (rat(beta), type(bobj).__name__, "ss.mu_0" if op == "geosum-mu0" else rats(xt)))
                sc = F(ENV_K) * max(F(1), maxabs(fm(Sx_)), maxabs(col(xt))) * max(F(1), ninf(IbA) * ninf(inv_))
                if Sx_.shape != (n, 1) or not close(mm(IbA, fm(Sx_)), col(xt), sc) or not close(fm(Sy_), mm(G, fm(Sx_)), sc * max(F(1), ninf(G))):
                    ctx.spec_fail("geometric_sums_history", "S_x does not solve (I - beta A) S_x = x_t for the current model", replay)
                if snapshot(xobj) != xsnap:
                    ctx.spec_fail("geometric_sums_overwrites_x_t", "geometric_sums modified the conditioning vector it was given", replay)
                au.alias("geometric_sums", [("S_x", Sx_), ("S_y", Sy_)], obj_arrays() + [("x_t", xobj)])
                au.keep("geometric_sums", Sx_, Sy_)
                cases.append(Case("C12 geosum A=%s G=%s beta=%s x=%s" % (ratm(A), ratm(G), rat(beta), rats(xt)),
                                  "ok Sx=%s Sy=%s" % (wire_f(Sx_), wire_f(Sy_)), cmp=env_cmp(ENV_K, errs_k), tag="lsshist-geosum"))
            elif op == "impulse":
                j = rng.randint(0, 4)
                jobj = int_scalar(j)
                xc, yc = ss.impulse_response(jobj) if rng.random() < 0.5 else ss.impulse_response(j=jobj)
                calls.append("impulse_response(%d as %s)" % (j, type(jobj).__name__))
                good = len(xc) == j + 1 and len(yc) == j + 1
                for i_ in range(min(len(xc), len(yc))):
                    e = mm(mpow(A, i_), C)
                    sc = F(ENV_X) * max(F(1), maxabs(e))
                    good = good and close(fm(xc[i_]), e, sc) and close(fm(yc[i_]), mm(G, e), sc * max(F(1), ninf(G)))
                if not good:
                    ctx.spec_fail("impulse_response_history", "coefficients are not A^i C / G A^i C of the current model", replay)
                au.alias("impulse_response", [("xcoef%d" % i_, a_) for i_, a_ in enumerate(xc)] + [("ycoef%d" % i_, a_) for i_, a_ in enumerate(yc)],
                         obj_arrays(), ALLOWED_LSS)
                au.keep("impulse_response", *(xc[1:] + yc))
                cases.append(Case("C12 impulse A=%s C=%s G=%s j=%d" % (ratm(A), ratm(C), ratm(G), j),
                                  "ok " + " ".join("xc%d=%s" % (i_, wire_f(a_)) for i_, a_ in enumerate(xc)) + " " +
                                  " ".join("yc%d=%s" % (i_, wire_f(a_)) for i_, a_ in enumerate(yc)),
                                  cmp=env_cmp(ENV_X, errs_x), tag="lsshist-impulse"))
            elif op in ("simulate", "replicate"):
                l = len(H[0]) if H is not None else 0
                rs = Scripted(rng, lambda: gen_vec(rng, n, den=4, lo=-8, hi=8))
                if op == "simulate":
                    ts = rng.randint(1, 5)
                    tobj = int_scalar(ts)
                    x_, y_ = ss.simulate(tobj, rs) if rng.random() < 0.5 else ss.simulate(random_state=rs, ts_length=tobj)
                    calls.append("simulate(%d as %s)" % (ts, type(tobj).__name__))
                    expect = ["mvn", (m, ts - 1)] + ([(l, ts)] if H is not None else [])
                    if not check_stream(rs.calls, mu0, S0, expect, "simulate_draws", replay):
                        continue
                    xt = col([F(float(t)) for t in rs.calls[0][3]])
                    w = fm(rs.calls[1][2].reshape(m, ts - 1)) if ts > 1 else [[] for _q in range(m)]
                    cols_ = [xt]
                    for t in range(ts - 1):
                        cols_.append(madd(mm(A, cols_[-1]), mm(C, [[w[q_][t]] for q_ in range(m)])))
                    xe = [[cols_[t][i_][0] for t in range(ts)] for i_ in range(n)]
                    ye = mm(G, xe)
                    if H is not None:
                        ye = madd(ye, mm(H, fm(rs.calls[2][2].reshape(l, ts))))
                else:
                    T, reps = rng.randint(0, 3), rng.randint(1, 3)
                    Tobj, robj = int_scalar(T), int_scalar(reps)
                    x_, y_ = ss.replicate(Tobj, robj, rs) if rng.random() < 0.5 else ss.replicate(num_reps=robj, T=Tobj, random_state=rs)
                    calls.append("replicate(%d as %s, %d as %s)" % (T, type(Tobj).__name__, reps, type(robj).__name__))
                    per = ["mvn", (m, T)] + ([(l, T + 1)] if H is not None else [])
                    expect = per * reps + ([(l, reps)] if H is not None else [])
                    if not check_stream(rs.calls, mu0, S0, expect, "replicate_draws", replay):
                        continue
                    fin = []
                    for j_ in range(reps):
                        c_ = rs.calls[j_ * len(per):(j_ + 1) * len(per)]
                        xt = col([F(float(t)) for t in c_[0][3]])
                        wj = fm(c_[1][2].reshape(m, T)) if T > 0 else [[] for _q in range(m)]
                        for t in range(T):
                            xt = madd(mm(A, xt), mm(C, [[wj[q_][t]] for q_ in range(m)]))
                        fin.append(xt)
                    xe = [[fin[j_][i_][0] for j_ in range(reps)] for i_ in range(n)]
                    ye = mm(G, xe)
                    if H is not None:
                        ye = madd(ye, mm(H, fm(rs.calls[-1][2].reshape(l, reps))))
                sc = F(ENV_X) * max(F(1), maxabs(xe), maxabs(ye))
                if x_.shape != (n, len(xe[0])) or not close(fm(x_), xe, sc) or not close(fm(y_), ye, sc * max(F(1), ninf(G))):
                    ctx.spec_fail(op + "_history", "%s() path violates the law of the instance's current model on the drawn shocks" % op, replay)
                au.alias(op, [("x", x_), ("y", y_)], obj_arrays() + [("draw#%d" % q_, c_[-1]) for q_, c_ in enumerate(rs.calls)])
                au.keep(op, x_, y_)
            elif op == "set-mu0":
                st["mu0"] = gen_vec(rng, n, den=4, lo=-8, hi=8)
                ss.mu_0 = to_np(col(st["mu0"]))
                calls.append("ss.mu_0 = %s" % rats(st["mu0"]))
            elif op == "set-S0":
                st["S0"] = gen_psd(rng, n, rng.choice(["full", "low", "zero"]))
                ss.Sigma_0 = to_np(st["S0"])
                calls.append("ss.Sigma_0 = %s" % ratm(st["S0"]))
            elif op == "set-A":
                st["A"] = gen_A(rng, n, "stable")
                ss.A = to_np(st["A"])
                calls.append("ss.A = %s" % ratm(st["A"]))
            elif op == "edit-inplace":
                gens = []          # live generators hold references to the edited arrays
                i_, j_ = rng.randrange(n), rng.randrange(n)
                v = F(rng.randint(-2, 2), 16)
                st["A"] = [list(r_) for r_ in st["A"]]
                st["A"][i_][j_] += v
                if ninf(st["A"]) >= 1:
                    st["A"][i_][j_] -= v
                    v = F(0)
                ss.A[i_, j_] += float(v)
                st["mu0"] = list(st["mu0"])
                st["mu0"][i_] += F(1, 2)
                ss.mu_0[i_, 0] += 0.5
                st["S0"] = [list(r_) for r_ in st["S0"]]
                st["S0"][i_][i_] += F(1, 4)
                ss.Sigma_0[i_, i_] += 0.25
                calls.append("in place: A[%d,%d]+=%s, mu_0[%d]+=1/2, Sigma_0[%d,%d]+=1/4" % (i_, j_, rat(v), i_, i_, i_))
                # results handed out earlier that ALIAS the instance (see the counted findings) legitimately follow the edit
                au.kept = [e_ for e_ in au.kept if not any(np.shares_memory(e_[1], o_) for _nm, o_ in obj_arrays())]
                # ... and so do the constructor's inputs, which the instance keeps without copying
                before = len(owned_all)
                owned_all[:] = [e_ for e_ in owned_all if not (isinstance(e_[1], np.ndarray) and
                                                               any(np.shares_memory(e_[1], o_) for _nm, o_ in obj_arrays()))]
                if len(owned_all) != before:
                    finding("lss_ctor_keeps_caller_arrays", "LinearStateSpace stores the caller's float arrays without copying: an "
                            "in-place edit of ss.A / ss.mu_0 / ss.Sigma_0 edits the caller's arrays (and vice versa)", replay)
            if not attrs_ok(calls[-1] if calls else op):
                break
            if not au.recheck(calls[-1] if calls else op):
                break

    # ---- LinearStateSpace.__init__: argument handling, defaults, error branches ---------------------------------
    def shaped(r_, c_, den=2):
        return gen_mat(rng, r_, c_, den=den, lo=-4, hi=4)

    for i in range(ctx.n(45, 400)):
        n, m, k = rng.randint(1, 4), rng.randint(1, 3), rng.randint(1, 3)
        bad = rng.choice(["", "", "", "A", "C", "G", "mu0", "A+C", "C+G", "G+mu0"]) if i % 3 == 0 else ""
        Ash = (n, n + rng.choice([-1, 1]) if n > 1 else 2) if "A" in bad else (n, n)
        Csh = (n + rng.randint(1, 2), m) if "C" in bad else (n, m)
        Gsh = (k, n + rng.randint(1, 2)) if "G" in bad else (k, n)
        A, C, G = shaped(*Ash), shaped(*Csh), shaped(*Gsh)
        hkind = rng.choice(["omit", "None", "ok", "ok", "wrong-rows"])
        H = None if hkind in ("omit", "None") else shaped(k + (1 if hkind == "wrong-rows" else 0), rng.randint(1, 3))
        mkind = "wrong-size" if "mu0" in bad else rng.choice(["omit", "None", "col", "row", "1d", "2xhalf" if n % 2 == 0 and n > 2 else "col"])
        mu = None if mkind in ("omit", "None") else [F(rng.randint(-8, 8), 4) for _q in range(n + (1 if mkind == "wrong-size" else 0))]
        skind = rng.choice(["omit", "None", "ok", "ok", "wrong-shape"])
        S0 = None if skind in ("omit", "None") else (shaped(n + 1, n) if skind == "wrong-shape" else gen_psd(rng, n, "full"))
        if mu is None:
            mu2d = None
        elif mkind == "col":
            mu2d = [[v] for v in mu]
        elif mkind == "2xhalf":
            mu2d = [mu[:n // 2], mu[n // 2:]]
        else:
            mu2d = [list(mu)]          # a row, a 1-D sequence (atleast_2d makes it a row) or the wrong size
        muobj = None if mu is None else (np.array([float(v) for v in mu]) if mkind == "1d" else to_np(mu2d))
        args = [to_np(A), to_np(C), to_np(G)]
        kwargs = {}
        if hkind != "omit":
            kwargs["H"] = None if H is None else to_np(H)
        if mkind != "omit":
            kwargs["mu_0"] = muobj
        if skind != "omit":
            kwargs["Sigma_0"] = None if S0 is None else to_np(S0)
        for q_ in ("bad=" + (bad or "none"), "H=" + hkind, "mu_0=" + mkind, "Sigma_0=" + skind):
            ctx.count("ctor:" + q_)
        replay = {"op": "ctor", "A": ratm(A), "C": ratm(C), "G": ratm(G), "H": hkind if H is None else ratm(H),
                  "mu_0": mkind if mu is None else ratm(mu2d), "Sigma_0": skind if S0 is None else ratm(S0)}
        try:
            if rng.random() < 0.5 and set(kwargs) == {"H", "mu_0", "Sigma_0"}:
                ss = LinearStateSpace(*args, kwargs["H"], kwargs["mu_0"], kwargs["Sigma_0"])     # all positional
            else:
                ss = LinearStateSpace(*args, **kwargs)
            impl = "ok n=%d m=%d k=%d l=%s mu0=%s S0=%s" % (ss.n, ss.m, ss.k, "none" if ss.l is None else ss.l,
                                                           wire_f(ss.mu_0), wire_f(ss.Sigma_0))
            got_ok = True
        except ValueError as e:
            msg = str(e)
            which = 1 if msg.startswith("Matrix A") else 2 if msg.startswith("Matrix C") else 3 if msg.startswith("Matrix G") \
                else 4 if "reshape" in msg else 0
            impl = "ERR:ValueError check=%d" % which
            got_ok = False
            ctx.count("ctor:ValueError-check-%d" % which)
        # spec (from the documented shapes, independent of the model): raises exactly when the shapes are incompatible
        should_ok = Ash[0] == Ash[1] and Csh[0] == Ash[0] and Gsh[1] == Ash[0] and (mu is None or len(mu) == Ash[0])
        if got_ok != should_ok:
            ctx.spec_fail("lss_ctor_validation", "LinearStateSpace(...) %s although the shapes are %s" %
                          ("was accepted" if got_ok else "raised ValueError", "incompatible" if not should_ok else "compatible"), replay)
        elif got_ok:
            good = (ss.n, ss.m, ss.k) == (n, m, k) and ss.l == (None if H is None else len(H[0])) and ss.mu_0.shape == (n, 1) and \
                [r_[0] for r_ in fm(ss.mu_0)] == (list(mu) if mu is not None else [F(0)] * n) and \
                (fm(ss.Sigma_0) == (S0 if S0 is not None else zeros(n, n))) and close(fm(ss.A), A, 0) and close(fm(ss.C), C, 0) and \
                close(fm(ss.G), G, 0) and ((ss.H is None) == (H is None)) and (H is None or close(fm(ss.H), H, 0))
            if not good:
                ctx.spec_fail("lss_ctor_attributes", "n/m/k/l, mu_0, Sigma_0 or A/C/G/H of the new instance are not the documented ones", replay)
        line = "C12 ctor A=%s C=%s G=%s" % (ratm(A), ratm(C), ratm(G))
        if hkind != "omit":
            line += " H=%s" % ("none" if H is None else ratm(H))
        if mkind != "omit":
            line += " mu0=%s" % ("none" if mu is None else ratm(mu2d))
        if skind != "omit":
            line += " S0=%s" % ("none" if S0 is None else ratm(S0))
        cases.append(Case(line, impl, nontrivial=(n >= 2), cmp=env_cmp(0), tag="ctor"))

    # ---- Kalman.stationary_coefficients ------------------------------------------------------------------------
    for i in range(ctx.n(30, 250)):
        n, k, m = rng.randint(1, 3), rng.randint(1, 2), rng.randint(1, 2)
        A, C, G = gen_A(rng, n, rng.choice(["stable", "tri"])), gen_C(rng, n, m, "full"), gen_mat(rng, k, n, den=2, lo=-3, hi=3)
        H = gen_H(rng, k, "full")
        kn = Kalman(mk_ss(A, C, G, H))
        try:
            K = np.array(kn.stationary_values()[1])
        except (ValueError, LinAlgError):
            continue
        Ke = fm(K)
        j = rng.randint(-1, 5)
        ty = rng.choice(["ma", "ma", "var", "var", "default", "xx", "MA"])
        jobj = int_scalar(j)
        ctx.count("statcoef:type=" + ty)
        replay = {"op": "statcoef", "A": ratm(A), "G": ratm(G), "K": ratm(Ke), "j": j, "type": ty}
        try:
            if ty == "default":
                got = kn.stationary_coefficients(jobj)
            elif rng.random() < 0.5:
                got = kn.stationary_coefficients(jobj, ty)
            else:
                got = kn.stationary_coefficients(coeff_type=ty, j=jobj)
            impl = "ok " + " ".join("c%d=%s" % (q_, wire_f(c_)) for q_, c_ in enumerate(got))
        except ValueError:
            got, impl = None, "ERR:ValueError"
            ctx.count("statcoef:ValueError")
        ety = "ma" if ty == "default" else ty
        if (got is None) != (ety not in ("ma", "var")):
            ctx.spec_fail("stationary_coefficients_type", "coeff_type=%r %s" % (ty, "raised" if got is None else "was accepted"), replay)
        elif got is not None:
            if ety == "ma":
                exp = [eye(k)] + [mm(mm(G, mpow(A, q_ - 1)), Ke) for q_ in range(1, max(j, 0) + 1)]
            else:
                Pm = msub(A, mm(Ke, G))
                exp = [mm(mm(G, mpow(Pm, q_)), Ke) for q_ in range(0, max(j, 0) + 1)]
            sc = F(ENV_X) * max([F(1)] + [maxabs(e_) for e_ in exp]) * 16
            if len(got) != len(exp) or not all(close(fm(a_), e_, sc) for a_, e_ in zip(got, exp)):
                ctx.spec_fail("stationary_coefficients", "coefficients are not %s" %
                              ("I, G A^(i-1) K" if ety == "ma" else "G (A - K G)^i K"), replay)
        cases.append(Case("C12 statcoef A=%s G=%s K=%s j=%d type=%s" % (ratm(A), ratm(G), ratm(Ke), j, ety), impl,
                          nontrivial=(j >= 2), cmp=env_cmp(ENV_X * 16, errs_x), tag="statcoef"))

    # ---- hardening: random_state / method argument forms -----------------------------------------------------------
    for i in range(ctx.n(12, 100)):
        n, k, m, A, C, G, H, mu0, S0 = lss_random()
        ss = mk_ss(A, C, G, H, mu0, S0)
        seed = rng.randrange(2 ** 31)
        ts = rng.randint(1, 5)
        ref = ss.simulate(ts, random_state=Recording(seed))
        kind = rng.choice(["int", "np.int64", "np.int32", "RandomState", "None+np.random.seed"])
        ctx.count("scalarforms:random_state=" + kind)
        if kind == "None+np.random.seed":
            np.random.seed(seed)
            got = ss.simulate(ts) if rng.random() < 0.5 else ss.simulate(ts, None)
        else:
            rs = {"int": seed, "np.int64": np.int64(seed), "np.int32": np.int32(seed % (2 ** 31 - 1)),
                  "RandomState": np.random.RandomState(seed)}[kind]
            if kind == "np.int32":
                ref = ss.simulate(ts, random_state=Recording(int(rs)))
            got = ss.simulate(ts, random_state=rs)
        if not (np.array_equal(got[0], ref[0]) and np.array_equal(got[1], ref[1])):
            ctx.spec_fail("random_state_forms", "simulate(random_state=%s) differs from the RandomState(seed) stream" % kind,
                          {"op": "simulate-seed", "A": ratm(A), "C": ratm(C), "G": ratm(G), "seed": seed, "ts": ts, "kind": kind})
        # a numpy Generator: the law must hold on its draws (same seed twice gives the same path)
        g1 = ss.simulate(ts, random_state=np.random.default_rng(seed))
        g2 = ss.replicate(2, 2, random_state=np.random.default_rng(seed))
        g1b = ss.simulate(ts, random_state=np.random.default_rng(seed))
        if g1[0].shape != (n, ts) or g2[0].shape != (n, 2) or not np.array_equal(g1[0], g1b[0]):
            ctx.spec_fail("random_state_forms", "simulate/replicate with a numpy Generator", {"op": "simulate-generator", "seed": seed})

    changed = [lab for lab, o, sn in owned_all if snapshot(o) != sn]
    reshaped = [lab for lab, o, sn in owned_all if isinstance(o, np.ndarray) and lab.split(":")[-1] in ("row2d", "introw2d") and o.shape[0] != 1]
    if reshaped:
        finding("input_reshaped_in_place", "a one-row 2-D array passed as mu_0 (LinearStateSpace) is reshaped to a column IN PLACE "
                "(`self.mu_0.shape = n, 1` on the caller's own array; likewise x_hat in Kalman.set_state and y in "
                "prior_to_filtered): %d objects" % len(reshaped), {"op": "aliasing", "objects": reshaped[:10]})
    if changed:
        ctx.spec_fail("lss_caller_modified", "LinearStateSpace / Kalman modified the caller's input objects: %s" % changed[:5],
                      {"op": "aliasing", "objects": changed[:20]})
    ctx.count("aliasing:objects-checked", len(owned_all))
    ctx.run_cases(cases)
    ctx.extra["envelopes"] = {"kalman/stationary/geosum/statdist": ENV_K, "moments/impulse/simulation": ENV_X,
                              "max_rel_err_solve_ops": max(errs_k, default=0.0), "max_rel_err_product_ops": max(errs_x, default=0.0),
                              "cond_max": COND_MAX}
    ctx.assumptions.append("scipy.linalg.inv / solve, the Riccati and Bartels-Stewart solvers and the Gaussian samplers are not "
                           "modelled: inv/solve are exact Gauss-Jordan in the model, Sigma_infinity and the drawn shocks are inputs")


def replay(data):
    """./check C12 --replay <file>: re-run the real code on the stored input and print what the oracle expects"""
    import json
    import warnings
    warnings.simplefilter("ignore")
    from quantecon import LinearStateSpace, Kalman
    r = data.get("replay", data)
    print(json.dumps({k: v for k, v in data.items() if k != "replay"}, indent=1, default=str))
    print("input:", json.dumps(r, default=str))
    op = r.get("op")

    def pm(s):
        return parse_ratm(s) if s not in (None, "none") else None
    if op == "kalman":
        A, C, G, H = pm(r["A"]), pm(r["C"]), pm(r["G"]), pm(r["H"])
        xh, S0, ys = parse_ratm(r["x_hat"])[0], pm(r["Sigma"]), pm(r["ys"]) if r["ys"] != "-" else []
        kn = Kalman(LinearStateSpace(to_np(A), to_np(C), to_np(G), to_np(H)), to_np(col(xh)), to_np(S0))
        try:
            if r["mode"] == "f2f":
                kn.filtered_to_forecast()
            elif r["mode"] == "p2f":
                kn.prior_to_filtered(to_np(col(ys[0])))
            else:
                for y in ys:
                    kn.update(to_np(col(y)))
            print("code x_hat:", kn.x_hat.ravel().tolist(), "\ncode Sigma:", kn.Sigma.tolist())
        except Exception as e:   # noqa: BLE001 - replay prints whatever the code does
            print("code raised", type(e).__name__, e)
        if r["mode"] != "f2f":
            T = len(ys) if r["mode"] == "update" else 1
            b = batch_condition(A, C, G, H, xh, S0, ys[:T], T if r["mode"] == "update" else 0)
            if b is None:
                print("oracle: stacked observation covariance is singular")
            else:
                print("exact conditional mean:", [float(v[0]) for v in b[0]],
                      "\nexact conditional covariance:", [[float(v) for v in row] for row in b[1]],
                      "\ncond_inf(S_yy):", float(b[2]))
    elif op == "statdist":
        A, C, G, H = pm(r["A"]), pm(r["C"]), pm(r["G"]), pm(r.get("H"))
        mu0 = parse_ratm(r["mu_0"])[0]
        ss = LinearStateSpace(to_np(A), to_np(C), to_np(G), None if H is None else to_np(H), to_np(col(mu0)))
        try:
            mx, my, Sx, Sy, Syx = ss.stationary_distributions()
            print("code mu_x:", mx.ravel().tolist(), "A mu_x:", (to_np(A) @ mx).ravel().tolist())
            print("code Sigma_x:", Sx.tolist(), "\nA Sigma_x A' + CC':", (to_np(A) @ Sx @ to_np(A).T + to_np(C) @ to_np(C).T).tolist())
        except Exception as e:   # noqa: BLE001
            print("code raised", type(e).__name__, e)
    return 0
