"""C07 — LQ control: correspondence + spec run.

Correspondence (model = lean/QEModel/C07.lean, run at Rat = exact reference, and at Float where the exact
rationals of a long backward recursion would explode):
  * update      : one `LQ.update_values()` from the code's own current (P, d) (exact rationals of the doubles):
                  the model's exact (F, P', d') against the code's, inside ENV*scale. Run for every step of the
                  T-step state machine, so the discounting of d over several periods is compared at every step.
  * trace       : the whole T-step state machine from Rf (Rat when the bit growth is small, else Float).
  * stationary  : F and d of `stationary_values` computed by the model from the P the code's Riccati solver
                  returned (the solver is a parameter of the model; it is property C06), both methods.
  * seq/seqinf  : `compute_sequence` on recorded shocks (injected RandomState), finite horizon with ts_length
                  absent / smaller / larger than T, and infinite horizon; x- and u-paths inside ENV*scale.
  * horizon     : the (T, ts_length) -> T rule, exact.
  * rblqd/rblqb : RBLQ.d_operator / b_operator on rational P; rblqstack: the stacked LQ of robust_rule.
  * nnash       : one pass of the nnash loop at the returned (P1, P2) reproduces the returned (F1, F2, P1, P2).
  * markov      : one pass of solve_discrete_riccati_system and the F/d formulas of LQMarkov at the returned Ps.
  * error paths : singular S1 (LinAlgError) compared exactly.
Spec run (exact Fractions on the code's outputs, independent of the model):
  cost of the rule u=-Fx by an exact discounted Lyapunov solve vs x'Px+d; perturbed rules F+Delta are not
  cheaper; (P,d) is a fixed point of the update; finite horizon: every step is the exact Riccati update of
  the previous one, P_0 equals the minimum of the stacked T-period quadratic programme (exact normal equations,
  small sizes), d_0 = sum_t beta^t tr(P_t CC'); path law with the policy of backward step T-t at time t;
  RBLQ: two methods agree, tends to LQ for large theta; nnash: each feedback is the LQ best response to the
  other; LQMarkov with identical regimes reproduces LQ.
"""
import math
from fractions import Fraction as F

import numpy as np

from .common import Case, fx, fxm, rat, ratm, parse_rat, parse_ratm

FILES = ["quantecon/_lqcontrol.py", "quantecon/_robustlq.py", "quantecon/_lqnash.py", "quantecon/_matrix_eqn.py"]

ENV = 1e-8        # "up to rounding": ENV * scale
ENV_PATH = 1e-6   # results of up to 12 (100) chained steps: rounding accumulates along the recursion / the path
ENV_FIX = 1e-7    # fixed-point residuals of iteratively computed quantities
ENV_AGREE = 1e-6  # agreement of two different algorithms / limits

# ----------------------------------------------------------------------------------------------
# exact linear algebra on lists of Fractions


def fm(a):
    a = np.atleast_2d(np.asarray(a, dtype=float))
    return [[F(float(x)) for x in row] for row in a]


def eye(n):
    return [[F(int(i == j)) for j in range(n)] for i in range(n)]


def zeros(r, c):
    return [[F(0)] * c for _ in range(r)]


def mm(A, B):
    Bt = list(zip(*B))
    return [[sum((a * b for a, b in zip(r, c)), F(0)) for c in Bt] for r in A]


def tr(A):
    return [list(r) for r in zip(*A)]


def madd(A, B):
    return [[a + b for a, b in zip(r, s)] for r, s in zip(A, B)]


def msub(A, B):
    return [[a - b for a, b in zip(r, s)] for r, s in zip(A, B)]


def scal(c, A):
    return [[c * a for a in r] for r in A]


def trace(A):
    return sum((A[i][i] for i in range(len(A))), F(0))


def gsolve(A, B):
    """exact solution X of A X = B (None when A is singular)"""
    n = len(A)
    T = [list(A[i]) + list(B[i]) for i in range(n)]
    for c in range(n):
        p = next((r for r in range(c, n) if T[r][c] != 0), None)
        if p is None:
            return None
        T[c], T[p] = T[p], T[c]
        pv = T[c][c]
        T[c] = [v / pv for v in T[c]]
        for r in range(n):
            if r != c and T[r][c] != 0:
                f = T[r][c]
                T[r] = [a - f * b for a, b in zip(T[r], T[c])]
    return [row[n:] for row in T]


def rank(A):
    T = [list(r) for r in A]
    rk = 0
    rows, cols = len(T), len(T[0])
    for c in range(cols):
        p = next((r for r in range(rk, rows) if T[r][c] != 0), None)
        if p is None:
            continue
        T[rk], T[p] = T[p], T[rk]
        for r in range(rk + 1, rows):
            if T[r][c] != 0:
                f = T[r][c] / T[rk][c]
                T[r] = [a - f * b for a, b in zip(T[r], T[rk])]
        rk += 1
        if rk == rows:
            break
    return rk


def maxabs(A):
    return max((abs(x) for r in A for x in r), default=F(0))


def tofloat(A):
    return np.array([[float(x) for x in r] for r in A], dtype=float)


# ----------------------------------------------------------------------------------------------
# exact LQ algebra (the definitions, written independently of the model)


class Prob:
    """an LQ problem in exact rationals"""

    def __init__(self, Q, R, A, B, C, N, beta):
        self.Q, self.R, self.A, self.B, self.C, self.N, self.beta = Q, R, A, B, C, N, F(beta)
        self.k, self.n, self.j = len(Q), len(R), len(C[0])

    def wire(self, enc=ratm, encs=rat):
        return "Q=%s R=%s A=%s B=%s C=%s N=%s beta=%s" % (enc(self.Q), enc(self.R), enc(self.A), enc(self.B),
                                                          enc(self.C), enc(self.N), encs(self.beta))

    def update(self, P, d):
        """exact Riccati step: (F, P', d') or None"""
        b = self.beta
        S1 = madd(self.Q, scal(b, mm(tr(self.B), mm(P, self.B))))
        S2 = madd(scal(b, mm(tr(self.B), mm(P, self.A))), self.N)
        S3 = scal(b, mm(tr(self.A), mm(P, self.A)))
        Fm = gsolve(S1, S2)
        if Fm is None:
            return None
        P1 = madd(msub(self.R, mm(tr(S2), Fm)), S3)
        d1 = b * (d + trace(mm(P, mm(self.C, tr(self.C)))))
        return Fm, P1, d1

    def rule_cost(self, Fm):
        """exact (P_F, d_F) of the stationary rule u = -F x:  P_F = W + beta Acl' P_F Acl (None if singular)"""
        n, b = self.n, self.beta
        Acl = msub(self.A, mm(self.B, Fm))
        W = madd(msub(msub(self.R, mm(tr(Fm), self.N)), mm(tr(self.N), Fm)), mm(tr(Fm), mm(self.Q, Fm)))
        # unknowns p[a][c], equation p[a][c] - beta * sum_{e,f} Acl[e][a] p[e][f] Acl[f][c] = W[a][c]
        idx = [(a, c) for a in range(n) for c in range(n)]
        Mx = []
        for (a, c) in idx:
            row = []
            for (e, f) in idx:
                row.append(F(int((a, c) == (e, f))) - b * Acl[e][a] * Acl[f][c])
            Mx.append(row)
        sol = gsolve(Mx, [[W[a][c]] for (a, c) in idx])
        if sol is None:
            return None
        PF = [[sol[a * n + c][0] for c in range(n)] for a in range(n)]
        dF = None
        if b != 1:
            dF = b * trace(mm(PF, mm(self.C, tr(self.C)))) / (1 - b)
        elif maxabs(self.C) == 0:
            dF = F(0)
        return PF, dF, Acl


def rule_run(pb, G, T, x0):
    """exact T-period run of the rule u = -G x from x0: (cost, [x_0..x_T])"""
    b = pb.beta
    x, cost, xs = x0, F(0), [x0]
    for t in range(T):
        u = scal(F(-1), mm(G, x))
        st = mm(tr(x), mm(pb.R, x))[0][0] + mm(tr(u), mm(pb.Q, u))[0][0] + 2 * mm(tr(u), mm(pb.N, x))[0][0]
        cost += b ** t * st
        x = madd(mm(pb.A, x), mm(pb.B, u))
        xs.append(x)
    return cost, xs


def check_identity_b(ctx, cases, pb, Pq, Fq, method):
    """theorem `linear_rule_cost_identity` evaluated exactly on the code's (P, F) for a random rule G, horizon T, x0"""
    rng = ctx.rng
    n, k, b = pb.n, pb.k, pb.beta
    for _ in range(ctx.n(2, 4)):
        kind = rng.randrange(3)
        if kind == 0:
            G = madd(Fq, [[F(rng.randint(-2, 2), 8) for _ in range(n)] for _ in range(k)])
        elif kind == 1:
            G = [[F(rng.randint(-4, 4), 4) for _ in range(n)] for _ in range(k)]
        else:
            G = zeros(k, n)
        T = rng.randint(1, 6)
        x0 = [[F(rng.randint(-4, 4), 2)] for _ in range(n)]
        cG, xsG = rule_run(pb, G, T, x0)
        cF, xsF = rule_run(pb, Fq, T, x0)
        S1 = madd(pb.Q, scal(b, mm(tr(pb.B), mm(Pq, pb.B))))
        D = msub(Fq, G)
        gap = sum((b ** t * mm(tr(mm(D, xsG[t])), mm(S1, mm(D, xsG[t])))[0][0] for t in range(T)), F(0))
        qP = lambda x: mm(tr(x), mm(Pq, x))[0][0]
        tG, tF = b ** T * qP(xsG[T]), b ** T * qP(xsF[T])
        sc = max(F(1), abs(cG), abs(cF), abs(tG), abs(tF), abs(gap))
        tol = F(ENV_FIX) * sc * T
        ctx.count("inf:identity-b")
        # the same quantities from the model-side evaluator (ruleCostM / ruleGapM / ruleEndM, tied to the theorems'
        # clCost / ruleGap by `rule_evaluator_is_clCost`): must agree with this oracle exactly (2^-96 print floor)
        cases.append(Case("C07 rat rulecost %s P=%s F=%s G=%s T=%d x0=%s" % (pb.wire(), ratm(Pq), ratm(Fq), ratm(G), T, ratm(x0)),
                          "costG=%s costF=%s gap=%s tailG=%s tailF=%s v0=%s" % tuple(rat(v) for v in (cG, cF, gap, tG, tF, qP(x0))),
                          cmp=cmp_fields(1e-20, scalar_keys=("costG", "costF", "gap", "tailG", "tailF", "v0")), tag="rulecost"))
        bad = None
        if abs(cG - (qP(x0) - tG + gap)) > tol:
            bad = "cost(G) != x0'Px0 - beta^T x_T'Px_T + sum of completed squares (off by %.3e)" % float(cG - (qP(x0) - tG + gap))
        elif abs((cG - cF) - (gap - tG + tF)) > tol:
            bad = "cost(G) - cost(F) != gap - tail(G) + tail(F) (off by %.3e)" % float((cG - cF) - (gap - tG + tF))
        elif gap < -tol:
            bad = "sum of completed squares negative (%.3e): S1 not PSD" % float(gap)
        if bad:
            ctx.spec_fail("rule_cost_identity", "%s: %s" % (method, bad),
                          {"problem": pb.wire(), "method": method, "F": ratm(Fq), "P": ratm(Pq), "G": ratm(G), "T": T,
                           "x0": ratm(x0)})


def norm_inf(Mx):
    return max(sum(abs(v) for v in row) for row in Mx)


def check_domain(ctx, cases, pb, Pq, Fq, method):
    """explicit-rate theorems (`stationary_cost_rate`, `no_better_linear_rule_rate`) on the code's (P, F): is the
    closed loop inside the domain beta*||A-BF||inf^2 < 1 (exact), and if so do the exact finite-T costs obey the bound"""
    rng = ctx.rng
    n, k, b = pb.n, pb.k, pb.beta
    Kc = msub(pb.A, mm(pb.B, Fq))
    kap = norm_inf(Kc)
    g = maxabs(Pq)
    ctx.count("inf:domain-total")
    cases.append(Case("C07 domain A=%s B=%s F=%s P=%s beta=%s" % (ratm(pb.A), ratm(pb.B), ratm(Fq), ratm(Pq), rat(b)),
                      "kappa=%s pmax=%s bk2=%s" % (rat(kap), rat(g), rat(b * kap * kap)), tag="domain"))
    if not b * kap * kap < 1:
        return
    ctx.count("inf:domain-inside")
    x0 = [[F(rng.randint(-4, 4), 2)] for _ in range(n)]
    m = maxabs(x0)
    qP = lambda x: mm(tr(x), mm(Pq, x))[0][0]
    C0 = F(n * n) * g * m * m
    # a second rule inside the domain (if one is found): G = F + small Delta
    G = None
    for _ in range(4):
        Gc = madd(Fq, [[F(rng.randint(-1, 1), 8) for _ in range(n)] for _ in range(k)])
        kg = norm_inf(msub(pb.A, mm(pb.B, Gc)))
        if b * kg * kg < 1 and Gc != Fq:
            G, kapG = Gc, kg
            break
    for T in (1, 2, 4, 8):
        cF, xsF = rule_run(pb, Fq, T, x0)
        slack = F(ENV_FIX) * max(F(1), abs(cF), abs(qP(x0))) * T      # P, F are a fixed point only up to rounding
        bound = C0 * (b * kap * kap) ** T
        ctx.count("inf:rate-checks")
        if abs(cF - qP(x0)) > bound + slack:
            ctx.spec_fail("stationary_cost_rate", "%s: |cost_F(%d) - x0'Px0| = %.6e exceeds n^2 g m^2 (beta kappa^2)^T = %.6e" % (
                method, T, float(abs(cF - qP(x0))), float(bound)),
                {"problem": pb.wire(), "method": method, "F": ratm(Fq), "P": ratm(Pq), "T": T, "x0": ratm(x0)})
        if G is not None:
            cG, _ = rule_run(pb, G, T, x0)
            ctx.count("inf:comparison-checks")
            if cG < cF - C0 * ((b * kap * kap) ** T + (b * kapG * kapG) ** T) - slack:
                ctx.spec_fail("no_better_linear_rule", "%s: cost_G(%d) = %.9g is below cost_F - tail bounds (cost_F = %.9g)" % (
                    method, T, float(cG), float(cF)),
                    {"problem": pb.wire(), "method": method, "F": ratm(Fq), "P": ratm(Pq), "G": ratm(G), "T": T, "x0": ratm(x0)})


def qp_value_matrix(pb, Rf, T):
    """P_0 of the T-period deterministic programme by the definition: for x0 in a basis, minimise the total
    discounted cost over the stacked controls (exact normal equations).  Returns None if the Hessian is singular."""
    n, k, b = pb.n, pb.k, pb.beta
    m = T * k
    # x_t = Phi_t x0 + Gam_t u   (u stacked, length m)
    Phi = [eye(n)]
    Gam = [zeros(n, m)]
    for t in range(T):
        Et = zeros(k, m)
        for i in range(k):
            Et[i][t * k + i] = F(1)
        Phi.append(mm(pb.A, Phi[t]))
        Gam.append(madd(mm(pb.A, Gam[t]), mm(pb.B, Et)))
    # cost = x0' Cxx x0 + 2 u' Cux x0 + u' Cuu u
    Cxx, Cux, Cuu = zeros(n, n), zeros(m, n), zeros(m, m)
    for t in range(T + 1):
        w = b ** t
        Rt = pb.R if t < T else Rf
        Cxx = madd(Cxx, scal(w, mm(tr(Phi[t]), mm(Rt, Phi[t]))))
        Cux = madd(Cux, scal(w, mm(tr(Gam[t]), mm(Rt, Phi[t]))))
        Cuu = madd(Cuu, scal(w, mm(tr(Gam[t]), mm(Rt, Gam[t]))))
        if t < T:
            Et = zeros(k, m)
            for i in range(k):
                Et[i][t * k + i] = F(1)
            Cuu = madd(Cuu, scal(w, mm(tr(Et), mm(pb.Q, Et))))
            # 2 u_t' N x_t = 2 u'Et' N (Phi x0 + Gam u)
            Cux = madd(Cux, scal(w, mm(tr(Et), mm(pb.N, Phi[t]))))
            ENG = mm(tr(Et), mm(pb.N, Gam[t]))
            Cuu = madd(Cuu, scal(w, madd(ENG, tr(ENG))))
    X = gsolve(Cuu, Cux)
    if X is None:
        return None
    return msub(Cxx, mm(tr(Cux), X))


# ----------------------------------------------------------------------------------------------
# wire helpers


def kvparse(s):
    out = {}
    for tok in s.split(" "):
        if "=" in tok:
            k, v = tok.split("=", 1)
            out[k] = v
    return out


def mats(s):
    """`m1|m2|...` -> list of Fraction matrices"""
    return [] if s in ("-", "") else [parse_ratm(t) for t in s.split("|")]


def close_m(a, b, env):
    """a, b Fraction matrices of equal shape; None | reason"""
    if len(a) != len(b) or any(len(r) != len(s) for r, s in zip(a, b)):
        return "shape"
    sc = max(F(1), maxabs(b))
    dmax = max((abs(x - y) for r, s in zip(a, b) for x, y in zip(r, s)), default=F(0))
    if dmax > F(env) * sc:
        return "differs by %.3e (scale %.3e)" % (float(dmax), float(sc))
    return None


def cmp_fields(env, matrix_keys=(), list_keys=(), scalar_keys=()):
    """comparator: both strings are `key=value` records; matrices / lists of matrices / scalars inside env"""

    def cmp(model, impl):
        if model.startswith("ERR") or impl.startswith("ERR"):
            return None if model == impl else "outputs differ"
        a, b = kvparse(model), kvparse(impl)
        for k in matrix_keys:
            if k not in a or k not in b:
                return "missing " + k
            why = close_m(parse_ratm(a[k]), parse_ratm(b[k]), env)
            if why:
                return "%s: %s" % (k, why)
        for k in list_keys:
            la, lb = mats(a.get(k, "-")), mats(b.get(k, "-"))
            if len(la) != len(lb):
                return "%s: %d vs %d entries" % (k, len(la), len(lb))
            for i, (x, y) in enumerate(zip(la, lb)):
                why = close_m(x, y, env)
                if why:
                    return "%s[%d]: %s" % (k, i, why)
        for k in scalar_keys:
            xs = [parse_rat(t) for t in a[k].split(",")] if a.get(k, "-") != "-" else []
            ys = [parse_rat(t) for t in b[k].split(",")] if b.get(k, "-") != "-" else []
            if len(xs) != len(ys):
                return "%s: lengths" % k
            for x, y in zip(xs, ys):
                if abs(x - y) > F(env) * max(F(1), abs(y)):
                    return "%s: %.3e vs %.3e" % (k, float(x), float(y))
        return None
    return cmp


def colm(v):
    """1-d array -> n x 1 list matrix of floats"""
    return [[float(x)] for x in np.asarray(v).ravel()]


def showms(ms):
    return "|".join(fxm(m) for m in ms) if ms else "-"


# ----------------------------------------------------------------------------------------------
# generators


DY = [F(-1), F(-1, 2), F(0), F(0), F(1, 2), F(1), F(1), F(5, 4), F(3, 2)]
BETAS = [F(1), F(1, 2), F(3, 4), F(7, 8), F(15, 16), F(0.95), F(0.9)]


def gen_problem(ctx, n=None, k=None, need_beta_lt1=False, cross=None, noise=None):
    rng = ctx.rng
    n = n or rng.randint(1, 4)
    k = k or rng.randint(1, 3)
    for _attempt in range(50):
        A = [[rng.choice(DY) for _ in range(n)] for _ in range(n)]
        B = [[rng.choice([F(-1), F(0), F(1), F(1), F(1, 2), F(2)]) for _ in range(k)] for _ in range(n)]
        # exact controllability
        blocks, cur = [], B
        for _ in range(n):
            blocks.append(cur)
            cur = mm(A, cur)
        ctrb = [sum((blk[i] for blk in blocks), []) for i in range(n)]
        if rank(ctrb) == n:
            break
    else:
        A = scal(F(1, 4), A)
    cross = rng.random() < 0.6 if cross is None else cross
    noise = rng.random() < 0.65 if noise is None else noise
    sz = n + k
    L = [[F(rng.choice([-1, 0, 0, 1, 1, 2]), 2) for _ in range(sz)] for _ in range(sz)]
    Mj = madd(mm(L, tr(L)), eye(sz))         # joint stage cost [[R, N'], [N, Q]], positive definite
    R = [row[:n] for row in Mj[:n]]
    Q = [row[n:] for row in Mj[n:]]
    N = [row[:n] for row in Mj[n:]] if cross else zeros(k, n)
    if noise:
        j = rng.randint(1, 2)
        C = [[F(rng.choice([-1, 0, 1, 1, 2]), 2) for _ in range(j)] for _ in range(n)]
        if maxabs(C) == 0:
            C[0][0] = F(1)
    else:
        C = None
    betas = [b for b in BETAS if b < 1] if (need_beta_lt1 and noise) else BETAS
    beta = rng.choice(betas)
    ctx.count("gen:n=%d" % n)
    ctx.count("gen:k=%d" % k)
    ctx.count("gen:cross" if cross else "gen:no-cross")
    ctx.count("gen:noise" if noise else "gen:deterministic")
    ctx.count("gen:beta=1" if beta == 1 else "gen:beta<1")
    return Q, R, A, B, C, N, beta, cross


def psd(ctx, n):
    L = [[F(ctx.rng.choice([-1, 0, 1, 1, 2])) for _ in range(n)] for _ in range(n)]
    return mm(L, tr(L))


class Forms:
    """hands the same matrix to the library in one of the argument forms its docs allow (C/F order, strided view,
    nested list, int / float32 dtype when exact, Python scalar for 1x1, flat 1-D for a single row) and remembers
    every array handed out so that 'inputs bitwise unchanged' and aliasing can be checked afterwards"""

    def __init__(self, ctx, enabled=True):
        self.ctx, self.rng, self.enabled = ctx, ctx.rng, enabled
        self.inputs = []          # (name, array, bytes at hand-out)

    def vary(self, name, Mx, flat_ok=False, scalar_ok=True, int_ok=True, f32_ok=True, list_ok=True, force=None):
        a = tofloat(Mx)
        r, c = a.shape
        opts = ["c", "c", "f", "strided"]
        if list_ok:
            opts.append("list")
        if int_ok and np.all(a == np.round(a)):
            opts.append("int")
        if f32_ok and np.all(a.astype(np.float32).astype(np.float64) == a):
            opts.append("f32")
        if scalar_ok and (r, c) == (1, 1):
            opts += ["scalar", "scalar"]
        if flat_ok and r == 1:
            opts += ["flat", "flat"]
        kind = force if force in opts else (self.rng.choice(opts) if self.enabled else "c")
        self.ctx.count("form:" + kind)
        if kind == "c":
            out = np.ascontiguousarray(a)
        elif kind == "f":
            out = np.asfortranarray(a)
        elif kind == "strided":
            big = np.full((2 * r + 1, 3 * c + 2), 7.5)
            big[1:2 * r + 1:2, 2:3 * c + 2:3] = a
            out = big[1:2 * r + 1:2, 2:3 * c + 2:3]
        elif kind == "list":
            return [[float(v) for v in row] for row in a]
        elif kind == "int":
            out = a.astype(np.int64)
        elif kind == "f32":
            out = a.astype(np.float32)
        elif kind == "scalar":
            v = float(a[0, 0])
            return int(v) if (v == int(v) and self.rng.random() < 0.5) else v
        else:   # flat
            out = np.ascontiguousarray(a[0, :]) if self.rng.random() < 0.6 else [float(v) for v in a[0, :]]
            if isinstance(out, list):
                return out
        self.inputs.append((name, out, out.tobytes()))
        return out

    def changed(self):
        """names of the handed-out arrays whose bytes differ now"""
        return [nm for nm, arr, snap in self.inputs if arr.tobytes() != snap]

    def arrays(self):
        return [(nm, arr) for nm, arr, _ in self.inputs]


def make_lq(LQ, Q, R, A, B, C, N, beta, cross, T=None, Rf=None, forms=None):
    if forms is None:
        kw = {}
        if C is not None:
            kw["C"] = tofloat(C)
        if cross:
            kw["N"] = tofloat(N)
        if T is not None:
            kw["T"] = T
            kw["Rf"] = tofloat(Rf)
        return LQ(tofloat(Q), tofloat(R), tofloat(A), tofloat(B), beta=float(beta), **kw)
    n, k = len(R), len(Q)
    kw = {}
    if C is not None:
        kw["C"] = forms.vary("C", C, flat_ok=(n == 1))
    if cross:
        kw["N"] = forms.vary("N", N, flat_ok=(k == 1))
    if T is not None:
        kw["T"] = T
        kw["Rf"] = forms.vary("Rf", Rf, scalar_ok=False)
    b = float(beta)
    if b == 1.0 and forms.rng.random() < 0.5:
        b = 1
    lq = LQ(forms.vary("Q", Q), forms.vary("R", R), forms.vary("A", A), forms.vary("B", B, flat_ok=(n == 1)), beta=b, **kw)
    # the instance must hold exactly the matrices that were meant (shape normalisation of every legal form)
    want = {"Q": Q, "R": R, "A": A, "B": B, "C": C if C is not None else zeros(n, 1), "N": N if cross else zeros(k, n)}
    for nm, Mx in want.items():
        got = np.asarray(getattr(lq, nm))
        if got.shape != (len(Mx), len(Mx[0])) or not np.array_equal(got, tofloat(Mx)):
            forms.ctx.spec_fail("constructor_forms", "LQ(...) holds %s of shape %r != the %dx%d matrix passed" % (
                nm, got.shape, len(Mx), len(Mx[0])), {"attr": nm, "passed": ratm(Mx), "held": repr(got.tolist())})
    return lq


def prob_of(lq):
    """exact problem from the arrays the LQ instance actually holds"""
    return Prob(fm(lq.Q), fm(lq.R), fm(lq.A), fm(lq.B), fm(lq.C), fm(lq.N), F(float(lq.beta)))


class FixedNormals(np.random.RandomState):
    """RandomState whose standard_normal returns recorded values"""

    def __init__(self, values):
        super().__init__(0)
        self._vals = values
        self.calls = 0

    def standard_normal(self, size=None):
        self.calls += 1
        arr = np.asarray(self._vals, dtype=float)
        if tuple(size) != arr.shape:
            raise RuntimeError("unexpected shape %r (recorded %r)" % (size, arr.shape))
        return arr.copy()


def small_growth(k, T):
    """the exact rationals of a T-step recursion stay small enough to print"""
    return (k + 1) ** T <= 5000


# ----------------------------------------------------------------------------------------------


def upd_str(Fm, P, d):
    return "F=%s P=%s d=%s" % (fxm(Fm), fxm(P), fx(d))


def run(ctx):
    from quantecon import LQ, RBLQ, nnash, LQMarkov
    import scipy.linalg

    cases = []
    ctx.rule = ("random LQ problems: n<=4, k<=3, j<=2, exactly controllable (A,B) with dyadic entries, jointly positive "
                "definite stage cost [[R,N'],[N,Q]] = LL'+I (with/without cross term), with/without noise, beta in "
                "{1,1/2,3/4,7/8,15/16,0.95,0.9}, T<=12, PSD integer Rf; non-trivial = at least two backward steps or "
                "n+k>=3 or a cross term/noise present; distinct by request line")
    ctx.assumptions.append("envelopes: %g*scale for one-step outputs (every step of the state machine is compared at this "
                           "level from the code's own previous value), %g*scale for whole traces/paths (chained steps), "
                           "%g*scale for fixed-point residuals, %g*scale for agreement of different algorithms"
                           % (ENV, ENV_PATH, ENV_FIX, ENV_AGREE))
    cmp_upd = cmp_fields(ENV, matrix_keys=("F", "P"), scalar_keys=("d",))
    cmp_trace = cmp_fields(ENV_PATH, list_keys=("F", "P"), scalar_keys=("d",))
    cmp_seq = cmp_fields(ENV_PATH, list_keys=("x", "u"))

    # ---- the (T, ts_length) -> T rule -------------------------------------------------------------
    def horizon_py(T, ts):
        if T:
            return T if not ts else min(ts, T)
        return ts if ts else 100

    # ---- finite horizon -----------------------------------------------------------------------------
    n_fin = ctx.n(14, 240)
    for it in range(n_fin):
        Q, R, A, B, C, N, beta, cross = gen_problem(ctx)
        n, k = len(R), len(Q)
        T = ctx.rng.randint(1, 12) if it >= 2 else [1, 12][it]
        Rf = psd(ctx, n)
        forms = Forms(ctx)
        lq = make_lq(LQ, Q, R, A, B, C, N, beta, cross, T=T, Rf=Rf, forms=forms)
        pb = prob_of(lq)
        nt = (T >= 2)
        # state machine over T steps
        asym_max = 0.0
        recs = []
        for t in range(T):
            P0, d0 = fm(lq.P), F(float(lq.d))
            lq.update_values()
            Fc, Pc, dc = np.array(lq.F), np.array(lq.P), float(lq.d)
            recs.append((Fc, Pc, dc))
            cases.append(Case("C07 rat update %s P=%s d=%s" % (pb.wire(), ratm(P0), rat(d0)), upd_str(Fc, Pc, dc),
                              nontrivial=nt, cmp=cmp_upd, tag="update"))
            # spec: this step is the exact Riccati update of the previous value (definition, Fractions)
            ex = pb.update(P0, d0)
            if ex is None:
                ctx.spec_fail("update_singular", "S1 singular on a positive definite problem", {"problem": pb.wire(), "t": t})
            else:
                why = (close_m(fm(Fc), ex[0], ENV) or close_m(fm(Pc), ex[1], ENV)
                       or (None if abs(F(dc) - ex[2]) <= F(ENV) * max(1, abs(ex[2])) else "d differs"))
                if why:
                    ctx.spec_fail("update_values", "step %d of the backward recursion is not the Riccati update: %s" % (t, why),
                                  {"problem": pb.wire(), "Rf": ratm(Rf), "T": T, "step": t, "P_before": ratm(P0),
                                   "d_before": rat(d0), "got": upd_str(Fc, Pc, dc)})
            # update_values does not symmetrise: on unstable A the antisymmetric rounding error of P is amplified at
            # every step (observed x10 per step; the recursion is useless beyond ~18 steps on such inputs). Measured;
            # a finding only if listed (key update_asymmetry_growth) — inside T <= 12 it stays below the path envelope.
            asym = float(np.abs(Pc - Pc.T).max()) / max(1.0, float(np.abs(Pc).max()))
            asym_max = max(asym_max, asym)
            if asym > 1e-9:
                ctx.count("fin:asymmetry>1e-9")
                if "update_asymmetry_growth" in ctx.known:
                    ctx.spec_fail("update_asymmetry_growth", "P_t asymmetric by %.2e (relative) after %d updates" % (asym, t + 1),
                                  {"problem": pb.wire(), "step": t})
            if asym > ENV_PATH * 10:
                ctx.spec_fail("update_symmetry", "P_t asymmetric by %.2e (relative) after %d <= 12 updates" % (asym, t + 1),
                              {"problem": pb.wire(), "Rf": ratm(Rf), "T": T, "step": t})
        ctx.count("fin:steps", T)
        # chained comparisons on an instance whose recursion amplifies the antisymmetric rounding error (see above)
        # use an envelope that follows the measured asymmetry; every single step is still compared at ENV
        env_i = max(ENV_PATH, 1000.0 * asym_max)
        if env_i > ENV_PATH:
            ctx.count("fin:path-envelope-widened")
        cmp_trace = cmp_fields(env_i, list_keys=("F", "P"), scalar_keys=("d",))
        cmp_seq = cmp_fields(env_i, list_keys=("x", "u"))
        # whole trace from Rf
        impl_trace = "F=%s P=%s d=%s" % (showms([r[0] for r in recs]), showms([r[1] for r in recs]),
                                          ",".join(fx(r[2]) for r in recs))
        if small_growth(k, T):
            cases.append(Case("C07 rat trace %s Rf=%s T=%d" % (pb.wire(), ratm(Rf), T), impl_trace, nontrivial=nt,
                              cmp=cmp_trace, tag="trace-rat"))
        cases.append(Case("C07 float trace %s Rf=%s T=%d" % (pb.wire(fxm, fx), fxm(tofloat(Rf)), T), impl_trace,
                          nontrivial=nt, cmp=cmp_trace, tag="trace-float"))
        # spec: d_0 = sum_{t=1..T} beta^t tr(P_t C C') with P_T = Rf (expected discounted noise cost)
        Ps = [fm(Rf)] + [fm(r[1]) for r in recs]          # P_T, P_{T-1}, ..., P_0
        CC = mm(pb.C, tr(pb.C))
        d_ex = sum((pb.beta ** (T - s) * trace(mm(Ps[s], CC)) for s in range(T)), F(0))
        if abs(F(recs[-1][2]) - d_ex) > F(ENV) * max(1, abs(d_ex)):
            ctx.spec_fail("finite_d", "d_0=%r, discounted noise cost %.12g" % (recs[-1][2], float(d_ex)),
                          {"problem": pb.wire(), "Rf": ratm(Rf), "T": T})
        # spec: P_0 is the minimum of the stacked T-period programme (definition; small sizes only)
        if T * k <= ctx.n(8, 12) and n <= 3:
            P_qp = qp_value_matrix(pb, fm(Rf), T)
            if P_qp is not None:
                ctx.count("fin:qp-oracle")
                why = close_m(fm(recs[-1][1]), P_qp, env_i)
                if why:
                    ctx.spec_fail("finite_optimum", "P_0 is not the value matrix of the T-period programme: " + why,
                                  {"problem": pb.wire(), "Rf": ratm(Rf), "T": T, "P0": fxm(recs[-1][1])})
        if forms.changed():
            ctx.spec_fail("inputs_modified", "LQ modified the caller's arrays %s" % forms.changed(), {"problem": pb.wire(), "T": T})
        # compute_sequence on recorded shocks
        for ts in ([None] if it % 3 else [None, max(1, T // 2), T + 3]):
            lq2 = make_lq(LQ, Q, R, A, B, C, N, beta, cross, T=T, Rf=Rf)
            Te = horizon_py(T, ts)
            cases.append(Case("C07 horizon T=%d ts=%d" % (T, ts or 0), str(Te), tag="horizon", nontrivial=bool(ts)))
            W = [[F(ctx.rng.randint(-8, 8), 4) for _ in range(Te + 1)] for _ in range(lq2.j)]
            x0 = [F(ctx.rng.randint(-4, 4), 2) for _ in range(n)]
            rs = FixedNormals(tofloat(W))
            xp, up, wp = lq2.compute_sequence(np.array([float(v) for v in x0]), ts_length=ts, random_state=rs)
            ctx.count("seq:ts-none" if ts is None else ("seq:ts<T" if ts < T else "seq:ts>T"))
            impl = "x=%s u=%s" % (showms([colm(xp[:, t]) for t in range(xp.shape[1])]),
                                  showms([colm(up[:, t]) for t in range(up.shape[1])]))
            x0m = [[v] for v in x0]
            if small_growth(k, Te):
                cases.append(Case("C07 rat seq %s Rf=%s T=%d ts=%d x0=%s W=%s" % (pb.wire(), ratm(Rf), T, ts or 0, ratm(x0m), ratm(W)),
                                  impl, nontrivial=(Te >= 2), cmp=cmp_seq, tag="seq-rat"))
            cases.append(Case("C07 float seq %s Rf=%s T=%d ts=%d x0=%s W=%s" % (
                pb.wire(fxm, fx), fxm(tofloat(Rf)), T, ts or 0, fxm(tofloat(x0m)), fxm(tofloat(W))),
                impl, nontrivial=(Te >= 2), cmp=cmp_seq, tag="seq-float"))
            # spec: path law, with the policy of backward step Te-t applied at time t
            if xp.shape != (n, Te + 1) or up.shape != (k, Te) or not np.array_equal(wp, tofloat(W)):
                ctx.spec_fail("sequence_shape", "shapes %r %r" % (xp.shape, up.shape), {"problem": pb.wire(), "T": T, "ts": ts})
                continue
            lq3 = make_lq(LQ, Q, R, A, B, C, N, beta, cross, T=T, Rf=Rf)
            pol = []
            for _ in range(Te):
                lq3.update_values()
                pol.append(fm(lq3.F))          # pol[s-1] = policy of backward step s
            bad = None
            xs = [fm(colm(xp[:, t])) for t in range(Te + 1)]
            us = [fm(colm(up[:, t])) for t in range(Te)]
            if close_m(xs[0], x0m, 0):
                bad = "x_0 != x0"
            for t in range(Te):
                if bad:
                    break
                w = close_m(us[t], scal(F(-1), mm(pol[Te - 1 - t], xs[t])), ENV)
                if w:
                    bad = "u_%d != -F_%d x_%d (policy of backward step %d): %s" % (t, t, t, Te - t, w)
                    break
                nxt = madd(madd(mm(pb.A, xs[t]), mm(pb.B, us[t])), mm(pb.C, [[F(float(W[i][t + 1]))] for i in range(lq2.j)]))
                w = close_m(xs[t + 1], nxt, ENV)
                if w:
                    bad = "x_%d != A x + B u + C w_%d: %s" % (t + 1, t + 1, w)
            if bad:
                ctx.spec_fail("compute_sequence", bad, {"problem": pb.wire(), "Rf": ratm(Rf), "T": T, "ts": ts,
                                                          "x0": ratm(x0m), "W": ratm(W)})

    # ---- error path: singular S1 ------------------------------------------------------------------------
    for (Qv, Pv) in [([[0.0]], [[0.0]]), ([[1.0, 1.0], [1.0, 1.0]], None)]:
        k = len(Qv)
        n = 1
        Bv = [[1.0] * k]
        lqs = LQ(np.array(Qv), np.array([[1.0]]), np.array([[1.0]]), np.array(Bv), beta=0.5, T=2,
                 Rf=np.array([[0.0]]))
        try:
            lqs.update_values()
            out = "no-error"
        except (np.linalg.LinAlgError, scipy.linalg.LinAlgError):
            out = "ERR:LinAlgError"
        except ValueError:
            out = "ERR:ValueError"
        ctx.count("err:" + out)
        pbs = prob_of(lqs)
        cases.append(Case("C07 rat update %s P=0 d=0" % pbs.wire(), out, tag="update-singular"))

    # ---- infinite horizon -----------------------------------------------------------------------------------
    n_inf = ctx.n(12, 200)
    for it in range(n_inf):
        Q, R, A, B, C, N, beta, cross = gen_problem(ctx, need_beta_lt1=True)
        if ctx.rng.random() < 0.4:
            A = scal(F(1, 4), A)       # small dynamics: more closed loops inside the domain beta*||A-BF||inf^2 < 1
        n, k = len(R), len(Q)
        res = {}
        for method in ("doubling", "qz"):
            forms = Forms(ctx)
            lq = make_lq(LQ, Q, R, A, B, C, N, beta, cross, forms=forms)
            pb = prob_of(lq)
            try:
                P, Fm, d = lq.stationary_values(method=method)
            except Exception as e:  # noqa: BLE001 — a solver failure on a controllable PD problem is a finding
                ctx.spec_fail("stationary_raises", "%s: %s on a controllable, positive definite problem" % (method, type(e).__name__),
                              {"problem": pb.wire(), "method": method})
                continue
            if forms.changed():
                ctx.spec_fail("inputs_modified", "stationary_values modified the caller's arrays %s" % forms.changed(),
                              {"problem": pb.wire(), "method": method})
            for nm_, arr_ in (("P", P), ("F", Fm)):
                for inm, iarr in forms.arrays():
                    if isinstance(arr_, np.ndarray) and np.shares_memory(arr_, iarr):
                        ctx.spec_fail("result_aliases", "stationary_values: %s shares memory with the input %s" % (nm_, inm),
                                      {"problem": pb.wire(), "method": method})
            P, Fm, d = np.array(P, dtype=float), np.array(Fm, dtype=float), float(d)
            res[method] = (P, Fm, d)
            ctx.count("inf:" + method)
            # model: F and d from the solver's P
            cases.append(Case("C07 rat stationary %s P=%s" % (pb.wire(), ratm(fm(P))), "F=%s d=%s" % (fxm(Fm), fx(d)),
                              cmp=cmp_fields(ENV, matrix_keys=("F",), scalar_keys=("d",)), tag="stationary"))
            # model: (P, d) is a fixed point of update_values
            cases.append(Case("C07 rat update %s P=%s d=%s" % (pb.wire(), ratm(fm(P)), rat(F(d))), upd_str(Fm, P, d),
                              cmp=cmp_fields(ENV_FIX, matrix_keys=("F", "P"), scalar_keys=("d",)), tag="fixed-point"))
            # ---- spec, exact ----
            Pq, Fq, dq = fm(P), fm(Fm), F(d)
            ex = pb.update(Pq, dq)
            why = None
            if ex is None:
                why = "S1 singular"
            else:
                why = close_m(ex[0], Fq, ENV_FIX) or close_m(ex[1], Pq, ENV_FIX)
                if not why and abs(ex[2] - dq) > F(ENV_FIX) * max(1, abs(dq)):
                    why = "d is not a fixed point"
            if why:
                ctx.spec_fail("stationary_fixed_point", "%s: (P,F,d) is not a fixed point of the update: %s" % (method, why),
                              {"problem": pb.wire(), "method": method, "got": upd_str(Fm, P, d)})
            rc = pb.rule_cost(Fq)
            rho = max(abs(np.linalg.eigvals(math.sqrt(float(pb.beta)) * tofloat(msub(pb.A, mm(pb.B, Fq))))))
            if rc is None or rho >= 1 - 1e-9:
                ctx.spec_fail("stationary_unstable", "%s: rule u=-Fx has infinite discounted cost (rho=%.6f)" % (method, rho),
                              {"problem": pb.wire(), "method": method, "F": fxm(Fm)})
                continue
            PF, dF, _ = rc
            why = close_m(Pq, PF, ENV_FIX)
            if not why and dF is not None and abs(dq - dF) > F(ENV_FIX) * max(1, abs(dF)):
                why = "d=%.12g, noise cost of the rule %.12g" % (d, float(dF))
            if why:
                ctx.spec_fail("stationary_cost", "%s: x'Px+d is not the cost generated by u=-Fx: %s" % (method, why),
                              {"problem": pb.wire(), "method": method, "got": upd_str(Fm, P, d)})
            check_identity_b(ctx, cases, pb, Pq, Fq, method)
            check_domain(ctx, cases, pb, Pq, Fq, method)
            # no perturbed linear rule is cheaper
            for _p in range(ctx.n(2, 4)):
                D = [[F(ctx.rng.randint(-2, 2), 8) for _ in range(n)] for _ in range(k)]
                if maxabs(D) == 0:
                    continue
                F2 = madd(Fq, D)
                rho2 = max(abs(np.linalg.eigvals(math.sqrt(float(pb.beta)) * tofloat(msub(pb.A, mm(pb.B, F2))))))
                if rho2 >= 1 - 1e-6:
                    ctx.count("inf:perturbed-unstable")
                    continue
                rc2 = pb.rule_cost(F2)
                if rc2 is None:
                    continue
                ctx.count("inf:perturbed-rules")
                diff = tofloat(msub(rc2[0], PF))
                ev = np.linalg.eigvalsh((diff + diff.T) / 2)
                tol = ENV_FIX * max(1.0, float(maxabs(PF)))
                if ev.min() < -tol or (dF is not None and rc2[1] is not None and rc2[1] < dF - F(tol)):
                    ctx.spec_fail("stationary_optimal", "%s: the rule F+Delta is cheaper from some state (min eig %.3e)" % (method, ev.min()),
                                  {"problem": pb.wire(), "method": method, "F": fxm(Fm), "Delta": ratm(D)})
        if len(res) == 2:
            why = close_m(fm(res["qz"][0]), fm(res["doubling"][0]), ENV_AGREE) or \
                close_m(fm(res["qz"][1]), fm(res["doubling"][1]), ENV_AGREE)
            if why:
                ctx.spec_fail("stationary_methods", "doubling and qz disagree: " + why, {"problem": pb.wire()})
        # compute_sequence, infinite horizon
        if "doubling" in res:
            for ts in ([None, ctx.rng.randint(1, 12)] if it % 4 == 0 else [ctx.rng.randint(1, 12)]):
                lq = make_lq(LQ, Q, R, A, B, C, N, beta, cross)
                pb = prob_of(lq)
                Te = horizon_py(None, ts)
                cases.append(Case("C07 horizon T=0 ts=%d" % (ts or 0), str(Te), tag="horizon"))
                W = [[F(ctx.rng.randint(-8, 8), 4) for _ in range(Te + 1)] for _ in range(lq.j)]
                x0 = [F(ctx.rng.randint(-4, 4), 2) for _ in range(n)]
                x0m = [[v] for v in x0]
                rs = FixedNormals(tofloat(W))
                xp, up, wp = lq.compute_sequence(np.array([float(v) for v in x0]), ts_length=ts, random_state=rs)
                Fst = np.array(lq.F, dtype=float)
                ctx.count("seqinf:ts-none" if ts is None else "seqinf:ts")
                impl = "x=%s u=%s" % (showms([colm(xp[:, t]) for t in range(xp.shape[1])]),
                                      showms([colm(up[:, t]) for t in range(up.shape[1])]))
                mode = "rat" if Te <= 12 else "float"
                enc, encs = (ratm, rat) if mode == "rat" else (fxm, fx)
                conv = (lambda m: m) if mode == "rat" else tofloat
                cases.append(Case("C07 %s seqinf %s F=%s ts=%d x0=%s W=%s" % (
                    mode, pb.wire(enc, encs), enc(conv(fm(Fst))), ts or 0, enc(conv(x0m)), enc(conv(W))),
                    impl, cmp=cmp_seq, tag="seqinf-" + mode))
                # spec: path law with the stationary rule
                Fq = fm(Fst)
                bad = None
                if xp.shape != (n, Te + 1) or up.shape != (k, Te):
                    bad = "shapes"
                else:
                    xs = [fm(colm(xp[:, t])) for t in range(Te + 1)]
                    us = [fm(colm(up[:, t])) for t in range(Te)]
                    if close_m(xs[0], x0m, 0):
                        bad = "x_0 != x0"
                    for t in range(Te):
                        if bad:
                            break
                        bad = close_m(us[t], scal(F(-1), mm(Fq, xs[t])), ENV)
                        if bad:
                            bad = "u_%d: %s" % (t, bad)
                            break
                        nxt = madd(madd(mm(pb.A, xs[t]), mm(pb.B, us[t])), mm(pb.C, [[W[i][t + 1]] for i in range(lq.j)]))
                        bad = close_m(xs[t + 1], nxt, ENV)
                        if bad:
                            bad = "x_%d: %s" % (t + 1, bad)
                if bad:
                    ctx.spec_fail("compute_sequence_inf", bad, {"problem": pb.wire(), "ts": ts, "x0": ratm(x0m), "W": ratm(W)})

    run_init(ctx, cases, LQ)
    run_histories(ctx, cases, LQ)
    run_rblq(ctx, cases, RBLQ, LQ)
    run_nnash(ctx, cases, nnash, LQ)
    run_markov(ctx, cases, LQMarkov, LQ)
    ctx.run_cases(cases)


# ----------------------------------------------------------------------------------------------
# LQ.__init__: validation branch and initial state (includes the malformed stream: noise with beta >= 1, T falsy)


def run_init(ctx, cases, LQ):
    rng = ctx.rng
    combos = [(Tk, Ck, b) for Tk in ("none", "zero", "fin") for Ck in ("none", "zero", "nonzero")
              for b in (F(1, 2), F(1), F(3, 2))]
    rng.shuffle(combos)
    for (Tk, Ck, b) in combos[:ctx.n(14, 27)]:
        n, k = rng.randint(1, 3), rng.randint(1, 2)
        Q, R = madd(psd(ctx, k), eye(k)), madd(psd(ctx, n), eye(n))
        A = [[F(rng.choice([-1, 0, 1, 1]), 2) for _ in range(n)] for _ in range(n)]
        B = [[F(rng.choice([0, 1, 2]), 2) for _ in range(k)] for _ in range(n)]
        jj = rng.randint(1, 2)
        C = None if Ck == "none" else zeros(n, jj)
        if Ck == "nonzero":
            C[rng.randrange(n)][rng.randrange(jj)] = F(rng.choice([-1, 1, 3]), 2)
        T = {"none": None, "zero": 0, "fin": rng.randint(1, 4)}[Tk]
        Rf = psd(ctx, n)
        kw = {}
        if C is not None:
            kw["C"] = tofloat(C)
        if T is not None:
            kw["T"] = T
            kw["Rf"] = tofloat(Rf)
        beta = float(b) if rng.random() < 0.7 or b.denominator != 1 else int(b)
        try:
            lq = LQ(tofloat(Q), tofloat(R), tofloat(A), tofloat(B), beta=beta, **kw)
            out = "P=%s d=%s F=%s T=%d" % ("None" if lq.P is None else fxm(lq.P), "None" if lq.d is None else fx(lq.d),
                                           "None" if lq.F is None else "set", lq.T or 0)
            ctx.count("init:accepted")
        except ValueError:
            out = "ERR:ValueError"
            ctx.count("init:ValueError")
        # spec (the documented rule): rejected iff infinite horizon, noise and beta >= 1
        should_reject = (not T) and C is not None and maxabs(C) != 0 and b >= 1
        if should_reject != (out == "ERR:ValueError"):
            ctx.spec_fail("init_validation", "LQ(T=%r, C %s, beta=%s): %s" % (T, Ck, b, out), {"T": T, "C": Ck, "beta": rat(b)})
        Cw = C if C is not None else zeros(n, 1)
        pbw = Prob(Q, R, A, B, Cw, zeros(k, n), b)

        def cmp(model, impl):
            if model.startswith("ERR") or impl.startswith("ERR"):
                return None if model == impl else "outputs differ"
            a_, b_ = kvparse(model), kvparse(impl)
            for key in ("d", "F", "T"):
                va, vb = a_[key], b_[key]
                if key == "d" and va != "None" and vb != "None":
                    va, vb = str(parse_rat(va)), str(parse_rat(vb))
                if va != vb:
                    return "%s: %s vs %s" % (key, va, vb)
            if (a_["P"] == "None") != (b_["P"] == "None"):
                return "P: None-ness differs"
            if a_["P"] != "None" and close_m(parse_ratm(a_["P"]), parse_ratm(b_["P"]), 0):
                return "P differs"
            return None
        cases.append(Case("C07 init %s T=%d%s" % (pbw.wire(), T or 0, (" Rf=%s" % ratm(Rf)) if T else ""), out, cmp=cmp,
                          tag="init", nontrivial=(Ck != "none")))


# ----------------------------------------------------------------------------------------------
# histories of calls on ONE object


def cmp_hist(env):
    """records `key=value ...` of a whole history; None / error kinds exactly, numbers inside env"""

    def cmp(model, impl):
        ta, tb = model.split(" "), impl.split(" ")
        if len(ta) != len(tb):
            return "different number of fields (%d vs %d)" % (len(ta), len(tb))
        for x, y in zip(ta, tb):
            ka, va = x.split("=", 1)
            kb, vb = y.split("=", 1)
            if ka != kb:
                return "field %s vs %s" % (ka, kb)
            if va == "None" or vb == "None" or ka.startswith("E"):
                if va != vb:
                    return "%s: %s vs %s" % (ka, va, vb)
                continue
            if ka[0] in "xu":
                la, lb = mats(va), mats(vb)
                if len(la) != len(lb):
                    return "%s: %d vs %d columns" % (ka, len(la), len(lb))
                for i, (p, q) in enumerate(zip(la, lb)):
                    why = close_m(p, q, env)
                    if why:
                        return "%s[%d]: %s" % (ka, i, why)
            elif ka[0] == "d":
                p, q = parse_rat(va), parse_rat(vb)
                if abs(p - q) > F(env) * max(F(1), abs(q)):
                    return "%s: %.6e vs %.6e" % (ka, float(p), float(q))
            else:
                why = close_m(parse_ratm(va), parse_ratm(vb), env)
                if why:
                    return "%s: %s" % (ka, why)
        return None
    return cmp


def exact_chain(pb, Rf, T):
    """the T-period programme by backward induction in Fractions from Rf (each P_t rounded to doubles so that the
    rationals stay small): [(F_s, P_s, d_s)] for s = 1..T, independent of the code and of any object state"""
    out = []
    P, d = fm(tofloat(Rf)), F(0)
    for _ in range(T):
        r = pb.update(P, d)
        if r is None:
            return None
        Fm, P, d = r
        P = fm(tofloat(P))
        d = F(float(d))
        out.append((Fm, P, d))
    return out


def run_histories(ctx, cases, LQ):
    rng = ctx.rng

    def state_str(i, lq):
        sF = "None" if lq.F is None else fxm(lq.F)
        sP = "None" if lq.P is None else fxm(lq.P)
        sd = "None" if lq.P is None else fx(lq.d)
        return "F%d=%s P%d=%s d%d=%s" % (i, sF, i, sP, i, sd)

    for it in range(ctx.n(24, 300)):
        finite = rng.random() < 0.7
        Q, R, A, B, C, N, beta, cross = gen_problem(ctx, need_beta_lt1=not finite)
        n, k = len(R), len(Q)
        forms = Forms(ctx)
        if finite:
            T = rng.randint(1, 6)
            Rf = psd(ctx, n)
            lq = make_lq(LQ, Q, R, A, B, C, N, beta, cross, T=T, Rf=Rf, forms=forms)
        else:
            T, Rf = 0, None
            lq = make_lq(LQ, Q, R, A, B, C, N, beta, cross, forms=forms)
        pb = prob_of(lq)
        envh = {"e": ENV_PATH}     # widened when the object's P shows amplified asymmetry (see the finite-horizon block)
        kept = []      # every array a call returned: (label, call index, array, bytes at return, judge or None)

        def audit(after):
            """after call number `after`: every kept result still bitwise what was returned and still obeys its
            oracle; kept path arrays of different calls, the inputs and the object's data do not alias; the
            caller's inputs are bitwise unchanged"""
            rep = {"problem": pb.wire(), "T": T, "Rf": ratm(Rf) if finite else None, "calls": kinds, "after_call": after}
            for (lab, ci, arr, snap, judge) in kept:
                if arr.tobytes() != snap:
                    ctx.spec_fail("kept_result_overwritten", "%s returned by call %d was modified by call %d (history %s)"
                                  % (lab, ci, after, "".join(kinds[:after + 1])), dict(rep, result=lab, call=ci))
            seen = set()
            for (lab, ci, arr, snap, judge) in kept:
                if judge is not None and ci not in seen and ci != after:
                    seen.add(ci)
                    bad = judge()
                    if bad:
                        ctx.spec_fail("kept_result_rejudged", "the paths returned by call %d no longer obey the law of motion "
                                      "after call %d: %s" % (ci, after, bad), dict(rep, call=ci))
            attrs = [("lq." + nm, getattr(lq, nm)) for nm in ("Q", "R", "A", "B", "C", "N") if isinstance(getattr(lq, nm), np.ndarray)]
            paths = [(lab, ci, arr) for (lab, ci, arr, _, _) in kept if lab[0] in "xuw"]
            for a_i in range(len(paths)):
                for b_i in range(a_i + 1, len(paths)):
                    if np.shares_memory(paths[a_i][2], paths[b_i][2]):
                        ctx.spec_fail("result_aliases", "%s of call %d and %s of call %d share memory" % (
                            paths[a_i][0], paths[a_i][1], paths[b_i][0], paths[b_i][1]), rep)
                for nm, arr in forms.arrays() + attrs:
                    if np.shares_memory(paths[a_i][2], arr):
                        ctx.spec_fail("result_aliases", "%s of call %d shares memory with %s" % (paths[a_i][0], paths[a_i][1], nm), rep)
            ch = forms.changed()
            if ch:
                ctx.spec_fail("inputs_modified", "caller's arrays %s were modified" % ch, rep)
            ctx.count("hist:audits")

        ncalls = rng.randint(2, 5)
        kinds = []
        for c in range(ncalls):
            r = rng.random()
            if not finite and c == 0:
                kinds.append("s" if r < 0.5 else "q")     # update_values needs self.P
            else:
                kinds.append("u" if r < 0.35 else ("q" if r < 0.85 else "s"))
        if "q" not in kinds[1:]:
            kinds[-1] = "q"                                 # a compute_sequence with a non-trivial past
        force_ts = None
        if it < 4:                                          # always present: two equal-length simulations, results kept
            kinds = ["q", "q"] if it % 2 == 0 else ["q", "u", "q"] if finite else ["q", "s", "q"]
            force_ts = "pool"
        chain = 0
        longest = 0
        max_te = 0
        ts_pool = rng.randint(1, 8)        # repeated lengths: equal-length calls on one object
        req_r, req_f, impl = [], [], []
        for i, kd in enumerate(kinds):
            P_before = None if lq.P is None else fm(lq.P)
            d_before = None if lq.P is None else F(float(lq.d))
            try:
                if kd == "u":
                    lq.update_values()
                    chain += 1
                    req_r.append("c%d=u" % i)
                    req_f.append("c%d=u" % i)
                    impl.append(state_str(i, lq))
                    ctx.count("hist:update")
                    ex = pb.update(P_before, d_before)
                    if ex is not None:
                        why = close_m(fm(lq.F), ex[0], ENV) or close_m(fm(lq.P), ex[1], ENV)
                        if why:
                            ctx.spec_fail("hist_update_values", "call %d (update_values) is not the Riccati update of the "
                                          "object's previous (P,d): %s" % (i, why), {"problem": pb.wire(), "calls": kinds})
                elif kd == "s":
                    lq.stationary_values()
                    chain = 0
                    Pr = fm(lq.P)
                    req_r.append("c%d=s Pric%d=%s" % (i, i, ratm(Pr)))
                    req_f.append("c%d=s Pric%d=%s" % (i, i, fxm(lq.P)))
                    impl.append(state_str(i, lq))
                    ctx.count("hist:stationary")
                else:
                    ts = rng.choice([None, None, ts_pool, rng.randint(1, 8)])
                    if force_ts:
                        ts = ts_pool if (not finite or it >= 2) else None
                    Te = (T if not ts else min(ts, T)) if finite else (ts if ts else 100)
                    if not finite and ts is None and rng.random() < 0.7:
                        ts = ts_pool
                        Te = ts
                    max_te = max(max_te, Te)
                    W = [[F(rng.randint(-8, 8), 4) for _ in range(Te + 1)] for _ in range(lq.j)]
                    x0 = [[F(rng.randint(-4, 4), 2)] for _ in range(n)]
                    was_none = lq.P is None
                    x0_arg = rng.choice(["1d", "col", "list"] + (["scalar"] if n == 1 else []))
                    x0_in = {"1d": np.array([float(v[0]) for v in x0]), "col": tofloat(x0),
                             "list": [float(v[0]) for v in x0], "scalar": float(x0[0][0])}[x0_arg]
                    if isinstance(x0_in, np.ndarray):
                        forms.inputs.append(("x0(call %d)" % i, x0_in, x0_in.tobytes()))
                    xp, up, wp = lq.compute_sequence(x0_in, ts_length=ts, random_state=FixedNormals(tofloat(W)))
                    chain = Te if finite else chain
                    extra_r = extra_f = ""
                    if was_none:
                        extra_r = " Pric%d=%s" % (i, ratm(fm(lq.P)))
                        extra_f = " Pric%d=%s" % (i, fxm(lq.P))
                    req_r.append("c%d=q ts%d=%d x0%d=%s W%d=%s%s" % (i, i, ts or 0, i, ratm(x0), i, ratm(W), extra_r))
                    req_f.append("c%d=q ts%d=%d x0%d=%s W%d=%s%s" % (i, i, ts or 0, i, fxm(tofloat(x0)), i, fxm(tofloat(W)), extra_f))
                    impl.append("%s x%d=%s u%d=%s" % (state_str(i, lq), i, showms([colm(xp[:, t]) for t in range(xp.shape[1])]),
                                                      i, showms([colm(up[:, t]) for t in range(up.shape[1])])))
                    ctx.count("hist:sequence-%s-%s" % ("finite" if finite else "infinite", "fresh" if i == 0 else "after-calls"))
                    # ---- spec: judged independently of the object's history; the judge is kept and re-run later ----
                    ch = exact_chain(pb, Rf, Te) if finite else None
                    Fq_now = None if finite else fm(lq.F)

                    def judge(xp=xp, up=up, wp=wp, Te=Te, W=W, x0=x0, ch=ch, Fq_now=Fq_now):
                        if xp.shape != (n, Te + 1) or up.shape != (k, Te) or wp.shape != (lq.j, Te + 1):
                            return "shapes %r %r %r" % (xp.shape, up.shape, wp.shape)
                        if not np.array_equal(wp, tofloat(W)):
                            return "w_path is not the drawn shocks"
                        xs = [fm(colm(xp[:, t])) for t in range(Te + 1)]
                        us = [fm(colm(up[:, t])) for t in range(Te)]
                        if close_m(xs[0], x0, 0):
                            return "x_0 != x0"
                        if finite and ch is None:
                            return None
                        for t in range(Te):
                            Ft = ch[Te - 1 - t][0] if finite else Fq_now
                            w = close_m(us[t], scal(F(-1), mm(Ft, xs[t])), envh["e"])
                            if w:
                                return "u_%d is not -F_%d x_%d%s: %s" % (t, t, t, " of the %d-period programme" % Te if finite else "", w)
                            nxt = madd(madd(mm(pb.A, xs[t]), mm(pb.B, us[t])), mm(pb.C, [[W[r_][t + 1]] for r_ in range(lq.j)]))
                            w = close_m(xs[t + 1], nxt, envh["e"])
                            if w:
                                return "x_%d != A x + B u + C w: %s" % (t + 1, w)
                        return None

                    bad = judge()
                    if not bad and finite and ch is not None:
                        w = close_m(fm(lq.P), ch[-1][1], envh["e"])
                        if not w and abs(F(float(lq.d)) - ch[-1][2]) > F(envh["e"]) * max(1, abs(ch[-1][2])):
                            w = "d=%r, programme %.12g" % (lq.d, float(ch[-1][2]))
                        if w:
                            bad = "(P, d) left in the object is not the value of the %d-period programme: %s" % (Te, w)
                        if not bad and Te * k <= 8 and n <= 3:
                            P_qp = qp_value_matrix(pb, fm(tofloat(Rf)), Te)
                            if P_qp is not None:
                                ctx.count("hist:qp-oracle")
                                w = close_m(fm(lq.P), P_qp, envh["e"])
                                if w:
                                    bad = "P left in the object is not the value matrix of the stacked programme: " + w
                    if bad:
                        ctx.spec_fail("hist_compute_sequence", "call %d of the history %s on one %s-horizon object: %s"
                                      % (i, "".join(kinds), "finite" if finite else "infinite", bad),
                                      {"problem": pb.wire(), "T": T, "Rf": ratm(Rf) if finite else None, "calls": kinds,
                                       "call": i, "ts": ts, "x0": ratm(x0), "W": ratm(W)})
                    kept.append(("x_path", i, xp, xp.tobytes(), judge))
                    kept.append(("u_path", i, up, up.tobytes(), None))
                    kept.append(("w_path", i, wp, wp.tobytes(), None))
                # the value-function attributes as they are now (a later call must rebind, not overwrite, them)
                for nm in ("P", "F"):
                    v_ = getattr(lq, nm)
                    if isinstance(v_, np.ndarray) and v_.ndim == 2:
                        kept.append(("lq.%s after call" % nm, i, v_, v_.tobytes(), None))
                if isinstance(lq.P, np.ndarray) and lq.P.ndim == 2:
                    asym_h = float(np.abs(lq.P - lq.P.T).max()) / max(1.0, float(np.abs(lq.P).max()))
                    if 1000.0 * asym_h > envh["e"]:
                        envh["e"] = 1000.0 * asym_h
                        ctx.count("hist:path-envelope-widened")
                audit(i)
            except (np.linalg.LinAlgError, ValueError, TypeError) as e:
                impl.append("E%d=%s" % (i, "LinAlgError" if isinstance(e, np.linalg.LinAlgError) else type(e).__name__))
                ctx.count("hist:raised-" + type(e).__name__)
                req_r.append("c%d=%s" % (i, kd))
                req_f.append("c%d=%s" % (i, kd))
                break
            longest = max(longest, chain)
        head_r = "%s T=%d %scalls=%d " % (pb.wire(), T, ("Rf=%s " % ratm(Rf)) if finite else "", len(req_r))
        head_f = "%s T=%d %scalls=%d " % (pb.wire(fxm, fx), T, ("Rf=%s " % fxm(tofloat(Rf))) if finite else "", len(req_f))
        impl_s = " ".join(impl)
        ctx.count("hist:histories")
        n_upd = sum(1 for kd in kinds if kd == "u")
        if (finite and small_growth(k, longest)) or (not finite and max_te <= 12 and n_upd <= 2):
            cases.append(Case("C07 rat hist " + head_r + " ".join(req_r), impl_s, cmp=cmp_hist(envh["e"]), tag="hist-rat"))
        cases.append(Case("C07 float hist " + head_f + " ".join(req_f), impl_s, cmp=cmp_hist(envh["e"]), tag="hist-float"))


# ----------------------------------------------------------------------------------------------
# RBLQ


def run_rblq(ctx, cases, RBLQ, LQ):
    for it in range(ctx.n(8, 100)):
        Q, R, A, B, C, N, beta, cross = gen_problem(ctx, need_beta_lt1=True, cross=False, noise=True)
        while max(sum(abs(x) for x in row) for row in A) > 1:
            A = scal(F(1, 2), A)      # stable A: keeps the robust problem well inside its breakdown point
        n, k = len(R), len(Q)
        if beta == 1:
            beta = F(15, 16)
        theta = F(ctx.rng.choice([50, 100, 200, 1000]))
        forms = Forms(ctx)
        rb = RBLQ(forms.vary("Q", Q), forms.vary("R", R), forms.vary("A", A), forms.vary("B", B, flat_ok=(n == 1)),
                  forms.vary("C", C, flat_ok=(n == 1)), float(beta), float(theta) if ctx.rng.random() < 0.7 else int(theta))
        for nm_, Mx_ in (("Q", Q), ("R", R), ("A", A), ("B", B), ("C", C)):
            got_ = np.asarray(getattr(rb, nm_))
            if got_.shape != (len(Mx_), len(Mx_[0])) or not np.array_equal(got_.astype(float), tofloat(Mx_)):
                ctx.spec_fail("constructor_forms", "RBLQ(...) holds %s of shape %r != the matrix passed" % (nm_, got_.shape),
                              {"attr": nm_, "passed": ratm(Mx_)})
        pb = Prob(Q, R, A, B, C, zeros(k, n), beta)
        P = psd(ctx, n)
        P = scal(F(1, 4), P)
        # d_operator / b_operator on a rational P
        dP = rb.d_operator(tofloat(P))
        cases.append(Case("C07 rat rblqd C=%s theta=%s P=%s" % (ratm(C), rat(theta), ratm(P)), fxm(dP),
                          cmp=lambda m, i: close_m(parse_ratm(m), parse_ratm(i), ENV) if not m.startswith("ERR") else "model error",
                          tag="rblq-d"))
        Fb, Pb = rb.b_operator(tofloat(P))
        cases.append(Case("C07 rat rblqb %s P=%s pure=0" % (pb.wire(), ratm(P)), "F=%s P=%s" % (fxm(Fb), fxm(Pb)),
                          cmp=cmp_fields(ENV, matrix_keys=("F", "P")), tag="rblq-b"))
        # spec: D(P) = P + P C (theta I - C'PC)^{-1} C'P exactly
        S1 = mm(P, C)
        X = gsolve(msub(scal(theta, eye(len(C[0]))), mm(tr(C), S1)), tr(S1))
        if X is not None:
            why = close_m(fm(dP), madd(P, mm(S1, X)), ENV)
            if why:
                ctx.spec_fail("rblq_d_operator", why, {"C": ratm(C), "theta": rat(theta), "P": ratm(P)})
        ex = pb.update(P, F(0))
        if ex is not None:
            why = close_m(fm(Fb), ex[0], ENV) or close_m(fm(Pb), ex[1], ENV)
            if why:
                ctx.spec_fail("rblq_b_operator", why, {"problem": pb.wire(), "P": ratm(P)})
        # the two solution methods
        try:
            F1, K1, P1 = rb.robust_rule()
            F2, K2, P2 = rb.robust_rule_simple(max_iter=2000, tol=1e-13)
        except Exception as e:  # noqa: BLE001
            ctx.count("rblq:raised-" + type(e).__name__)
            continue
        # near the breakdown point (theta I - C'PC almost singular) the robust Bellman operator has several fixed
        # points and value iteration from 0 need not reach the one of the stacked Riccati equation: not compared
        Cn = tofloat(C)
        if np.linalg.eigvalsh(float(theta) * np.eye(Cn.shape[1]) - Cn.T @ np.array(P1) @ Cn).min() < 0.5 * float(theta):
            ctx.count("rblq:near-breakdown-skipped")
            continue
        ctx.count("rblq:solved")
        if forms.changed():
            ctx.spec_fail("inputs_modified", "RBLQ modified the caller's arrays %s" % forms.changed(), {"problem": pb.wire()})
        why = close_m(fm(F1), fm(F2), ENV_AGREE) or close_m(fm(P1), fm(P2), ENV_AGREE) or close_m(fm(K1), fm(K2), ENV_AGREE)
        if why:
            ctx.spec_fail("rblq_methods", "robust_rule and robust_rule_simple disagree: " + why,
                          {"problem": pb.wire(), "theta": rat(theta)})
        # model: robust_rule's (F, K, P) is a fixed point of the stacked LQ update
        f_st = np.vstack([np.array(F1), -np.array(K1)])
        cases.append(Case("C07 rat rblqstack %s theta=%s P=%s" % (pb.wire(), rat(theta), ratm(fm(P1))),
                          "F=%s P=%s" % (fxm(f_st), fxm(P1)), cmp=cmp_fields(ENV_FIX, matrix_keys=("F", "P")), tag="rblq-stack"))
        # model: one pass B(D(P)) at the fixed point, and K
        cases.append(Case("C07 rat rblqstep %s theta=%s P=%s pure=0" % (pb.wire(), rat(theta), ratm(fm(P2))),
                          "F=%s P=%s K=%s" % (fxm(F2), fxm(P2), fxm(K2)),
                          cmp=cmp_fields(ENV_FIX, matrix_keys=("F", "P", "K")), tag="rblq-step"))
        # spec: theta large => LQ
        rbL = RBLQ(tofloat(Q), tofloat(R), tofloat(A), tofloat(B), tofloat(C), float(beta), 1e9)
        FL, KL, PL = rbL.robust_rule()
        lq = LQ(tofloat(Q), tofloat(R), tofloat(A), tofloat(B), C=tofloat(C), beta=float(beta))
        P0, F0, d0 = lq.stationary_values()
        why = close_m(fm(FL), fm(F0), ENV_AGREE) or close_m(fm(PL), fm(P0), ENV_AGREE)
        if why:
            ctx.spec_fail("rblq_limit", "RBLQ with theta=1e9 differs from LQ: " + why, {"problem": pb.wire()})
        # spec: F_to_K / K_to_F are mutual best responses at the robust rule
        try:
            Fk, Pk = rb.K_to_F(np.array(K1))
            why = close_m(fm(Fk), fm(F1), ENV_AGREE)
            if len(C[0]) == 1:
                Kf, Pf = rb.F_to_K(np.array(F1))
                why = why or close_m(fm(Kf), fm(K1), ENV_AGREE)
                ctx.count("rblq:F_to_K-checked")
            else:
                # F_to_K passes the scalar beta*theta as Q of a j-control LQ problem: ValueError for j >= 2
                try:
                    rb.F_to_K(np.array(F1))
                    ctx.count("rblq:F_to_K-multishock-ok")
                except ValueError:
                    ctx.count("rblq:F_to_K-multishock-ValueError")
                    if "rblq_F_to_K_multishock" in ctx.known:
                        ctx.spec_fail("rblq_F_to_K_multishock", "F_to_K raises ValueError when C has >= 2 columns", {})
            if why:
                ctx.spec_fail("rblq_best_response", "F_to_K/K_to_F at the robust rule: " + why,
                              {"problem": pb.wire(), "theta": rat(theta)})
            ctx.count("rblq:best-response")
        except Exception as e:  # noqa: BLE001
            ctx.count("rblq:ftok-raised-" + type(e).__name__)


# ----------------------------------------------------------------------------------------------
# nnash


def run_nnash(ctx, cases, nnash, LQ):
    rng = ctx.rng
    # documented form the clean code does not accept: scalar A (A.shape[0] on a 0-d array)
    try:
        nnash(0.5, 1.0, 1.0, 1.0, 1.0, 1.0, 1.0, 0.0, 0.0, 0.0, 0.0, 0.0, 0.0)
        ctx.count("nnash:scalar-A-ok")
    except Exception as e:  # noqa: BLE001
        ctx.count("nnash:scalar-A-raises-" + type(e).__name__)
        if "nnash_scalar_A" in ctx.known:
            ctx.spec_fail("nnash_scalar_A", "nnash raises on scalar A although the docstring allows scalars", {})
    for it in range(ctx.n(10, 120)):
        n = rng.randint(1, 3)
        k1, k2 = rng.choice([1, 1, 2]), rng.choice([1, 1, 2])
        if it < 6:
            k1, k2 = 1, (1 if it % 2 else 2)
        sm = lambda r, c: [[F(rng.choice([-1, 0, 0, 1, 1]), 4) for _ in range(c)] for _ in range(r)]
        A = [[F(rng.choice([-1, 0, 1, 1, 2]), 4) for _ in range(n)] for _ in range(n)]
        B1 = [[F(rng.choice([0, 1, 1, 2]), 2) for _ in range(k1)] for _ in range(n)]
        B2 = [[F(rng.choice([0, 1, 1, 2]), 2) for _ in range(k2)] for _ in range(n)]
        R1, R2 = madd(psd(ctx, n), eye(n)), madd(psd(ctx, n), eye(n))
        Q1, Q2 = madd(psd(ctx, k1), scal(F(4), eye(k1))), madd(psd(ctx, k2), scal(F(4), eye(k2)))
        S1, S2 = sm(k2, k2), sm(k1, k1)
        S1, S2 = madd(S1, tr(S1)), madd(S2, tr(S2))
        W1, W2 = sm(n, k1), sm(n, k2)
        M1, M2 = sm(k2, k1), sm(k1, k2)
        beta = rng.choice([1.0, 0.95, 0.5, 0.75, 0.25])
        force_flat = None
        if it < 6:      # always present: beta in {1, 0.95, 0.5} x (flat, 2-D) B_i with one-control players
            beta = [0.5, 0.95, 1.0][it % 3]
            force_flat = it < 3
        canon = (A, B1, B2, R1, R2, Q1, Q2, S1, S2, W1, W2, M1, M2)
        args = [tofloat(x) for x in canon]
        # ---- argument forms: flat 1-D B_i for a one-control player, scalars for 1x1, orders, dtypes, lists ----
        forms = Forms(ctx)
        flat = [False, False]
        call = []
        for nm, Mx in zip(("A", "B1", "B2", "R1", "R2", "Q1", "Q2", "S1", "S2", "W1", "W2", "M1", "M2"), canon):
            if nm in ("B1", "B2") and len(Mx[0]) == 1 and (rng.random() < 0.6 if force_flat is None else force_flat):
                v = np.array([float(r_[0]) for r_ in Mx])
                if rng.random() < 0.3:
                    v = v.astype(np.int64) if np.all(v == np.round(v)) else v.astype(np.float32) if np.all(
                        v.astype(np.float32).astype(float) == v) else v
                if rng.random() < 0.25:
                    call.append([float(x_) for x_ in v])
                else:
                    forms.inputs.append((nm, v, v.tobytes()))
                    call.append(v)
                flat[int(nm[1]) - 1] = True
                ctx.count("nnash:flat-B")
            else:
                call.append(forms.vary(nm, Mx, scalar_ok=(nm not in ("A", "B1", "B2"))))
        ctx.count("nnash:beta<1" if beta < 1 else "nnash:beta=1")
        if beta < 1 and (flat[0] or flat[1]):
            ctx.count("nnash:beta<1-and-flat-B")
        rep = {"args": [ratm(v) for v in canon], "beta": repr(beta), "flat_B": flat}
        try:
            F1, F2, P1, P2 = nnash(*call, beta=beta, tol=1e-13, max_iter=3000)
        except Exception as e:  # noqa: BLE001
            ctx.count("nnash:raised-" + type(e).__name__)
            continue
        ctx.count("nnash:solved")
        first = [(nm, arr, np.array(arr).tobytes()) for nm, arr in (("F1", F1), ("F2", F2), ("P1", P1), ("P2", P2))]
        sb = float(np.sqrt(beta))
        keys = ("A", "B1", "B2", "R1", "R2", "Q1", "Q2", "S1", "S2", "W1", "W2", "M1", "M2")
        vals = [A, tr(B1) if flat[0] else B1, tr(B2) if flat[1] else B2, R1, R2, Q1, Q2, S1, S2, W1, W2, M1, M2]
        gline = " ".join("%s=%s" % (kk, ratm(v)) for kk, v in zip(keys, vals)) + " sb=%s flat1=%d flat2=%d" % (
            rat(F(sb)), int(flat[0]), int(flat[1]))
        # model: one pass of the loop at the returned (P1, P2) reproduces the returned feedbacks (the loop stops on
        # the feedbacks only, so the returned P1, P2 need not be stationary; they are not compared here)
        cases.append(Case("C07 rat nnash %s iters=1 P1=%s P2=%s" % (gline, ratm(fm(P1)), ratm(fm(P2))),
                          "F1=%s F2=%s P1=%s P2=%s" % (fxm(F1), fxm(F2), fxm(P1), fxm(P2)),
                          cmp=cmp_fields(ENV_FIX, matrix_keys=("F1", "F2")), tag="nnash-fixed-point"))
        # model: with tol=inf the loop makes exactly two passes from P1=P2=0 (dd is inf in the first pass because
        # F10 = inf): a step-level comparison of all four outputs
        G1, G2, Pa, Pb = nnash(*call, beta=beta, tol=np.inf, max_iter=5)
        cases.append(Case("C07 rat nnash %s iters=2 P1=%s P2=%s" % (gline, ratm(zeros(n, n)), ratm(zeros(n, n))),
                          "F1=%s F2=%s P1=%s P2=%s" % (fxm(G1), fxm(G2), fxm(Pa), fxm(Pb)),
                          cmp=cmp_fields(ENV, matrix_keys=("F1", "F2", "P1", "P2")), tag="nnash-2-passes"))
        # kept results of the first call and the caller's inputs after the second call
        for nm, arr, snap in first:
            if np.array(arr).tobytes() != snap:
                ctx.spec_fail("kept_result_overwritten", "nnash: %s of an earlier call was modified by a later call" % nm, rep)
            for inm, iarr in forms.arrays():
                if isinstance(arr, np.ndarray) and np.shares_memory(arr, iarr):
                    ctx.spec_fail("result_aliases", "nnash: %s shares memory with the input %s" % (nm, inm), rep)
        if forms.changed():
            ctx.spec_fail("inputs_modified", "nnash modified the caller's arrays %s" % forms.changed(), rep)
        # spec: F1 is the LQ best response to F2 and vice versa (through LQ.stationary_values, itself checked above)
        for (me, Fo, Bm, Bo, Rm, Qm, Sm, Wm, Mm, Fme) in (
                (1, F2, args[1], args[2], args[3], args[5], args[7], args[9], args[11], F1),
                (2, F1, args[2], args[1], args[4], args[6], args[8], args[10], args[12], F2)):
            Fo = np.array(Fo)
            Acl = args[0] - Bo @ Fo
            Rbr = Rm + Fo.T @ Sm @ Fo
            Nbr = Wm.T - Mm.T @ Fo
            try:
                lq = LQ(Qm, Rbr, Acl, Bm, N=Nbr, beta=float(beta))
                Pbr, Fbr, _ = lq.stationary_values()
                # ... and exactly: (F_me, P_br) must be a fixed point of the exact Riccati update of that problem
                pbr = prob_of(lq)
                ex = pbr.update(fm(Pbr), F(0))
                if ex is not None and close_m(ex[0], fm(Fbr), ENV_FIX):
                    ctx.count("nnash:br-oracle-not-stationary")
            except Exception as e:  # noqa: BLE001
                ctx.count("nnash:br-raised-" + type(e).__name__)
                continue
            ctx.count("nnash:best-response-checked")
            why = close_m(fm(Fme), fm(Fbr), ENV_AGREE)
            if why:
                ctx.spec_fail("nnash_best_response", "F%d is not the LQ best response to the other player: %s" % (me, why),
                              rep)


# ----------------------------------------------------------------------------------------------
# LQMarkov


def run_markov(ctx, cases, LQMarkov, LQ):
    rng = ctx.rng
    for it in range(ctx.n(5, 60)):
        identical = (it % 2 == 0)
        m = rng.randint(2, 3)
        n, k = rng.randint(1, 2), rng.randint(1, 2)
        probs = []
        base = None
        for s in range(m):
            if identical and base is not None:
                probs.append(base)
                continue
            Q, R, A, B, C, N, beta, cross = gen_problem(ctx, n=n, k=k, need_beta_lt1=True, noise=True)
            A = scal(F(1, 2), A)
            if len(C[0]) != 1:
                C = [row[:1] for row in C]
            base = (Q, R, A, B, C, N)
            probs.append(base)
        beta = F(rng.choice([F(1, 2), F(3, 4), F(7, 8)]))
        rows2 = [[F(1, 2), F(1, 2)], [F(1, 4), F(3, 4)], [F(7, 8), F(1, 8)], [F(1), F(0)]]
        rows3 = [[F(1, 2), F(1, 4), F(1, 4)], [F(1, 8), F(3, 4), F(1, 8)], [F(1, 4), F(1, 4), F(1, 2)], [F(0), F(1, 2), F(1, 2)]]
        Pi = [list(rng.choice(rows2 if m == 2 else rows3)) for _ in range(m)]
        args = dict(Qs=[tofloat(p[0]) for p in probs], Rs=[tofloat(p[1]) for p in probs], As=[tofloat(p[2]) for p in probs],
                    Bs=[tofloat(p[3]) for p in probs], Cs=[tofloat(p[4]) for p in probs], Ns=[tofloat(p[5]) for p in probs])
        try:
            forms = Forms(ctx)
            vv = lambda nm_, idx: [forms.vary("%s[%d]" % (nm_, s_), p_[idx], flat_ok=False) for s_, p_ in enumerate(probs)]
            lqm = LQMarkov(forms.vary("Pi", Pi, scalar_ok=False, int_ok=False), vv("Qs", 0), vv("Rs", 1), vv("As", 2), vv("Bs", 3),
                           Cs=vv("Cs", 4), Ns=vv("Ns", 5), beta=float(beta))
            Ps, ds, Fs = lqm.stationary_values()
        except Exception as e:  # noqa: BLE001
            ctx.count("markov:raised-" + type(e).__name__)
            continue
        ctx.count("markov:identical" if identical else "markov:distinct")
        if forms.changed():
            ctx.spec_fail("inputs_modified", "LQMarkov modified the caller's arrays %s" % forms.changed(), {"beta": rat(beta)})
        line = "C07 rat markov m=%d Pi=%s beta=%s " % (m, ratm(Pi), rat(beta)) + " ".join(
            "Q%d=%s R%d=%s A%d=%s B%d=%s C%d=%s N%d=%s P%d=%s" % (s, ratm(p[0]), s, ratm(p[1]), s, ratm(p[2]), s, ratm(p[3]),
                                                                s, ratm(p[4]), s, ratm(p[5]), s, ratm(fm(Ps[s])))
            for s, p in enumerate(probs))
        impl = "Ps=%s Fs=%s ds=%s" % (showms([Ps[s] for s in range(m)]), showms([Fs[s] for s in range(m)]),
                                      fxm([[float(v)] for v in ds]))
        cases.append(Case(line, impl, cmp=cmp_fields(ENV_FIX, list_keys=("Ps", "Fs"), matrix_keys=("ds",)), tag="markov-step"))
        # ---- LQMarkov.compute_sequence on recorded shocks; the simulated regime path is an input of the model ----
        for ts in ([None] if it % 5 == 0 else []) + [ctx.rng.randint(1, 10)]:
            Te = ts if ts else 100
            nn = len(probs[0][1])
            W = [[F(ctx.rng.randint(-8, 8), 4) for _ in range(Te + 1)]]          # j = 1 in this generator
            x0 = [[F(ctx.rng.randint(-4, 4), 2)] for _ in range(nn)]
            try:
                xp, up, wp, st = lqm.compute_sequence(np.array([float(v[0]) for v in x0]), ts_length=ts,
                                                      random_state=FixedNormals(tofloat(W)))
            except Exception as e:  # noqa: BLE001
                ctx.count("mkvseq:raised-" + type(e).__name__)
                continue
            st = [int(v) for v in st]
            ctx.count("mkvseq:ts-none" if ts is None else "mkvseq:ts")
            if len(set(st)) > 1:
                ctx.count("mkvseq:regime-switches")
            mode = "rat" if Te <= 12 else "float"
            enc, encs = (ratm, rat) if mode == "rat" else (fxm, fx)
            conv = (lambda mx: mx) if mode == "rat" else tofloat
            req = "C07 %s mkvseq m=%d beta=%s " % (mode, m, encs(beta)) + " ".join(
                "Q%d=%s R%d=%s A%d=%s B%d=%s C%d=%s N%d=%s F%d=%s" % (
                    s_, enc(conv(p_[0])), s_, enc(conv(p_[1])), s_, enc(conv(p_[2])), s_, enc(conv(p_[3])), s_, enc(conv(p_[4])),
                    s_, enc(conv(p_[5])), s_, enc(conv(fm(Fs[s_]))))
                for s_, p_ in enumerate(probs)) + " st=%s x0=%s W=%s" % (",".join(str(v) for v in st), enc(conv(x0)), enc(conv(W)))
            cases.append(Case(req, "x=%s u=%s" % (showms([colm(xp[:, t]) for t in range(xp.shape[1])]),
                                                   showms([colm(up[:, t]) for t in range(up.shape[1])])),
                              cmp=cmp_fields(ENV_PATH, list_keys=("x", "u")), tag="mkvseq-" + mode))
            # spec (Fractions): the law of motion the code implements (arrival regime) ...
            bad, doc_bad = None, 0
            if xp.shape != (nn, Te + 1) or up.shape != (len(probs[0][0]), Te) or len(st) != Te + 1 or not np.array_equal(wp, tofloat(W)):
                bad = "shapes"
            else:
                xs = [fm(colm(xp[:, t])) for t in range(Te + 1)]
                us = [fm(colm(up[:, t])) for t in range(Te)]
                if close_m(xs[0], x0, 0):
                    bad = "x_0 != x0"
                for t in range(Te):
                    if bad:
                        break
                    w_ = close_m(us[t], scal(F(-1), mm(fm(Fs[st[t]]), xs[t])), ENV_PATH)
                    if w_:
                        bad = "u_%d != -F(s_%d) x_%d: %s" % (t, t, t, w_)
                        break
                    step = lambda s_: madd(madd(mm(probs[s_][2], xs[t]), mm(probs[s_][3], us[t])), mm(probs[s_][4], [[W[0][t + 1]]]))
                    w_ = close_m(xs[t + 1], step(st[t + 1]), ENV_PATH)
                    if w_:
                        bad = "x_%d != A(s_%d) x + B(s_%d) u + C(s_%d) w: %s" % (t + 1, t + 1, t + 1, t + 1, w_)
                        break
                    # ... and the documented one (departure regime): counted, a finding only if listed
                    if close_m(xs[t + 1], step(st[t]), ENV_PATH):
                        doc_bad += 1
            if bad:
                ctx.spec_fail("lqmarkov_sequence", "LQMarkov.compute_sequence: " + bad,
                              {"Pi": ratm(Pi), "beta": rat(beta), "st": st, "x0": ratm(x0), "W": ratm(W)})
            if doc_bad:
                ctx.count("mkvseq:steps-violating-documented-law(departure-regime)", doc_bad)
                if "lqmarkov_sequence_regime_index" in ctx.known:
                    ctx.spec_fail("lqmarkov_sequence_regime_index", "x_{t+1} uses the matrices of regime s_{t+1}, the docstring "
                                  "and the Riccati system use s_t (%d steps differ)" % doc_bad, {"st": st})
        if identical:
            Q, R, A, B, C, N = probs[0]
            lq = LQ(tofloat(Q), tofloat(R), tofloat(A), tofloat(B), C=tofloat(C), N=tofloat(N), beta=float(beta))
            P0, F0, d0 = lq.stationary_values()
            for s in range(m):
                why = close_m(fm(Ps[s]), fm(P0), ENV_AGREE) or close_m(fm(Fs[s]), fm(F0), ENV_AGREE) or \
                    (None if abs(float(ds[s]) - float(d0)) <= ENV_AGREE * max(1.0, abs(float(d0))) else "d differs")
                if why:
                    ctx.spec_fail("markov_identical", "regime %d of identical regimes differs from LQ: %s" % (s, why),
                                  {"Pi": ratm(Pi), "beta": rat(beta), "problem": [ratm(x) for x in probs[0]]})
