"""C18 — random generators: correspondence + spec run.

Every uniform / integer / normal draw the real code makes is recorded (and, for the jitted kernels, optionally
forced to dyadic values, ties, 0 or 1-2^-53) by RandomState / Generator subclasses handed in through the library's
`random_state=` arguments; the model driver consumes exactly the recorded draws.  The spec oracles below look only at
the real code's outputs and judge them by the definitions (Fractions, brute force), independently of the model."""
import itertools
import math
import os
import signal
from fractions import Fraction

import numpy as np

from .common import Case, fx, unfx, fxs, fxm, ints, intm, rats, ratm, parse_ratm

FILES = ["quantecon/random/utilities.py", "quantecon/markov/random.py", "quantecon/game_theory/random.py",
         "quantecon/game_theory/game_generators/bimatrix_generators.py", "quantecon/_graph_tools.py",
         "quantecon/util/random.py"]

U_MAX = 1.0 - 2.0 ** -53        # largest double below 1 (largest value random() can return)


# ----------------------------------------------------------------------------
# recording / forcing random streams


def _apply(force, v):
    if force is None:
        return v
    a = np.array(v, dtype=float)
    a = force(a)
    return float(a) if np.ndim(v) == 0 else a


def _iforce(mode, base, low, high, endpoint):
    """integer draws forced to the smallest / largest admissible value (mode None: untouched)"""
    if mode is None:
        return base
    lo, hi = (0, low) if high is None else (low, high)
    v = lo if mode == "min" else (hi if endpoint else hi - 1)
    return type(base)(v) if np.ndim(base) == 0 else np.full_like(base, v)


class _RecMixin:
    """shared bookkeeping: log of (kind, copy of the array handed to the library)"""

    def _init_rec(self, force=None, quant=None):
        self.log = []
        self.force = force      # ndarray -> ndarray applied to the uniforms
        self.quant = quant      # denominators for normals (values rounded to multiples of 1/quant)
        self.overflow = False
        self.iforce = None      # "min" / "max": integer draws forced to the ends of their range
        self.planted_src = None
        self.planted = None     # replay mode: list of (kind, array) handed back instead of fresh draws

    def _rec(self, kind, v):
        if self.planted is not None:
            for t, (k, pv) in enumerate(self.planted):
                if k == kind:
                    del self.planted[t]
                    pv = np.asarray(pv).reshape(np.shape(v))
                    v = (float(pv) if kind != "i" else int(pv)) if np.ndim(v) == 0 else pv.astype(np.asarray(v).dtype)
                    break
        if len(self.log) < LOG_CAP:          # (a runaway rejection loop must not exhaust the memory)
            self.log.append((kind, np.array(v, copy=True)))
        else:
            self.overflow = True
        return v

    def logs(self, kind):
        return [v for k, v in self.log if k == kind]

    def _q(self, v):
        if self.quant is None:
            return v
        return np.round(np.asarray(v) * self.quant) / self.quant


class RecRS(_RecMixin, np.random.RandomState):
    def __init__(self, seed, force=None, quant=None):
        np.random.RandomState.__init__(self, seed)
        self._init_rec(force, quant)
        self.seed0 = seed

    def random(self, size=None):
        return self._rec("u", _apply(self.force, super().random_sample(size)))

    def randint(self, low, high=None, size=None, dtype=int):
        return self._rec("i", _iforce(self.iforce, super().randint(low, high=high, size=size, dtype=dtype), low, high, False))

    def multivariate_normal(self, mean, cov, size=None, *a, **kw):
        return self._rec("mvn", self._q(super().multivariate_normal(mean, cov, size, *a, **kw)))

    def standard_normal(self, size=None):
        return self._rec("n", self._q(super().standard_normal(size)))


class RecGen(_RecMixin, np.random.Generator):
    def __init__(self, seed, force=None, quant=None):
        np.random.Generator.__init__(self, np.random.PCG64(seed))
        self._init_rec(force, quant)
        self.seed0 = seed

    def random(self, size=None, dtype=np.float64, out=None):
        return self._rec("u", _apply(self.force, super().random(size)))

    def integers(self, low, high=None, size=None, dtype=np.int64, endpoint=False):
        return self._rec("i", _iforce(self.iforce, super().integers(low, high=high, size=size, dtype=dtype, endpoint=endpoint),
                                      low, high, endpoint))

    def multivariate_normal(self, mean, cov, size=None, *a, **kw):
        return self._rec("mvn", self._q(super().multivariate_normal(mean, cov, size, *a, **kw)))

    def standard_normal(self, size=None, dtype=np.float64, out=None):
        return self._rec("n", self._q(super().standard_normal(size)))


def dump_stream(rs):
    """the complete recorded stream of one generator (exact: doubles as bit patterns)"""
    return {"gen": isinstance(rs, RecGen), "truncated": bool(rs.overflow),
            "log": [[k, list(np.shape(v)), ([int(x) for x in np.ravel(v)] if k == "i" else [fx(x) for x in np.ravel(v)])]
                    for k, v in rs.log]}


def load_stream(d):
    """a generator that hands back the recorded draws (the real call is still made, for its argument checks)"""
    rs = (RecGen if d.get("gen") else RecRS)(0)
    rs.planted = [(k, np.array([int(x) for x in vals] if k == "i" else [unfx(x) for x in vals]).reshape(shape))
                  for k, shape, vals in d["log"]]
    rs.planted_src = d
    return rs


def clone_rng(rs):
    """a second generator that will produce exactly the stream `rs` produced (same class, seed and forcing)"""
    if rs.planted_src is not None:
        return load_stream(rs.planted_src)
    c = type(rs)(rs.seed0, rs.force, rs.quant)
    c.iforce = rs.iforce
    return c


LOG_CAP = 20000
CASE_TIMEOUT_S = 120     # per case function (the whole check runs under `timeout 900`)


class CaseTimeout(Exception):
    pass


def raised_in_library(e):
    """does the traceback of `e` pass through the quantecon package under test?"""
    import traceback
    from .common import REPO
    root = os.path.join(os.path.realpath(REPO), "quantecon") + os.sep
    return any(os.path.realpath(fr.filename).startswith(root) for fr in traceback.extract_tb(e.__traceback__))


def _is_sparse(o):
    import scipy.sparse
    return scipy.sparse.issparse(o)


def canon(o):
    """a deep, hashable snapshot of a generated object (bytes of every array it is made of)"""
    if hasattr(o, "players") and hasattr(o, "nums_actions"):                 # NormalFormGame
        return ("nfg",) + tuple((p.payoff_array.shape, p.payoff_array.tobytes()) for p in o.players)
    if hasattr(o, "polymatrix"):                                             # PolymatrixGame
        return ("poly",) + tuple((k_, np.asarray(v).shape, np.asarray(v).tobytes()) for k_, v in sorted(o.polymatrix.items()))
    if hasattr(o, "csgraph"):                                                # DiGraph
        return ("digraph", canon(o.csgraph))
    if hasattr(o, "R") and hasattr(o, "Q") and hasattr(o, "beta"):           # DiscreteDP
        return ("ddp", canon(o.R), canon(o.Q), float(o.beta))
    if hasattr(o, "P") and hasattr(o, "n"):                                  # MarkovChain
        return ("mc", canon(o.P))
    if _is_sparse(o):
        return ("sparse", o.format, o.shape, o.toarray().tobytes())
    if isinstance(o, (tuple, list)):
        return tuple(canon(e) for e in o)
    a = np.asarray(o)
    return (a.shape, str(a.dtype), a.tobytes())


def arrays_of(o):
    """every ndarray a generated object is made of (sparse: data / indices / indptr / row / col / offsets)"""
    if isinstance(o, np.ndarray):
        return [o]
    if hasattr(o, "players") and hasattr(o, "nums_actions"):
        return [p.payoff_array for p in o.players]
    if hasattr(o, "polymatrix"):
        return [a for v in o.polymatrix.values() for a in arrays_of(v)]
    if hasattr(o, "csgraph"):
        return arrays_of(o.csgraph)
    if hasattr(o, "R") and hasattr(o, "Q") and hasattr(o, "beta"):
        out = arrays_of(o.R) + arrays_of(o.Q)
        for nm in ("s_indices", "a_indices"):
            if isinstance(getattr(o, nm, None), np.ndarray):
                out.append(getattr(o, nm))
        return out
    if hasattr(o, "P") and hasattr(o, "n"):
        return arrays_of(o.P)
    if _is_sparse(o):
        return [getattr(o, nm) for nm in ("data", "indices", "indptr", "row", "col", "offsets", "rows")
                if isinstance(getattr(o, nm, None), np.ndarray)]
    if isinstance(o, (tuple, list)):
        return [a for e in o for a in arrays_of(e)]
    return []


def _inplace(a):
    """in-place arithmetic on one array (no rebinding)"""
    if not isinstance(a, np.ndarray) or a.size == 0 or not a.flags.writeable:
        return False
    if a.dtype.kind == "f":
        a *= -3.0
        a += 0.25
    elif a.dtype.kind in "iu":
        a += 1
    elif a.dtype.kind == "b":
        np.logical_not(a, out=a)
    else:
        return False
    return True


def mutate(o):
    """edit a generated object in place through its public API: item assignment, in-place arithmetic on its arrays,
    edits of a sparse matrix's stored data.  Returns the number of edits made."""
    n = 0
    if hasattr(o, "players") and hasattr(o, "nums_actions"):
        try:
            if o.N == 1:
                o[0] = 0.75
            else:
                o[(0,) * o.N] = tuple(0.25 + 0.5 * i for i in range(o.N))
            n += 1
        except (IndexError, ValueError):
            pass
        return n + sum(1 for p in o.players if _inplace(p.payoff_array))
    if hasattr(o, "polymatrix"):
        return sum(mutate(v) for v in o.polymatrix.values())
    if hasattr(o, "csgraph"):
        return mutate(o.csgraph)
    if hasattr(o, "R") and hasattr(o, "Q") and hasattr(o, "beta"):
        return mutate(o.R) + mutate(o.Q)
    if hasattr(o, "P") and hasattr(o, "n"):
        return mutate(o.P)
    if _is_sparse(o):
        if o.format in ("csr", "csc", "coo", "bsr", "dia"):
            return 1 if _inplace(o.data) else 0
        if o.shape[0] and o.shape[1]:
            o[0, 0] = 7.5
            return 1
        return 0
    if isinstance(o, np.ndarray):
        if o.size and o.flags.writeable and o.dtype.kind in "fiu":
            o[(0,) * o.ndim] = 7
            n += 1
        return n + (1 if _inplace(o) else 0)
    if isinstance(o, (tuple, list)):
        return sum(mutate(e) for e in o)
    return 0


def _owner(a):
    b = a
    while isinstance(b.base, np.ndarray):
        b = b.base
    return b.__array_interface__["data"][0]


class Products:
    """all arrays produced so far in this process (kept alive), indexed by the buffer that owns them"""

    def __init__(self):
        self.by_owner = {}

    MODULES = ("quantecon.random.utilities", "quantecon.markov.random", "quantecon.game_theory.random",
               "quantecon.game_theory.game_generators.bimatrix_generators", "quantecon._graph_tools", "quantecon.util.random")

    @staticmethod
    def module_arrays():
        """ndarrays reachable from the globals of the anchored modules (directly or inside a dict / list / tuple)"""
        import sys
        out = []
        for modname in Products.MODULES:
            mod = sys.modules.get(modname)
            if mod is None:
                continue
            for nm, v in list(vars(mod).items()):
                stack = [v]
                depth = 0
                while stack and depth < 200:
                    depth += 1
                    x = stack.pop()
                    if isinstance(x, np.ndarray):
                        out.append((x, "module-level state %s.%s" % (modname, nm)))
                    elif isinstance(x, dict):
                        stack.extend(x.values())
                    elif isinstance(x, (list, tuple)):
                        stack.extend(x)
        return out

    def shared_with_earlier(self, arrs):
        arrs = [a for a in arrs if a.size]
        for a in arrs:
            for b, label in self.by_owner.get(_owner(a), ()):
                if np.shares_memory(a, b):
                    return label
        mods = self.module_arrays()
        for a in arrs:
            for b, label in mods:
                if b.size and np.shares_memory(a, b):
                    return label
        # the arrays of one product must not overlap each other either
        for i, a in enumerate(arrs):
            for b in arrs[i + 1:]:
                if np.shares_memory(a, b):
                    return "another array of the same product"
        return None

    def add(self, arrs, label):
        for a in arrs:
            if a.size:
                self.by_owner.setdefault(_owner(a), []).append((a, label))


# ---- cross-process reproducibility: the same call with the same integer seed in fresh interpreters ----------------
XPROC_SPECS = [
    # (label, module, function, positional arguments, keyword arguments)
    ("probvec", "quantecon.random", "probvec", [3, 4], {}),
    ("sample_without_replacement", "quantecon.random", "sample_without_replacement", [7, 3], {"num_trials": 2}),
    ("random_stochastic_matrix k<n", "quantecon.markov.random", "random_stochastic_matrix", [6, 2], {}),
    ("random_stochastic_matrix sparse k<n", "quantecon.markov.random", "random_stochastic_matrix", [5, 3], {"sparse": True}),
    ("random_stochastic_matrix k=n", "quantecon.markov.random", "random_stochastic_matrix", [4], {}),
    ("random_markov_chain k<n", "quantecon.markov.random", "random_markov_chain", [5, 2], {}),
    ("random_markov_chain sparse", "quantecon.markov.random", "random_markov_chain", [4, 3], {"sparse": True}),
    ("random_discrete_dp", "quantecon.markov.random", "random_discrete_dp", [3, 2], {"k": 2}),
    ("random_discrete_dp sparse", "quantecon.markov.random", "random_discrete_dp", [4, 2], {"k": 1, "sparse": True}),
    ("random_tournament_graph", "quantecon._graph_tools", "random_tournament_graph", [6], {}),
    ("random_game", "quantecon.game_theory.random", "random_game", [(2, 3)], {}),
    ("covariance_game", "quantecon.game_theory.random", "covariance_game", [(2, 3), 0.3], {}),
    ("random_polymatrix_game", "quantecon.game_theory.random", "random_polymatrix_game", [(2, 3, 2)], {}),
    ("random_pure_actions", "quantecon.game_theory.random", "random_pure_actions", [(5, 6, 7)], {}),
    ("random_mixed_actions", "quantecon.game_theory.random", "random_mixed_actions", [(2, 3)], {}),
    ("blotto_game", "quantecon.game_theory.game_generators", "blotto_game", [2, 3, 0.5], {}),
    ("ranking_game", "quantecon.game_theory.game_generators", "ranking_game", [4], {"steps": 7}),
    ("tournament_game", "quantecon.game_theory.game_generators", "tournament_game", [5, 2], {}),
    ("unit_vector_game", "quantecon.game_theory.game_generators", "unit_vector_game", [4], {}),
    ("unit_vector_game avoid", "quantecon.game_theory.game_generators", "unit_vector_game", [3], {"avoid_pure_nash": True}),
]

XPROC_CHILD = r"""
import sys, json, hashlib, importlib
from harness.c18 import canon
jobs = json.loads(sys.stdin.read())
out = []
for label, mod, fn, args, kwargs, seed in jobs:
    try:
        f = getattr(importlib.import_module(mod), fn)
        args = [tuple(a) if isinstance(a, list) else a for a in args]
        obj = f(*args, random_state=seed, **kwargs)
        out.append(hashlib.sha256(repr(canon(obj)).encode()).hexdigest())
    except Exception as e:
        out.append("EXC:%s:%s" % (type(e).__name__, str(e)[:100]))
print("DIGESTS " + json.dumps(out))
"""


def make_force(rng, kind):
    """uniform-forcing functions; the returned arrays stay inside [0, 1)"""
    if kind == "raw":
        return None
    if kind.startswith("dy"):
        b = int(kind[2:])
        return lambda a: np.floor(a * 2 ** b) / 2 ** b
    if kind == "zero":
        return lambda a: np.zeros_like(a)
    if kind == "max":
        return lambda a: np.full_like(a, U_MAX)
    if kind == "extreme":
        seed = rng.randrange(2 ** 31)

        def f(a):
            g = np.random.RandomState(seed)
            c = g.randint(0, 4, size=a.shape)
            out = a.copy()
            out[c == 0] = 0.0
            out[c == 1] = U_MAX
            return out
        return f
    raise ValueError(kind)


def mk_rng(ctx, kind="raw", quant=None, gen=None):
    seed = ctx.rng.randrange(2 ** 31)
    if gen is None:
        gen = ctx.rng.random() < 0.3
    cls = RecGen if gen else RecRS
    ctx.count("stream:" + ("Generator" if gen else "RandomState"))
    return cls(seed, make_force(ctx.rng, kind), quant)


F = Fraction


def fl(a):
    return [[F(float(x)) for x in row] for row in np.atleast_2d(a)]


def tied_or_zero(row):
    row = [float(x) for x in row]
    return len(set(row)) < len(row) or any(x == 0.0 for x in row)


# ----------------------------------------------------------------------------
# spec oracles on the real code's outputs


def simplex_row_ok(row):
    """entries are doubles >= 0 whose exact sum is 1 up to the rounding of the k spacings"""
    fr = [F(float(x)) for x in row]
    return all(x >= 0 for x in fr) and abs(sum(fr) - 1) <= len(fr) * F(1, 2 ** 52)


def colex_subsets(n, k):
    return sorted(itertools.combinations(range(n), k), key=lambda c: tuple(reversed(c)))


def is_nash_exact(A, B, x, y):
    """A[i][j], B[j][i] (each player's own action first); x, y mixed actions; exact"""
    n0, n1 = len(x), len(y)
    u0 = [sum(A[i][j] * y[j] for j in range(n1)) for i in range(n0)]
    u1 = [sum(B[j][i] * x[i] for i in range(n0)) for j in range(n1)]
    return all(u0[i] == max(u0) for i in range(n0) if x[i] > 0) and \
        all(u1[j] == max(u1) for j in range(n1) if y[j] > 0)


def run(ctx, only=None):
    import scipy.sparse
    import quantecon as qe
    from quantecon.random import probvec, sample_without_replacement
    from quantecon.random.utilities import _probvec_cpu, _probvec_parallel, _sample_without_replacement
    from quantecon.markov.random import (random_markov_chain, random_stochastic_matrix, random_discrete_dp,
                                         _random_stochastic_matrix)
    from quantecon.markov import MarkovChain, DiscreteDP
    from quantecon._graph_tools import random_tournament_graph, DiGraph
    from quantecon.util import check_random_state
    from quantecon import game_theory as gt
    from quantecon.game_theory.game_generators import (blotto_game, ranking_game, sgc_game, tournament_game,
                                                       unit_vector_game)
    from quantecon.game_theory.random import (random_game, covariance_game, random_polymatrix_game,
                                              random_pure_actions, random_mixed_actions)

    rng = ctx.rng
    cases = []
    # first calls of the three cached gufuncs, cpu targets first: with several check processes running at once the
    # first call of the cpu-target `_sample_without_replacement` AFTER calls of the parallel-target `_probvec` crashed
    # inside numba's gufunc dispatch (null function pointer; not reproducible in a single process) — observed, avoided
    _sample_without_replacement(3, np.array([0.5]))
    _probvec_cpu(np.array([[0.5]]), np.empty((1, 2)))
    _probvec_parallel(np.array([[0.5]]), np.empty((1, 2)))
    # the guvectorized `parallel` target is still exercised, on two worker threads: with the default (one per core) every
    # call costs ~0.1 s of thread start-up when the machine is busy, which dominated the run
    import numba
    numba.set_num_threads(min(2, numba.config.NUMBA_NUM_THREADS))

    # -- bookkeeping for replays: every spec failure carries the case function, its arguments and the complete
    #    recorded random stream, so that `./check C18 --replay <file>` re-runs exactly that call on planted draws
    st = {"call": None, "rs": None, "go": False}
    CASES = {}

    dead = set()

    def on_alarm(signum, frame):
        raise CaseTimeout()

    def case(fn):
        def w(*a):
            if only is not None and not st["go"]:
                return None
            if fn.__name__ in dead:          # this generator already failed to terminate once in this run
                return None
            st["call"], st["rs"] = [fn.__name__, list(a)], None
            signal.signal(signal.SIGALRM, on_alarm)
            signal.alarm(CASE_TIMEOUT_S)
            try:
                return fn(*a)
            except Skip:
                return None
            except CaseTimeout:
                # (the rejection loops of unit_vector_game are the only unbounded loops among the generators)
                ctx.count("no-termination")
                dead.add(fn.__name__)
                spec_fail("no_termination_" + fn.__name__, "%s%s did not return within %d s" % (fn.__name__, tuple(a), CASE_TIMEOUT_S), {})
                return None
            except Exception as e:
                # an exception raised inside the library on a valid request is a failing input, not a tool failure
                # (the library's *expected* errors are caught where they are provoked); anything raised by the
                # harness itself is re-raised
                if not raised_in_library(e):
                    raise
                ctx.count("unexpected-exception:" + type(e).__name__)
                spec_fail("unexpected_exception_" + fn.__name__, "%s raised %s: %s" % (fn.__name__, type(e).__name__, e),
                          {"exception": repr(e)})
                return None
            finally:
                signal.alarm(0)
                st["call"], st["rs"] = None, None
        CASES[fn.__name__] = w
        return w

    def new_rng(kind="raw", quant=None, ikind=None, gen=None):
        if only is not None:
            rs = load_stream(only["stream"])
        elif st.get("planted") is not None:
            rs = load_stream(st["planted"])
        else:
            rs = mk_rng(ctx, kind, quant, gen)
        if only is None and st.get("planted") is None:
            rs.iforce = ikind
        st["rs"] = rs
        return rs

    class Skip(Exception):
        pass

    def need_draws(rs, kind, n, what, at_least=False):
        """the recorded draws of one kind; a generator that does not draw what its source says is a failing input"""
        got = rs.logs(kind)
        if (len(got) < n) if at_least else (len(got) != n):
            spec_fail("draw_protocol", "%s made %d '%s' draws, expected %s%d" % (what, len(got), kind, ">=" if at_least else "", n), {})
            raise Skip()
        return got

    products = Products()
    import importlib
    for modname in ("quantecon.random.utilities", "quantecon.markov.random", "quantecon.game_theory.random",
                    "quantecon.game_theory.game_generators.bimatrix_generators", "quantecon._graph_tools",
                    "quantecon.util.random"):
        mod = importlib.import_module(modname)
        products.add([v for v in vars(mod).values() if isinstance(v, np.ndarray)], "module-level state of " + modname)

    kept = []          # (name, product, snapshot of its bits at return time): never edited by the harness

    def rejudge(which):
        """earlier returned (unedited) products must be bitwise what they were when they were returned"""
        for nm, obj, snap in which:
            ctx.count("history:earlier-results-rejudged")
            if canon(obj) != snap:
                spec_fail("history_earlier_result_changed", "a product of %s returned earlier in this process was changed by "
                          "a later call" % nm, {"generator": nm})

    def keep(name, obj, snap):
        kept.append((name, obj, snap))
        rejudge(kept[-6:-1])
        if len(kept) % 150 == 0:
            rejudge(kept)

    def hist(name, rs1, make):
        """generate / mutate / generate: call the generator, keep a deep snapshot, edit the product in place through
        its public API, call again with a generator that produces the same stream.  The second product must be
        bit-identical to the first as it was before the edits, and must share no memory with the first, with any
        earlier product of this process or with module-level arrays.  Returns the second generator and the second
        product; all the definition oracles and the model correspondence of the case then judge the SECOND product."""
        info = {"generator": name}
        try:        # the arguments of the call = the free variables of the closure
            info["arguments"] = {nm: repr(c.cell_contents)[:80] for nm, c in zip(make.__code__.co_freevars, make.__closure__ or ())
                                 if not callable(c.cell_contents)}
        except Exception:
            pass
        obj1 = make(rs1) if rs1 is not None else make()
        arrs1 = arrays_of(obj1)
        shared = products.shared_with_earlier(arrs1)
        if shared:
            spec_fail("history_shared_memory", "%s: the product shares memory with %s" % (name, shared), info)
        snap = canon(obj1)
        products.add(arrs1, name + " (earlier product)")
        edits = mutate(obj1)
        ctx.count("history:generate-mutate-generate")
        ctx.count("history:in-place-edits", edits)
        rs2 = clone_rng(rs1) if rs1 is not None else None
        if rs2 is not None:
            st["rs"] = rs2
        obj2 = make(rs2) if rs2 is not None else make()
        arrs2 = arrays_of(obj2)
        shared = products.shared_with_earlier(arrs2)
        if shared:
            spec_fail("history_shared_memory", "%s: after editing an earlier product, the next product shares memory "
                      "with %s" % (name, shared), info)
        if canon(obj2) != snap:
            spec_fail("history_not_reproducible", "%s: generate, edit the product in place, generate again with the same "
                      "arguments and stream -> the second product differs from the first one as generated" % name,
                      info)
        products.add(arrs2, name + " (earlier product)")
        keep(name, obj2, snap)
        return rs2, obj2

    orig_spec_fail = ctx.spec_fail

    def spec_fail(key, what, replay):
        replay = dict(replay)
        if st["call"] is not None:
            replay["call"] = st["call"]
        if st["rs"] is not None:
            replay["stream"] = dump_stream(st["rs"])
        orig_spec_fail(key, what, replay)
    ctx.spec_fail = spec_fail
    ctx.rule = ("sizes n<=12, k<=n, m trials; uniforms recorded from RandomState/Generator subclasses, raw or forced "
                "(dyadic with ties, all 0, all 1-2^-53, mixed extremes); bimatrix generators h<=4, t<=5, n<=7, k<=3, "
                "sgc k<=3(4); a case is non-trivial when the kernel loop runs at least twice (k>=2, n>=3, h>=2); "
                "distinct by request line")

    kinds = ["raw", "raw", "dy10", "dy4", "dy2", "extreme", "zero", "max"]

    # ---- probvec (cpu and parallel targets) ------------------------------------------------------
    @case
    def probvec_cases(m, k, kind, parallel):
        rs = new_rng(kind)
        rs, x = hist('probvec', rs, lambda rs: probvec(m, k, random_state=rs, parallel=parallel))
        ctx.count("probvec:%s" % kind)
        ctx.count("probvec:parallel" if parallel else "probvec:cpu")
        if x.shape != (m, k):
            ctx.spec_fail("probvec_shape", "probvec(%d,%d) has shape %s" % (m, k, x.shape), {"m": m, "k": k})
        r = need_draws(rs, "u", 1, "probvec")[0] if k >= 2 else np.zeros((m, 0))
        if k == 1 and rs.log:
            ctx.spec_fail("probvec_k1_draws", "probvec(m,1) consumed random numbers", {"m": m})
        for t in range(m):
            if not simplex_row_ok(x[t]):
                ctx.spec_fail("probvec_simplex", "probvec row %s is not a point of the simplex" % x[t].tolist(),
                              {"op": "probvec", "m": m, "k": k, "r": [fxs(q) for q in r], "row": t})
            if k >= 2:
                # the definition: spacings of the sorted uniforms (each a single correctly rounded subtraction)
                s = sorted(float(v) for v in r[t])
                ref = [s[0]] + [s[i] - s[i - 1] for i in range(1, k - 1)] + [1 - s[-1]]
                if [fx(v) for v in ref] != [fx(v) for v in x[t]]:
                    ctx.spec_fail("probvec_spacings", "probvec row is not the spacings of its sorted uniforms",
                                  {"op": "probvec", "m": m, "k": k, "r": [fxs(q) for q in r], "row": t})
                if tied_or_zero(r[t]):
                    ctx.count("probvec:tied-or-zero-row")
                if np.count_nonzero(x[t] > 0) < k:
                    ctx.count("probvec:row-with-zero-entry")
        cases.append(Case("C18 probvec m=%d k=%d r=%s" % (m, k, fxm(r) if k >= 2 else "-"), fxm(x),
                          nontrivial=(k >= 3), tag="probvec"))
        if kind.startswith("dy") and k >= 2:
            # dyadic uniforms: the code's subtractions are exact, the Rat model must agree exactly
            cases.append(Case("C18 probvecq m=%d k=%d r=%s" % (m, k, ratm([[F(float(v)) for v in q] for q in r])),
                              ratm(fl(x)), nontrivial=(k >= 3), tag="probvecq"))

    for k in range(1, 13):
        for kind in kinds:
            probvec_cases(rng.randint(1, 4), k, kind, bool(rng.getrandbits(1)))
    for _ in range(ctx.n(20, 1000)):
        probvec_cases(rng.randint(1, 6), rng.randint(1, 12), rng.choice(kinds), bool(rng.getrandbits(1)))
    probvec_cases(0, 3, "raw", False)
    probvec_cases(0, 1, "raw", True)

    @case
    def mixed_block():
        # random_mixed_actions = _probvec_cpu per player
        for _ in range(ctx.n(12, 300)):
            nums = tuple(rng.randint(1, 6) for _ in range(rng.randint(1, 4)))
            kind = rng.choice(kinds)
            rs = new_rng(kind)
            rs, acts = hist('random_mixed_actions', rs, lambda rs: random_mixed_actions(nums, random_state=rs))
            us = rs.logs("u")
            if tuple(len(a) for a in acts) != nums or not all(simplex_row_ok(a) for a in acts):
                ctx.spec_fail("random_mixed_actions", "random_mixed_actions%s -> %s" % (nums, [a.tolist() for a in acts]),
                              {"nums_actions": nums, "u": [fxs(u) for u in us]})
            if len(us) != sum(1 for n_ in nums if n_ >= 2):
                ctx.spec_fail("random_mixed_actions_draws", "unexpected number of draws", {"nums_actions": nums})
            ui = iter(us)
            for n_, a in zip(nums, acts):
                r = [next(ui)] if n_ >= 2 else []
                cases.append(Case("C18 probvec m=1 k=%d r=%s" % (n_, fxm(r) if n_ >= 2 else "-"), fxm([a]),
                                  nontrivial=(n_ >= 3), tag="mixed_actions"))

    mixed_block()

    # ---- sample_without_replacement ------------------------------------------------------------------
    @case
    def swr_cases(n, k, trials, kind):
        rs = new_rng(kind)
        rs, out = hist('sample_without_replacement', rs, lambda rs: sample_without_replacement(n, k, num_trials=trials, random_state=rs))
        ctx.count("swr:%s" % kind)
        r = need_draws(rs, "u", 1, "sample_without_replacement")[0]
        rows = np.atleast_2d(out) if trials is not None else out.reshape(1, -1)
        rr = np.asarray(r, dtype=float).reshape(rows.shape[0], k)
        want_shape = (k,) if trials is None else (trials, k)
        if out.shape != want_shape:
            ctx.spec_fail("swr_shape", "shape %s, wanted %s" % (out.shape, want_shape), {"n": n, "k": k, "trials": trials})
        for t in range(rows.shape[0]):
            row = [int(v) for v in rows[t]]
            if len(set(row)) != k or any(v < 0 or v >= n for v in row):
                ctx.spec_fail("swr_distinct_in_range", "sample_without_replacement(%d,%d) -> %s" % (n, k, row),
                              {"op": "swr", "n": n, "r": fxs(rr[t]), "got": row})
            cases.append(Case("C18 swr n=%d r=%s" % (n, fxs(rr[t])), ints(row), nontrivial=(k >= 2), tag="swr"))
            if kind.startswith("dy") or kind == "zero":
                cases.append(Case("C18 swrq n=%d r=%s" % (n, rats([F(float(v)) for v in rr[t]])), ints(row),
                                  nontrivial=(k >= 2), tag="swrq"))
            # the indices by the definition floor(r*(n-j)) in exact arithmetic; where the double product rounds
            # up to an integer the code's index is one larger (observed, counted, still in range)
            ex = [math.floor(F(float(rr[t][j])) * (n - j)) for j in range(k)]
            fl_ = [int(np.floor(float(rr[t][j]) * (n - j))) for j in range(k)]
            if ex != fl_:
                ctx.count("swr:double-product-rounds-up")
            if any(v >= n - j for j, v in enumerate(fl_)):
                ctx.spec_fail("swr_index_guard", "floor(r*(n-j)) >= n-j for r<1", {"n": n, "r": fxs(rr[t])})
            cases.append(Case("C18 swri n=%d idx=%s" % (n, ints(fl_)), ints(row), nontrivial=(k >= 2), tag="swri"))

    for n in range(1, 13):
        for k in sorted({0, 1, n // 2, n - 1, n} & set(range(0, n + 1))):
            swr_cases(n, k, rng.choice([None, 1, 3]), rng.choice(kinds))
            swr_cases(n, k, None, "max")
            swr_cases(n, k, 2, "zero")
    for _ in range(ctx.n(40, 2000)):
        n = rng.randint(1, 12)
        swr_cases(n, rng.randint(0, n), rng.choice([None, 1, 2, 5]), rng.choice(kinds))
    @case
    def swr_boundary_block():
        # uniforms just below / at q/m: the double product r*m can round up to the integer q although r < q/m
        for m_ in range(2, 13):
            for q in range(1, m_):
                for r0 in (np.nextafter(q / m_, 0.0), q / m_, np.nextafter(q / m_, 1.0)):
                    out = _sample_without_replacement(m_, np.array([r0, 0.0]))
                    row = [int(v) for v in out]
                    exq = math.floor(F(float(r0)) * m_)
                    if row[0] != exq:
                        ctx.count("swr:double-product-rounds-up")
                    if len(set(row)) != 2 or any(v < 0 or v >= m_ for v in row):
                        ctx.spec_fail("swr_distinct_in_range", "kernel(%d, r=%r) -> %s" % (m_, r0, row), {"n": m_, "r": fxs([r0, 0.0])})
                    cases.append(Case("C18 swr n=%d r=%s" % (m_, fxs([r0, 0.0])), ints(row), tag="swr-boundary"))
        # r = 1-2^-53 at every n: the index stays below n-j (IEEE fact assumed by the theorem)
        big = list(range(1, ctx.n(2000, 2 ** 20))) if not ctx.thorough else list(range(1, 2 ** 20 + 2))
        arr = np.array(big, dtype=float)
        bad = np.nonzero(np.floor(U_MAX * arr) >= arr)[0]
        ctx.count("swr:umax-boundaries-checked", len(big))
        if len(bad):
            ctx.spec_fail("swr_index_guard", "floor((1-2^-53)*m) >= m at m=%d" % big[int(bad[0])], {"m": big[int(bad[0])]})
        for n in [1, 2, 3, 7, 12, 1000, 2 ** 20, 2 ** 20 + 1]:
            k = min(n, 6)
            out = _sample_without_replacement(n, np.full(k, U_MAX))
            row = [int(v) for v in out]
            if len(set(row)) != k or any(v < 0 or v >= n for v in row):
                ctx.spec_fail("swr_distinct_in_range", "kernel(%d, r=1-2^-53) -> %s" % (n, row), {"n": n, "k": k})
            if n <= 1000:
                cases.append(Case("C18 swr n=%d r=%s" % (n, fxs([U_MAX] * k)), ints(row), tag="swr"))
        for n, k in [(0, 0), (-1, 0), (3, 4), (1, 2)]:
            try:
                sample_without_replacement(n, k)
                got = "no-error"
            except ValueError:
                got = "ERR:ValueError"
            ctx.count("swr:" + got)
            if got != "ERR:ValueError":
                ctx.spec_fail("swr_validation", "sample_without_replacement(%d,%d) did not raise" % (n, k), {"n": n, "k": k})
            if n >= 0:
                cases.append(Case("C18 swr n=%d r=%s" % (n, fxs([0.5] * k)), got, tag="swr-error"))

    swr_boundary_block()

    # ---- random_stochastic_matrix / random_markov_chain / random_discrete_dp ---------------------------
    def check_stochastic(P, m, n, k, u1, what, replay):
        """rows of the (dense view of the) matrix are stochastic with exactly k positive entries"""
        D = P.toarray() if scipy.sparse.issparse(P) else np.asarray(P)
        D = D.reshape(m, n)
        for t in range(m):
            if not simplex_row_ok(D[t]):
                ctx.spec_fail(what + "_stochastic", "row %d = %s is not a probability vector" % (t, D[t].tolist()), replay)
            npos = int(np.count_nonzero(D[t] > 0))
            if npos != k:
                forced = k >= 2 and tied_or_zero(u1[t])
                if forced:
                    ctx.spec_fail("probvec_tied_or_zero_uniforms",
                                  "%s: row with %d positive entries, k=%d (uniforms tied or zero)" % (what, npos, k), replay)
                else:
                    ctx.spec_fail(what + "_k_positive", "row %d has %d positive entries, k=%d" % (t, npos, k), replay)

    @case
    def stoch_cases(m, n, k, sparse, fmt, kind, via):
        rs = new_rng(kind)
        kk = None if (k == n and rng.random() < 0.5) else k
        if via == "chain":
            fmt = "csr"         # random_markov_chain has no format option
        if via == "matrix":
            rs, P = hist('random_stochastic_matrix', rs, lambda rs: random_stochastic_matrix(n, kk, sparse=sparse, format=fmt, random_state=rs))
        elif via == "chain":
            rs, mc = hist('random_markov_chain', rs, lambda rs: random_markov_chain(n, kk, sparse=sparse, random_state=rs))
            if not isinstance(mc, MarkovChain) or mc.n != n:
                ctx.spec_fail("random_markov_chain", "not a MarkovChain with n states", {"n": n, "k": k})
            P = mc.P
            if scipy.sparse.issparse(P) != bool(sparse):
                ctx.spec_fail("random_markov_chain_sparse", "sparse flag not honoured", {"n": n, "k": k, "sparse": sparse})
        else:
            rs, P = hist('_random_stochastic_matrix', rs, lambda rs: _random_stochastic_matrix(m, n, k=kk, sparse=sparse, format=fmt, random_state=rs))
        ctx.count("stoch:%s" % kind)
        ctx.count("stoch:%s%s" % (via, ":sparse-" + fmt if sparse else ":dense"))
        us = need_draws(rs, "u", (1 if k >= 2 else 0) + (1 if k < n else 0), "random_stochastic_matrix")
        u1 = us[0] if k >= 2 else np.zeros((m, 0))
        u2 = (us[1] if k >= 2 else us[0]) if k < n else np.zeros((m, 0))
        replay = {"op": "stoch", "m": m, "n": n, "k": k, "sparse": sparse, "format": fmt, "via": via,
                  "r1": [fxs(q) for q in u1], "r2": [fxs(q) for q in u2]}
        if sparse:
            if not scipy.sparse.issparse(P) or P.format != fmt:
                ctx.spec_fail("stoch_format", "asked for sparse %s, got %s" % (fmt, type(P).__name__), replay)
        elif not isinstance(P, np.ndarray):
            ctx.spec_fail("stoch_format", "asked for dense, got %s" % type(P).__name__, replay)
        if P.shape != (m, n):
            ctx.spec_fail("stoch_shape", "shape %s" % (P.shape,), replay)
        check_stochastic(P, m, n, k, u1, "random_stochastic_matrix", replay)
        D = P.toarray() if sparse else P
        line = "C18 stoch m=%d n=%d k=%d r1=%s r2=%s" % (m, n, k, fxm(u1) if k >= 2 else "-", fxm(u2) if k < n else "-")
        cases.append(Case(line + " out=dense", fxm(D), nontrivial=(k >= 2 and n >= 3), tag="stoch"))
        if sparse and k < n and fmt == "csr":
            C = P.copy()
            C.sort_indices()
            rows = []
            for t in range(m):
                sl = slice(C.indptr[t], C.indptr[t + 1])
                rows.append(",".join("%d:%s" % (c, fx(v)) for c, v in zip(C.indices[sl], C.data[sl])) or "-")
                if C.indptr[t + 1] - C.indptr[t] != k:
                    ctx.spec_fail("stoch_stored_entries", "CSR row %d stores %d entries, k=%d"
                                  % (t, C.indptr[t + 1] - C.indptr[t], k), replay)
            cases.append(Case(line + " out=csr", ";".join(rows), nontrivial=(k >= 2), tag="stoch-csr"))

    fmts = ["csr", "csc", "coo", "lil", "dok", "bsr", "dia"]
    for n in range(1, 13):
        for k in sorted({1, 2, n // 2, n - 1, n} & set(range(1, n + 1))):
            sparse = bool(rng.getrandbits(1))
            stoch_cases(n, n, k, sparse, "csr" if rng.random() < 0.6 else rng.choice(fmts),
                        rng.choice(["raw", "raw", "dy10", "dy10", "dy4", "extreme"]), rng.choice(["matrix", "chain"]))
    for _ in range(ctx.n(30, 1200)):
        n = rng.randint(1, 12)
        via = rng.choice(["matrix", "chain", "nonsquare"])
        m = n if via != "nonsquare" else rng.randint(1, 8)
        stoch_cases(m, n, rng.randint(1, n), bool(rng.getrandbits(1)),
                    "csr" if (via == "chain" or rng.random() < 0.6) else rng.choice(fmts),
                    rng.choice(kinds[:6]), via)

    @case
    def ddp_block():
        for _ in range(ctx.n(15, 400)):
            ns, na = rng.randint(1, 6), rng.randint(1, 4)
            k = rng.choice([None] + list(range(1, ns + 1)))
            sparse, sa_pair = bool(rng.getrandbits(1)), bool(rng.getrandbits(1))
            beta = rng.choice([None, 0.0, 0.5, 0.95])
            scale = rng.choice([1, 2.5])
            kind = rng.choice(["raw", "dy10", "extreme"])
            rs = new_rng(kind)
            rs, ddp = hist('random_discrete_dp', rs, lambda rs: random_discrete_dp(ns, na, beta=beta, k=k, scale=scale, sparse=sparse, sa_pair=sa_pair, random_state=rs))
            ctx.count("ddp:%s%s" % ("sparse" if sparse else "dense", "-sa" if (sa_pair or sparse) else "-product"))
            keff = ns if k is None else k
            replay = {"op": "ddp", "num_states": ns, "num_actions": na, "k": k, "sparse": sparse, "sa_pair": sa_pair,
                      "beta": beta, "u": [[fxs(q) for q in np.atleast_2d(u)] for u in rs.logs("u")]}
            ok = isinstance(ddp, DiscreteDP) and ddp.num_states == ns and 0 <= ddp.beta < 1
            L = ns * na
            if sa_pair or sparse:
                ok = ok and ddp._sa_pair and ddp.R.shape == (L,) and ddp.Q.shape == (L, ns) and \
                    ddp.s_indices.tolist() == [s for s in range(ns) for _a in range(na)] and \
                    ddp.a_indices.tolist() == [a for _s in range(ns) for a in range(na)]
                ok = ok and scipy.sparse.issparse(ddp.Q) == sparse
            else:
                ok = ok and (not ddp._sa_pair) and ddp.R.shape == (ns, na) and ddp.Q.shape == (ns, na, ns)
            if not ok:
                ctx.spec_fail("random_discrete_dp", "not a valid DiscreteDP of the requested form", replay)
            us = need_draws(rs, "u", (1 if keff >= 2 else 0) + (1 if keff < ns else 0) + (1 if beta is None else 0),
                       "random_discrete_dp")
            u1 = np.atleast_2d(us[0]) if keff >= 2 else np.zeros((L, 0))
            check_stochastic(ddp.Q, L, ns, keff, u1, "random_discrete_dp", replay)
            nrm = rs.logs("n")
            if len(nrm) != 1 or not np.array_equal(np.asarray(ddp.R).ravel(), scale * nrm[0]):
                ctx.spec_fail("random_discrete_dp_R", "R is not scale * the standard normal draws", replay)
            if beta is None:
                if float(ddp.beta) != float(us[-1]):
                    ctx.spec_fail("random_discrete_dp_beta", "beta is not the last uniform drawn", replay)
            if sa_pair or sparse:
                cases.append(Case("C18 saidx ns=%d na=%d" % (ns, na), ints(ddp.s_indices) + " | " + ints(ddp.a_indices),
                                  nontrivial=(ns >= 2 and na >= 2), tag="ddp-sa-indices"))
            Qd = (ddp.Q.toarray() if sparse else np.asarray(ddp.Q)).reshape(L, ns)
            u2 = np.atleast_2d(us[1 if keff >= 2 else 0]) if keff < ns else np.zeros((L, 0))
            cases.append(Case("C18 stoch m=%d n=%d k=%d r1=%s r2=%s out=dense"
                              % (L, ns, keff, fxm(u1) if keff >= 2 else "-", fxm(u2) if keff < ns else "-"), fxm(Qd),
                              nontrivial=(keff >= 2 and ns >= 3), tag="ddp-Q"))

    ddp_block()

    # ---- random_tournament_graph ---------------------------------------------------------------------
    @case
    def tourn_cases(n, kind):
        rs = new_rng(kind)
        rs, g = hist('random_tournament_graph', rs, lambda rs: random_tournament_graph(n, random_state=rs))
        ctx.count("tourn:%s" % kind)
        r = need_draws(rs, "u", 1, "random_tournament_graph")[0]
        A = g.csgraph.toarray().astype(int)
        ok = isinstance(g, DiGraph) and A.shape == (n, n) and int(A.sum()) == n * (n - 1) // 2 and g.csgraph.nnz == n * (n - 1) // 2
        for i in range(n):
            ok = ok and A[i, i] == 0
            for j in range(i + 1, n):
                ok = ok and A[i, j] + A[j, i] == 1
        if not ok:
            ctx.spec_fail("tournament_graph", "not a tournament on %d nodes" % n, {"op": "tourn", "n": n, "r": fxs(r)})
        # orientation by r_k < 0.5 in the order of the double loop
        t = 0
        edges = []
        for i in range(n):
            for j in range(i + 1, n):
                edges.append((i, j) if float(r[t]) < 0.5 else (j, i))
                if A[edges[-1][0], edges[-1][1]] != 1:
                    ctx.spec_fail("tournament_orientation", "edge %d is not oriented by r<0.5" % t,
                                  {"op": "tourn", "n": n, "r": fxs(r)})
                t += 1
        C = g.csgraph.copy()
        C.sort_indices()
        succ = [[int(c) for c in C.indices[C.indptr[i]:C.indptr[i + 1]]] for i in range(n)]
        es = ",".join("%d>%d" % e for e in edges) or "-"
        cases.append(Case("C18 tourn n=%d r=%s" % (n, fxs(r)), es + " | " + intm(succ), nontrivial=(n >= 3), tag="tourn"))

    for n in range(0, 13):
        for kind in ["raw", "dy2", "dy1", "extreme"]:
            tourn_cases(n, kind)
    for _ in range(ctx.n(10, 500)):
        tourn_cases(rng.randint(2, 12), rng.choice(["raw", "dy1", "dy2", "extreme", "zero", "max"]))

    @case
    def games_block():
        # ---- random_game / covariance_game / random_polymatrix_game / random_pure_actions -----------------
        for _ in range(ctx.n(12, 300)):
            nums = tuple(rng.randint(1, 4) for _ in range(rng.randint(1, 3)))
            N = len(nums)
            rs = new_rng()
            rs, g = hist('random_game', rs, lambda rs: random_game(nums, random_state=rs))
            us = rs.logs("u")
            ok = isinstance(g, gt.NormalFormGame) and g.nums_actions == nums and len(us) == N
            for i in range(N):
                ok = ok and np.array_equal(g.players[i].payoff_array, us[i]) and us[i].shape == nums[i:] + nums[:i]
                ok = ok and bool(np.all((us[i] >= 0) & (us[i] < 1)))
            if not ok:
                ctx.spec_fail("random_game", "random_game%s: wrong shape or payoffs are not the drawn uniforms" % (nums,),
                              {"nums_actions": nums})
            ctx.count("random_game")
            rs = new_rng()
            rs, acts = hist('random_pure_actions', rs, lambda rs: random_pure_actions(nums, random_state=rs))
            if not (isinstance(acts, tuple) and len(acts) == N and all(0 <= int(a) < n_ for a, n_ in zip(acts, nums))
                    and [int(a) for a in acts] == [int(v) for v in rs.logs("i")]):
                ctx.spec_fail("random_pure_actions", "random_pure_actions%s -> %s" % (nums, acts), {"nums_actions": nums})
            ctx.count("random_pure_actions")
            if N >= 2:
                # (a one-player polymatrix game has no matchups: PolymatrixGame itself rejects it with a KeyError;
                #  observed, outside the property's domain)
                rs = new_rng()
                rs, pg = hist('random_polymatrix_game', rs, lambda rs: random_polymatrix_game(nums, random_state=rs))
                us = rs.logs("u")
                keys = [(i, j) for i in range(N) for j in range(N) if i != j]
                okp = pg.N == N and tuple(pg.nums_actions) == nums and set(pg.polymatrix.keys()) == set(keys) and \
                    len(us) == len(keys) and \
                    all(np.array_equal(np.asarray(pg.polymatrix[kk_]), u) and u.shape == (nums[kk_[0]], nums[kk_[1]])
                        for kk_, u in zip(keys, us))
                if not okp:
                    ctx.spec_fail("random_polymatrix_game", "random_polymatrix_game%s has the wrong shape" % (nums,), {"nums_actions": nums})
                ctx.count("random_polymatrix_game")
            if N >= 2:
                rho = rng.choice([-1 / (N - 1), 0.0, 0.5, 1.0])
                rs = new_rng()
                try:
                    rs, g = hist('covariance_game', rs, lambda rs: covariance_game(nums, rho, random_state=rs))
                except Exception as e:
                    if not raised_in_library(e):
                        raise
                    ctx.count("unexpected-exception:" + type(e).__name__)
                    ctx.spec_fail("covariance_game_raises", "covariance_game(%s, rho=%r, random_state=<%s>) raised %s: %s"
                                  % (nums, rho, type(rs).__name__, type(e).__name__, e),
                                  {"nums_actions": nums, "rho": rho, "seed_kind": type(rs).__name__})
                    continue
                z = need_draws(rs, "mvn", 1, "covariance_game")[0]
                okc = g.nums_actions == nums and z.shape == nums + (N,)
                for i in range(N):
                    # player i's array: own action first, the others cyclically
                    ref = np.moveaxis(z[..., i], list(range(N)), [(a - i) % N for a in range(N)])
                    okc = okc and np.array_equal(g.players[i].payoff_array, ref)
                if not okc:
                    ctx.spec_fail("covariance_game", "covariance_game%s: payoffs are not the drawn profiles" % (nums,),
                                  {"nums_actions": nums, "rho": rho})
                ctx.count("covariance_game")
        # covariance_game at the closed ends of the legal range of rho (singular covariance matrix), for every kind of seed
        for nums in [(2, 2), (2, 3), (2, 2, 2), (1, 2, 3)]:
            N = len(nums)
            for rho in (1.0, -1 / (N - 1)):
                for seed_kind in ("int", "RandomState", "Generator"):
                    ctx.count("covariance_game:boundary-rho:" + seed_kind)
                    try:
                        if seed_kind == "int":
                            seed = rng.randrange(2 ** 31)
                            g = covariance_game(nums, rho, random_state=seed)
                            g_again = covariance_game(nums, rho, random_state=seed)
                            okb = canon(g) == canon(g_again)
                        else:
                            rs = new_rng(gen=(seed_kind == "Generator"))
                            rs, g = hist("covariance_game", rs, lambda rs: covariance_game(nums, rho, random_state=rs))
                            z = need_draws(rs, "mvn", 1, "covariance_game")[0]
                            okb = z.shape == nums + (N,) and all(
                                np.array_equal(g.players[i].payoff_array,
                                               np.moveaxis(z[..., i], list(range(N)), [(a - i) % N for a in range(N)])) for i in range(N))
                    except Exception as e:
                        if not raised_in_library(e):
                            raise
                        ctx.count("unexpected-exception:" + type(e).__name__)
                        ctx.spec_fail("covariance_game_boundary_rho", "covariance_game(%s, rho=%r) with %s seed raised %s: %s"
                                      % (nums, rho, seed_kind, type(e).__name__, e), {"nums_actions": nums, "rho": rho, "seed_kind": seed_kind})
                        continue
                    # with a singular covariance the payoffs of a profile are perfectly dependent: equal (rho=1) / summing to 0
                    prof = np.stack([np.moveaxis(g.players[i].payoff_array, [(a - i) % N for a in range(N)], list(range(N)))
                                     for i in range(N)], axis=-1)
                    dep = (np.abs(prof - prof[..., :1]).max() if rho == 1.0 else np.abs(prof.sum(axis=-1)).max()) if prof.size else 0.0
                    if not okb or g.nums_actions != nums or not np.all(np.isfinite(prof)) or dep > 1e-6:
                        ctx.spec_fail("covariance_game_boundary_rho", "covariance_game(%s, rho=%r) with %s seed: wrong shape / not the "
                                      "drawn profiles / not reproducible / dependence defect %g" % (nums, rho, seed_kind, dep),
                                      {"nums_actions": nums, "rho": rho, "seed_kind": seed_kind})
        for bad_call, name in [(lambda: random_game(()), "random_game()"), (lambda: covariance_game((2,), 0.0), "cov N=1"),
                               (lambda: covariance_game((2, 2), 1.5), "cov rho>1"), (lambda: covariance_game((2, 2, 2), -0.6), "cov rho<-1/2"),
                               (lambda: random_polymatrix_game(()), "polymatrix()")]:
            try:
                bad_call()
                ctx.spec_fail("game_validation", name + " did not raise", {"call": name})
            except ValueError:
                ctx.count("games:ERR:ValueError")

    games_block()

    # ---- blotto --------------------------------------------------------------------------------------
    @case
    def blotto_cases(h, t, quant):
        rs = new_rng(quant=quant)
        rho = rng.choice([-1.0, -0.5, 0.0, 0.5, 1.0])
        mu = rng.choice([0, 0, 1.5, -2])
        rs, g = hist('blotto_game', rs, lambda rs: blotto_game(h, t, rho, mu=mu, random_state=rs))
        values = need_draws(rs, "mvn", 1, "blotto_game")[0]
        ctx.count("blotto:%s" % ("dyadic-values" if quant else "raw-values"))
        actions = [c for c in itertools.product(range(t + 1), repeat=h) if sum(c) == t]   # lexicographic
        n = len(actions)
        A, B = g.players[0].payoff_array, g.players[1].payoff_array
        replay = {"op": "blotto", "h": h, "t": t, "values": [fxs(v) for v in values]}
        if A.shape != (n, n) or B.shape != (n, n) or n != math.comb(t + h - 1, h - 1):
            ctx.spec_fail("blotto_shape", "blotto_game(%d,%d) has shape %s" % (h, t, A.shape), replay)
            return
        V = fl(values)
        tol = F(0) if quant else F(1, 10 ** 12)
        ties = 0
        for i, ai in enumerate(actions):
            for j, aj in enumerate(actions):
                p0 = sum((V[k][0] if ai[k] > aj[k] else V[k][0] / 2 if ai[k] == aj[k] else 0) for k in range(h))
                p1 = sum((V[k][1] if aj[k] > ai[k] else V[k][1] / 2 if ai[k] == aj[k] else 0) for k in range(h))
                ties += sum(1 for k in range(h) if ai[k] == aj[k])
                if abs(F(float(A[i, j])) - p0) > tol or abs(F(float(B[j, i])) - p1) > tol:
                    ctx.spec_fail("blotto_def", "payoffs at (%s,%s) are not the sums of the values of the hills won" % (ai, aj), replay)
        ctx.count("blotto:hill-ties", ties)
        cases.append(Case("C18 blotto h=%d t=%d values=%s" % (h, t, fxm(values)), fxm(A) + " | " + fxm(B),
                          nontrivial=(h >= 2 and t >= 1), tag="blotto"))
        if quant:
            cases.append(Case("C18 blottoq h=%d t=%d values=%s" % (h, t, ratm(V)), ratm(fl(A)) + " | " + ratm(fl(B)),
                              nontrivial=(h >= 2 and t >= 1), tag="blottoq"))

    ht = [(h, t) for h in range(1, 5) for t in range(0, 6)]
    if not ctx.thorough:
        ht = [(h, t) for (h, t) in ht if math.comb(t + h - 1, h - 1) <= 21]
    for h, t in ht:
        blotto_cases(h, t, None)
        blotto_cases(h, t, 8)

    # ---- ranking -------------------------------------------------------------------------------------
    @case
    def ranking_cases(n, steps, ikind=None):
        rs = new_rng(ikind=ikind)
        ctx.count("ranking:int-draws-%s" % (ikind or "raw"))
        rs, g = hist('ranking_game', rs, lambda rs: ranking_game(n, steps, random_state=rs))
        sd, cd = [np.asarray(v) for v in need_draws(rs, "i", 2, "ranking_game")]
        ctx.count("ranking")
        A, B = g.players[0].payoff_array, g.players[1].payoff_array
        replay = {"op": "ranking", "n": n, "steps": steps, "s": sd.tolist(), "c": cd.tolist()}
        ok = A.shape == (n, n) and B.shape == (n, n) and sd.shape == (2, n) and cd.shape == (2, n - 1) and \
            bool(np.all((sd >= 1) & (sd <= steps))) and bool(np.all((cd >= 1) & (cd <= steps)))
        if not ok:
            ctx.spec_fail("ranking_shape", "ranking_game(%d,%d): wrong shapes or step sizes" % (n, steps), replay)
            return
        S = np.cumsum(sd, axis=1)
        cost = [[F(0)] + [F(int(c), n * steps) for c in np.cumsum(cd[p])] for p in range(2)]
        nties = 0
        for i in range(n):
            for j in range(n):
                if S[0, i] > S[1, j]:
                    z0, z1 = F(1), F(0)
                elif S[0, i] < S[1, j]:
                    z0, z1 = F(0), F(1)
                else:
                    z0 = z1 = F(1, 2)
                    nties += 1
                if abs(F(float(A[i, j])) - (z0 - cost[0][i])) > F(1, 10 ** 15) or \
                        abs(F(float(B[j, i])) - (z1 - cost[1][j])) > F(1, 10 ** 15):
                    ctx.spec_fail("ranking_def", "payoff at (%d,%d) is not prize minus cost" % (i, j), replay)
        ctx.count("ranking:score-ties", nties)
        cases.append(Case("C18 ranking n=%d steps=%d s=%s c=%s" % (n, steps, intm(sd), intm(cd) if n >= 2 else "-;-"),
                          fxm(A) + " | " + fxm(B), nontrivial=(n >= 2), tag="ranking"))
        if n * steps in (1, 2, 4, 8, 16, 32, 64):
            ctx.count("ranking:dyadic")
            cases.append(Case("C18 rankingq n=%d steps=%d s=%s c=%s" % (n, steps, intm(sd), intm(cd) if n >= 2 else "-;-"),
                              ratm(fl(A)) + " | " + ratm(fl(B)), nontrivial=(n >= 2), tag="rankingq"))

    for n in range(1, 8):
        for steps in [1, 2, 3, 10]:
            ranking_cases(n, steps)
            ranking_cases(n, steps, rng.choice(["min", "max"]))   # all steps equal: score ties at every level
    for _ in range(ctx.n(10, 500)):
        ranking_cases(rng.randint(1, 7), rng.choice([1, 2, 4, 5, 8, 10]))

    @case
    def sgc_block():
        # ---- sgc ------------------------------------------------------------------------------------------
        for k in range(1, ctx.n(4, 6) + 1):
            _, g = hist("sgc_game", None, lambda: sgc_game(k))
            n, m = 4 * k - 1, 2 * k - 1
            A, B = g.players[0].payoff_array, g.players[1].payoff_array
            ok = A.shape == (n, n) and B.shape == (n, n)
            if ok:
                FA, FB = fl(A), fl(B)
                x = [F(1, m)] * m + [F(0)] * (n - m)
                ok = is_nash_exact(FA, FB, x, x) and min(min(r) for r in FA + FB) == 0 and max(max(r) for r in FA + FB) == 1
            if not ok:
                ctx.spec_fail("sgc_half_support_nash", "sgc_game(%d): the uniform profile on the first %d actions is not an "
                              "equilibrium / payoffs not normalised to [0,1]" % (k, m), {"op": "sgc", "k": k})
            if k <= ctx.n(2, 3):
                ne = gt.support_enumeration(g)
                uniq = len(ne) == 1 and all(
                    [F(float(v)).limit_denominator(10 ** 6) for v in a] == x for a in ne[0])
                ctx.count("sgc:unique-by-support-enumeration" if uniq else "sgc:not-unique")
                if not uniq:
                    ctx.spec_fail("sgc_unique", "sgc_game(%d): support enumeration finds %d equilibria" % (k, len(ne)), {"op": "sgc", "k": k})
            cases.append(Case("C18 sgc k=%d" % k, fxm(A) + " | " + fxm(B), nontrivial=(k >= 2), tag="sgc"))

    sgc_block()

    # ---- tournament game ------------------------------------------------------------------------------
    @case
    def tgame_cases(n, k, kind):
        rs = new_rng(kind)
        rs, g = hist('tournament_game', rs, lambda rs: tournament_game(n, k, random_state=rs))
        r = need_draws(rs, "u", 1, "tournament_game")[0]
        ctx.count("tgame:%s" % kind)
        A, B = g.players[0].payoff_array, g.players[1].payoff_array
        subs = colex_subsets(n, k)
        replay = {"op": "tgame", "n": n, "k": k, "r": fxs(r)}
        if A.shape != (n, len(subs)) or B.shape != (len(subs), n):
            ctx.spec_fail("tournament_game_shape", "shape %s" % (A.shape,), replay)
            return
        beats = [[False] * n for _ in range(n)]
        t = 0
        for i in range(n):
            for j in range(i + 1, n):
                if float(r[t]) < 0.5:
                    beats[i][j] = True
                else:
                    beats[j][i] = True
                t += 1
        ones = 0
        for i in range(n):
            for j, S in enumerate(subs):
                w0 = 1.0 if all(beats[i][s] for s in S) else 0.0
                w1 = 1.0 if i in S else 0.0
                ones += int(w0)
                if A[i, j] != w0 or B[j, i] != w1:
                    ctx.spec_fail("tournament_game_def", "payoffs at node %d, subset %s are not the definition" % (i, S), replay)
        ctx.count("tgame:dominating-pairs", ones)
        cases.append(Case("C18 tgame n=%d k=%d r=%s" % (n, k, fxs(r)), intm(A) + " | " + intm(B),
                          nontrivial=(n >= 3), tag="tgame"))

    for n in range(1, 8):
        for k in range(1, min(3, n) + 1):
            tgame_cases(n, k, "raw")
            tgame_cases(n, k, rng.choice(["dy1", "zero", "max", "extreme"]))
    for _ in range(ctx.n(6, 250)):
        n = rng.randint(2, 7)
        tgame_cases(n, rng.randint(1, min(3, n)), rng.choice(["raw", "dy1", "extreme"]))

    # k = 0 (the single empty subset; accepted by the size check since C(n,0) = 1): the kernel evaluates a[-1] and
    # next_k_array writes a[0] on a zero-length array.  Probed in a separate process with NUMBA_BOUNDSCHECK=1 (and a
    # private cache), where an out-of-bounds access is an IndexError instead of undefined behaviour in this process.
    @case
    def tgame_k0_block():
        import subprocess
        import sys
        from .common import REPO
        code = ("import json\nfrom quantecon.game_theory.game_generators import tournament_game\nout=[]\n"
                "for n in (1, 3, 5):\n"
                "    try:\n"
                "        g = tournament_game(n, 0, random_state=0)\n"
                "        out.append([n, 'ok', g.players[0].payoff_array.ravel().tolist(), g.players[1].payoff_array.ravel().tolist()])\n"
                "    except Exception as e:\n"
                "        out.append([n, 'EXC:' + type(e).__name__, [], []])\n"
                "print('RESULT ' + json.dumps(out))\n")
        env = dict(os.environ, NUMBA_BOUNDSCHECK="1", PYTHONPATH=REPO,
                   NUMBA_CACHE_DIR=os.environ.get("NUMBA_CACHE_DIR", "/tmp/numba-c18") + "-boundscheck")
        p = subprocess.run([sys.executable, "-c", code], env=env, stdout=subprocess.PIPE, stderr=subprocess.STDOUT, text=True, timeout=200)
        lines = [l for l in p.stdout.splitlines() if l.startswith("RESULT ")]
        if not lines:
            ctx.notes.append("tournament_game k=0 probe did not run: " + p.stdout[-200:])
            return
        import json
        for n, status, a0, a1 in json.loads(lines[0][7:]):
            ctx.count("tgame:k0-probe:" + status)
            # definition: every node dominates the empty subset (payoff 1), the empty subset contains no node (0)
            if status != "ok" or a0 != [1.0] * n or a1 != [0.0] * n:
                ctx.spec_fail("tournament_game_k0_out_of_bounds",
                              "tournament_game(%d, 0) under NUMBA_BOUNDSCHECK=1: %s %s %s" % (n, status, a0, a1), {"op": "tgame", "n": n, "k": 0})

    tgame_k0_block()

    # ---- unit vector game ------------------------------------------------------------------------------
    @case
    def uv_cases(n, avoid, kind, ikind=None):
        rs = new_rng(kind, ikind=ikind)
        replay = {"op": "uv", "n": n, "avoid": avoid, "kind": kind}
        try:
            rs, g = hist('unit_vector_game', rs, lambda rs: unit_vector_game(n, avoid_pure_nash=avoid, random_state=rs))
        except ValueError:
            if not (avoid and n == 1):
                raise           # not the documented error: reported by the case wrapper as a failing input
            ctx.count("uv:ERR:ValueError")
            cases.append(Case("C18 uvavoid n=%d p1=%s draws=-" % (n, fxm(rs.logs("u")[0])), "ERR:ValueError", tag="uv-error"))
            return
        A, B = g.players[0].payoff_array, g.players[1].payoff_array
        us, dr = need_draws(rs, "u", 1, "unit_vector_game", at_least=True), need_draws(rs, "i", 1 if not avoid else n, "unit_vector_game", at_least=True)
        replay["p1"] = [fxs(q) for q in us[-1]]
        replay["draws"] = [np.asarray(d).tolist() for d in dr]
        ok = A.shape == (n, n) and B.shape == (n, n) and np.array_equal(B, us[-1]) and \
            all(sorted(A[:, c].tolist()) == [0.0] * (n - 1) + [1.0] for c in range(n))
        if not ok:
            ctx.spec_fail("unit_vector_def", "player 0's columns are not unit vectors / player 1's payoffs are not the uniforms", replay)
        if not avoid:
            ones = [int(v) for v in dr[0]]
            ctx.count("uv:plain")
            if [int(np.argmax(A[:, c])) for c in range(n)] != ones:
                ctx.spec_fail("unit_vector_def", "ones are not at the drawn rows", replay)
            cases.append(Case("C18 uv n=%d ones=%s" % (n, ints(ones)), intm(A), nontrivial=(n >= 2), tag="uv"))
        else:
            ctx.count("uv:avoid")
            ctx.count("uv:avoid-redraws", len(us) - 1)
            ctx.count("uv:avoid-rejected-draws", len(dr) - n)
            if gt.pure_nash_brute(g) != []:
                ctx.spec_fail("unit_vector_avoid_pure_nash", "a pure Nash equilibrium exists: %s" % gt.pure_nash_brute(g), replay)
            draws = [int(d) for d in dr]
            cases.append(Case("C18 uvavoid n=%d p1=%s draws=%s" % (n, fxm(B), ints(draws)), intm(A) + " | 0",
                              nontrivial=True, tag="uvavoid"))
            for u in us[:-1]:   # rejected payoff matrices: the model must ask for a redraw too
                cases.append(Case("C18 uvavoid n=%d p1=%s draws=-" % (n, fxm(u)), "redraw", tag="uvavoid-redraw"))

    for n in range(1, 8):
        uv_cases(n, False, "raw")
        uv_cases(n, False, "raw", rng.choice(["min", "max"]))    # every column's 1 in the same row
        uv_cases(n, True, "raw")
        if n >= 2:
            uv_cases(n, True, "dy2")     # coarse payoffs: ties between maxima, dominant rows
    for _ in range(ctx.n(20, 1000)):
        n = rng.randint(2, 7)
        uv_cases(n, bool(rng.getrandbits(1)), rng.choice(["raw", "dy1", "dy2", "dy4"]))

    
    # ---- argument forms / interleaved streams ---------------------------------------------------------------------
    # Known deviations of the unchanged code for legal argument forms (each reproduced by hand, reported, counted as
    # `unlisted-finding:<key>` until listed in known_findings.txt); every other deviation is a violation.

    def finding(key, what, replay):
        if key in ctx.known:
            ctx.spec_fail(key, what, replay)
        else:
            ctx.count("unlisted-finding:" + key)
            if not any(key in nt for nt in ctx.notes):
                ctx.notes.append("unlisted finding %s: %s" % (key, what))

    @case
    def forms_block():
        import inspect
        ALL_ITYPES = (np.int8, np.int16, np.int32, np.int64, np.uint8, np.uint16, np.uint32, np.uint64, np.intp)
        # quick tier: the common types plus two others chosen by the seed (a jitted kernel is compiled anew for every
        # scalar type it meets, which dominates the cost); thorough tier: all of them
        if ctx.thorough:
            ITYPES = ALL_ITYPES
        else:
            ITYPES = (np.int64, np.int32, np.uint8) + tuple(rng.sample([np.int8, np.int16, np.uint16, np.uint32, np.uint64, np.intp], 2))
        ctx.count("forms:integer-types:" + ",".join(t.__name__ for t in ITYPES))

        def I(v, light=False):
            ts = ITYPES if (ctx.thorough or not light) else ITYPES[:2] + ITYPES[-1:]
            return [(t.__name__, t(v)) for t in ts] + [("0-d array", np.array(v))]

        def FL(v):
            out = [("float", float(v)), ("float32", np.float32(v)), ("float64", np.float64(v)), ("0-d array", np.array(float(v)))]
            if float(v).is_integer():
                out += [("int", int(v)), ("int64", np.int64(int(v)))]
            return out

        def B(v):
            return [("bool", bool(v)), ("np.bool_", np.bool_(v)), ("int", int(v)), ("int64", np.int64(int(v)))]

        def T(t):
            return [("tuple of int64", tuple(np.int64(x) for x in t)), ("tuple of intp", tuple(np.intp(x) for x in t)),
                    ("tuple of int32", tuple(np.int32(x) for x in t)), ("tuple of uint8", tuple(np.uint8(x) for x in t)),
                    ("list", [int(x) for x in t])]

        # (label, function, [(parameter, base value, alternative forms)], extra variants [(label, args, kwargs)])
        table = [
            ("probvec", probvec, [("m", 3, I(3)), ("k", 4, I(4)), ("parallel", True, B(True)), ("parallel", False, B(False))], []),
            ("probvec k=1", probvec, [("m", 2, I(2)), ("k", 1, I(1))], []),
            ("sample_without_replacement", sample_without_replacement, [("n", 7, I(7)), ("k", 3, I(3)), ("num_trials", 2, I(2))],
             []),
            ("sample_without_replacement n=12", sample_without_replacement, [("n", 12, I(12)), ("k", 12, I(12))],
             [("num_trials=None", (12, 12, None), {})]),
            ("random_stochastic_matrix", random_stochastic_matrix,
             [("n", 5, I(5)), ("k", 2, I(2)), ("sparse", False, B(False)), ("format", "csr", [("str subclass", np.str_("csr"))])],
             []),
            ("random_stochastic_matrix sparse", random_stochastic_matrix, [("n", 5, I(5)), ("k", 2, I(2)), ("sparse", True, B(True))], []),
            ("random_stochastic_matrix k=n", random_stochastic_matrix, [("n", 4, I(4)), ("k", 4, I(4))],
             [("k omitted", (4,), {}), ("k=None", (4, None), {})]),
            ("random_markov_chain", random_markov_chain, [("n", 4, I(4)), ("k", 3, I(3)), ("sparse", False, B(False))], []),
            ("random_markov_chain sparse", random_markov_chain, [("n", 4, I(4)), ("k", 3, I(3)), ("sparse", True, B(True))], []),
            ("random_discrete_dp", random_discrete_dp,
             [("num_states", 3, I(3)), ("num_actions", 2, I(2)), ("beta", 0.5, FL(0.5)), ("k", 2, I(2)), ("scale", 1, FL(1)),
              ("sparse", False, B(False)), ("sa_pair", False, B(False))], []),
            ("random_discrete_dp beta=0 sa_pair", random_discrete_dp,
             [("num_states", 3, I(3)), ("num_actions", 2, I(2)), ("beta", 0, FL(0)), ("k", 3, I(3)), ("scale", 2.5, FL(2.5)),
              ("sparse", True, B(True)), ("sa_pair", True, B(True))],
             [("k omitted", (3, 2, 0), {"scale": 2.5, "sparse": True, "sa_pair": True}),
              ("k=None", (3, 2, 0, None), {"scale": 2.5, "sparse": True, "sa_pair": True})]),
            ("random_tournament_graph", random_tournament_graph, [("n", 5, I(5))], []),
            ("random_tournament_graph n=12", random_tournament_graph, [("n", 12, I(12))], []),
            ("random_game", random_game, [("nums_actions", (2, 3), T((2, 3)))], []),
            ("random_game N=1", random_game, [("nums_actions", (3,), T((3,)))], []),
            ("covariance_game", covariance_game, [("nums_actions", (2, 3), T((2, 3))), ("rho", 0.5, FL(0.5))], []),
            ("covariance_game rho=1", covariance_game, [("nums_actions", (2, 2), T((2, 2))), ("rho", 1.0, FL(1))], []),
            ("covariance_game rho=-1", covariance_game, [("nums_actions", (2, 2), T((2, 2))), ("rho", -1.0, FL(-1))], []),
            ("random_polymatrix_game", random_polymatrix_game, [("nums_actions", (2, 3, 2), T((2, 3, 2)))], []),
            ("random_pure_actions", random_pure_actions, [("nums_actions", (5, 6, 7), T((5, 6, 7)))], []),
            ("random_mixed_actions", random_mixed_actions, [("nums_actions", (2, 1, 3), T((2, 1, 3)))], []),
            ("blotto_game", blotto_game, [("h", 2, I(2, True)), ("t", 3, I(3, True)), ("rho", 0.5, FL(0.5)), ("mu", 0, FL(0))],
             [("mu omitted", (2, 3, 0.5), {})]),
            ("blotto_game rho=-1 mu=1.5", blotto_game, [("h", 3, I(3, True)), ("t", 2, I(2, True)), ("rho", -1.0, FL(-1)), ("mu", 1.5, FL(1.5))], []),
            ("ranking_game", ranking_game, [("n", 4, I(4)), ("steps", 10, I(10))], [("steps omitted", (4,), {})]),
            ("ranking_game n=7", ranking_game, [("n", 7, I(7)), ("steps", 10, I(10))], []),
            ("tournament_game", tournament_game, [("n", 5, I(5, True)), ("k", 2, I(2, True))], []),
            ("tournament_game n=7 k=3", tournament_game, [("n", 7, I(7, True)), ("k", 3, I(3, True))], []),
            ("unit_vector_game", unit_vector_game, [("n", 4, I(4)), ("avoid_pure_nash", False, B(False))],
             [("avoid_pure_nash omitted", (4,), {})]),
            ("unit_vector_game avoid", unit_vector_game, [("n", 4, I(4)), ("avoid_pure_nash", True, B(True))], []),
        ]

        def same_bits(v, w):
            if isinstance(v, np.ndarray):
                return isinstance(w, np.ndarray) and v.dtype == w.dtype and v.shape == w.shape and v.tobytes() == w.tobytes()
            if isinstance(v, (list, tuple)):
                return type(v) is type(w) and len(v) == len(w) and all(same_bits(a, b) for a, b in zip(v, w))
            return type(v) is type(w) and v == w

        def deviation(label, param, form, detail, replay, exc=None):
            """a legal argument form that does not give the product of the plain Python form.  The unchanged code
            REJECTS a few exotic scalar types loudly (never a silently different product); exactly those combinations
            are counted as unlisted findings, everything else is a violation."""
            gname = label.split()[0]
            what = "%s with %s given as %s: %s" % (label, param, form, detail)
            loud = exc in ("TypeError", "IndexError", "TypingError")
            if form == "0-d array" and loud and param not in ("rho", "mu", "beta", "scale"):
                ctx.count("forms:0-d-integer-not-accepted")          # 0-d arrays are not a documented form of a size
            elif form == "uint64" and loud:
                finding("uint64_size_argument_raises", what, replay)
            elif gname == "tournament_game" and param == "k" and form.startswith("uint") and exc == "TypeError":
                finding("tournament_game_unsigned_k_raises", what, replay)
            elif gname == "random_tournament_graph" and form == "int8" and exc == "ValueError" and "n=12" in label:
                finding("random_tournament_graph_int8_overflow_raises", what, replay)
            else:
                ctx.spec_fail("argument_form", what, dict(replay, parameter=param, form=form))

        for label, fn, params, extra in table:
            seed = rng.randrange(2 ** 31)
            gen = bool(rng.getrandbits(1))
            names = [p_[0] for p_ in params]
            base = [p_[1] for p_ in params]
            # distinct parameters only (a parameter may be listed twice with two base values)
            pos = {}
            for i_, nm in enumerate(names):
                pos.setdefault(nm, i_)
            uniq = sorted(pos.values())
            bargs = [base[i_] for i_ in uniq]
            bnames = [names[i_] for i_ in uniq]

            def call(args, kwargs, _fn=fn, _seed=seed, _gen=gen):
                rs = (RecGen if _gen else RecRS)(_seed)
                return _fn(*args, random_state=rs, **kwargs), rs

            ref_obj, ref_rs = call((), dict(zip(bnames, bargs)))
            ref = canon(ref_obj)
            ref_stream = dump_stream(ref_rs)
            products.add(arrays_of(ref_obj), label + " (earlier product)")
            keep(label, ref_obj, ref)
            sig = list(inspect.signature(fn).parameters)
            npos = 0
            while npos < len(bnames) and npos < len(sig) and sig[npos] == bnames[npos]:
                npos += 1
            variants = [("leading arguments positional", tuple(bargs[:npos]), dict(zip(bnames[npos:], bargs[npos:])))] + list(extra)
            for i_, (nm, bv, forms_) in enumerate(params):
                args0 = list(bargs)
                if base[i_] != bargs[bnames.index(nm)]:
                    continue        # second base value of a parameter: handled as its own table row
                for fname, fv in forms_:
                    a_ = list(args0)
                    a_[bnames.index(nm)] = fv
                    variants.append(("%s as %s" % (nm, fname), (), dict(zip(bnames, a_))))
            for vlabel, args, kwargs in variants:
                ctx.count("forms:variants")
                allargs = list(args) + list(kwargs.values())
                before = [np.array(a, copy=True) if isinstance(a, np.ndarray) else (list(a) if isinstance(a, list) else a) for a in allargs]
                replay = {"generator": label, "variant": vlabel, "seed": seed, "stream_class": "Generator" if gen else "RandomState"}
                param = vlabel.split(" as ")[0] if " as " in vlabel else vlabel
                form = vlabel.split(" as ")[1] if " as " in vlabel else "call"
                try:
                    obj, rs = call(args, kwargs)
                except Exception as e:
                    deviation(label, param, form, "raised %s: %s" % (type(e).__name__, str(e)[:120]), replay, type(e).__name__)
                    continue
                if canon(obj) != ref or dump_stream(rs) != ref_stream:
                    deviation(label, param, form, "the product (or the stream consumed) differs from the one for plain Python arguments", replay)
                if not all(same_bits(a, b) for a, b in zip(allargs, before)):
                    ctx.spec_fail("argument_changed", "%s (%s): an argument was modified by the call" % (label, vlabel), replay)
                sh = products.shared_with_earlier(arrays_of(obj))
                if sh or any(isinstance(a, np.ndarray) and any(np.shares_memory(a, o_) for o_ in arrays_of(obj)) for a in allargs):
                    ctx.spec_fail("history_shared_memory", "%s (%s): the product shares memory with %s" % (label, vlabel, sh or "an argument"), replay)
                products.add(arrays_of(obj), label + " (earlier product)")
                keep(label, obj, canon(obj))
            # integer seeds in every integer form give the product of the plain int seed
            iseed = seed % 2 ** 31
            ref_i = canon(fn(random_state=iseed, **dict(zip(bnames, bargs))))
            for t in (np.int32, np.int64, np.uint32, np.uint64, np.intp):
                ctx.count("forms:seed-variants")
                try:
                    got = canon(fn(random_state=t(iseed), **dict(zip(bnames, bargs))))
                except Exception as e:
                    deviation(label, "random_state", t.__name__ + " seed", "raised %s: %s" % (type(e).__name__, str(e)[:120]),
                              {"generator": label, "seed": iseed}, type(e).__name__)
                    continue
                if got != ref_i:
                    deviation(label, "random_state", t.__name__ + " seed", "differs from the product for the int seed", {"generator": label, "seed": iseed})

    forms_block()

    # one stream handed to a sequence of generators, twice (the products of the first pass are edited in place before the
    # second): every product of the second pass equals its counterpart, and the streams are consumed identically
    @case
    def interleave_block():
        steps = [
            ("probvec", lambda rs: probvec(2, 3, random_state=rs)),
            ("tournament_game", lambda rs: tournament_game(4, 2, random_state=rs)),
            ("sample_without_replacement", lambda rs: sample_without_replacement(6, 3, random_state=rs)),
            ("random_stochastic_matrix", lambda rs: random_stochastic_matrix(4, 2, sparse=True, random_state=rs)),
            ("unit_vector_game", lambda rs: unit_vector_game(3, avoid_pure_nash=True, random_state=rs)),
            ("random_discrete_dp", lambda rs: random_discrete_dp(2, 2, k=1, random_state=rs)),
            ("ranking_game", lambda rs: ranking_game(3, random_state=rs)),
            ("random_tournament_graph", lambda rs: random_tournament_graph(4, random_state=rs)),
            ("blotto_game", lambda rs: blotto_game(2, 2, 0.5, random_state=rs)),
            ("random_game", lambda rs: random_game((2, 2), random_state=rs)),
            ("covariance_game", lambda rs: covariance_game((2, 2), 1.0, random_state=rs)),
            ("random_polymatrix_game", lambda rs: random_polymatrix_game((2, 2, 2), random_state=rs)),
            ("random_markov_chain", lambda rs: random_markov_chain(3, 2, random_state=rs)),
            ("random_mixed_actions", lambda rs: random_mixed_actions((2, 3), random_state=rs)),
            ("random_pure_actions", lambda rs: random_pure_actions((2, 3), random_state=rs)),
            ("sgc_game", lambda rs: sgc_game(2)),
        ]
        for _ in range(ctx.n(3, 20)):
            order = [rng.randrange(len(steps)) for _i in range(rng.randint(4, 12))]
            seed = rng.randrange(2 ** 31)
            gen = bool(rng.getrandbits(1))
            rs1 = (RecGen if gen else RecRS)(seed)
            first = []
            for t in order:
                o = steps[t][1](rs1)
                first.append((canon(o), o))
            for t, (snap, o) in zip(order, first):
                products.add(arrays_of(o), steps[t][0] + " (earlier product)")
                mutate(o)
            rs2 = (RecGen if gen else RecRS)(seed)
            for t, (snap, _o) in zip(order, first):
                ctx.count("history:interleaved-calls")
                o2 = steps[t][1](rs2)
                sh = products.shared_with_earlier(arrays_of(o2))
                if sh:
                    ctx.spec_fail("history_shared_memory", "%s in an interleaved sequence shares memory with %s" % (steps[t][0], sh),
                                  {"sequence": [steps[u][0] for u in order], "seed": seed})
                if canon(o2) != snap:
                    ctx.spec_fail("history_not_reproducible", "%s in an interleaved sequence on one stream: the second pass (after "
                                  "editing the products of the first) differs" % steps[t][0],
                                  {"sequence": [steps[u][0] for u in order], "seed": seed, "stream_class": "Generator" if gen else "RandomState"})
                products.add(arrays_of(o2), steps[t][0] + " (earlier product)")
                keep(steps[t][0], o2, snap)
            if dump_stream(rs1) != dump_stream(rs2):
                ctx.spec_fail("history_stream_consumption", "the two passes consumed the stream differently",
                              {"sequence": [steps[u][0] for u in order], "seed": seed})

    interleave_block()

    @case
    def seeds_block():
        # ---- seeds: check_random_state, reproducibility, the passed generator is advanced ------------------
        for seed, want in [(None, "global"), (np.random, "global"), (7, "fresh"), (np.int64(7), "fresh"),
                           (np.random.RandomState(3), "same"), (np.random.default_rng(3), "same"),
                           ("x", "ERR:ValueError"), (1.5, "ERR:ValueError")]:
            try:
                out = check_random_state(seed)
                if out is np.random.mtrand._rand:
                    got = "global"
                elif out is seed:
                    got = "same"
                elif isinstance(out, np.random.RandomState):
                    got = "fresh"
                else:
                    got = "?"
            except ValueError:
                got = "ERR:ValueError"
            if got != want:
                ctx.spec_fail("check_random_state", "check_random_state(%r) -> %s, wanted %s" % (seed, got, want), {"seed": repr(seed)})
            tok = {"global": "none", "fresh": "int", "same": "rs" if isinstance(seed, np.random.RandomState) else "gen",
                   "ERR:ValueError": "other"}[want]
            cases.append(Case("C18 crs seed=%s" % tok, got, tag="crs"))

        gens = {
            "probvec": lambda s: probvec(3, 4, random_state=s),
            "sample_without_replacement": lambda s: sample_without_replacement(7, 3, num_trials=2, random_state=s),
            "random_stochastic_matrix": lambda s: random_stochastic_matrix(5, 2, random_state=s),
            "random_stochastic_matrix_sparse": lambda s: random_stochastic_matrix(5, 2, sparse=True, random_state=s),
            "random_markov_chain": lambda s: random_markov_chain(4, 3, random_state=s),
            "random_discrete_dp": lambda s: random_discrete_dp(3, 2, k=2, random_state=s),
            "random_tournament_graph": lambda s: random_tournament_graph(5, random_state=s),
            "random_game": lambda s: random_game((2, 3), random_state=s),
            "covariance_game": lambda s: covariance_game((2, 3), 0.3, random_state=s),
            "random_polymatrix_game": lambda s: random_polymatrix_game((2, 3, 2), random_state=s),
            "random_pure_actions": lambda s: random_pure_actions((5, 6, 7), random_state=s),
            "random_mixed_actions": lambda s: random_mixed_actions((2, 3), random_state=s),
            "blotto_game": lambda s: blotto_game(2, 3, 0.5, random_state=s),
            "ranking_game": lambda s: ranking_game(4, random_state=s),
            "tournament_game": lambda s: tournament_game(5, 2, random_state=s),
            "unit_vector_game": lambda s: unit_vector_game(4, random_state=s),
            "unit_vector_game_avoid": lambda s: unit_vector_game(4, avoid_pure_nash=True, random_state=s),
        }
        for name, f in gens.items():
            for _ in range(ctx.n(1, 5)):
                seed = rng.randrange(2 ** 31)
                # int seed, with a history: the first product is edited in place before the second call
                oa = f(seed)
                a = canon(oa)
                sh = products.shared_with_earlier(arrays_of(oa))
                products.add(arrays_of(oa), name + " (earlier product)")
                mutate(oa)
                ob = f(seed)
                b = canon(ob)
                sh = sh or products.shared_with_earlier(arrays_of(ob))
                products.add(arrays_of(ob), name + " (earlier product)")
                keep(name, ob, b)
                if sh:
                    ctx.spec_fail("history_shared_memory", "%s(int seed): the product shares memory with %s" % (name, sh),
                                  {"generator": name, "seed": seed})
                rs = np.random.RandomState(seed)
                st0 = rs.get_state()[1].copy(), rs.get_state()[2]
                c = canon(f(rs))
                st1 = rs.get_state()[1], rs.get_state()[2]
                adv_rs = not (np.array_equal(st0[0], st1[0]) and st0[1] == st1[1])
                ge = np.random.default_rng(seed)
                s0 = ge.bit_generator.state["state"]["state"]
                od = f(ge)
                d = canon(od)
                mutate(od)
                d2 = canon(f(np.random.default_rng(seed)))
                adv_g = ge.bit_generator.state["state"]["state"] != s0
                e = canon(f(rs))      # second call on the advanced RandomState: a different object
                ctx.count("seeds:checked")
                # (random_stochastic_matrix(k<n) with an int seed reuses the seed for both of its internal draws, so its
                #  output differs from the one obtained with RandomState(seed): only equality under the same seed *type*
                #  is the property's claim)
                same_as_rs = a == c
                if not same_as_rs:
                    ctx.count("seeds:int-seed-differs-from-RandomState(seed):" + name)
                if a != b or d != d2 or not adv_rs or not adv_g:
                    ctx.spec_fail("seed_reproducibility", "%s: same-seed outputs equal=%s/%s, RandomState advanced=%s, "
                                  "Generator advanced=%s" % (name, a == b, d == d2, adv_rs, adv_g), {"generator": name, "seed": seed})
                if e == c:
                    ctx.count("seeds:second-call-identical:" + name)
                # random_state=None: the global NumPy stream is used (and advanced)
                np.random.seed(seed % (2 ** 32))
                g0 = np.random.get_state()[1].copy(), np.random.get_state()[2]
                n_out = canon(f(None))
                g1 = np.random.get_state()[1], np.random.get_state()[2]
                if n_out != c or (np.array_equal(g0[0], g1[0]) and g0[1] == g1[1]):
                    ctx.spec_fail("seed_none_global", "%s(random_state=None) after np.random.seed(s): equals RandomState(s) "
                                  "output=%s, global stream advanced=%s" % (name, n_out == c, not (np.array_equal(g0[0], g1[0]) and g0[1] == g1[1])),
                                  {"generator": name, "seed": seed})
                ctx.count("seeds:none-global-checked")

    seeds_block()

    # ---- argument validation: the ValueError branches of the generators ---------------------------------------------
    @case
    def args_block():
        def outcome(f):
            try:
                f()
                return "ok"
            except ValueError:
                return "ERR:ValueError"
            except Exception as e:         # any other exception kind is compared as such (and differs from the model)
                return "ERR:" + type(e).__name__

        def judge(tag, line, got, want, what, replay):
            ctx.count("args:%s:%s" % (tag, got))
            if got != want:
                ctx.spec_fail("argument_validation", "%s -> %s, the documented domain says %s" % (what, got, want), replay)
            cases.append(Case(line, got, nontrivial=True, tag="args-" + tag))

        # sample_without_replacement: every (n, k) of a small box, valid and malformed
        for n in range(-2, 7):
            for k in range(-1, 8):
                got = outcome(lambda: sample_without_replacement(n, k, random_state=1))
                want = "ok" if (n > 0 and 0 <= k <= n) else "ERR:ValueError"
                judge("swr", "C18 args fn=swr n=%d k=%d" % (n, k), got, want, "sample_without_replacement(%d, %d)" % (n, k),
                      {"fn": "sample_without_replacement", "n": n, "k": k})
        # covariance_game: N = 0..4 players, rho on / next to the ends of [-1/(N-1), 1] and well inside / outside
        for N in range(0, 5):
            nums = (2,) * N
            lo = -1 / (N - 1) if N >= 2 else -1.0
            rhos = [lo, float(np.nextafter(lo, -2.0)), float(np.nextafter(lo, 2.0)), 1.0, float(np.nextafter(1.0, 2.0)),
                    float(np.nextafter(1.0, 0.0)), 0.0, -0.0, 0.5, -0.75, -1.0, 1.5, -2.0, rng.uniform(-1.5, 1.5)]
            for rho in rhos:
                for seed_kind in (0, 1, 2):
                    rs_ = [7, np.random.RandomState(7), np.random.default_rng(7)][seed_kind]
                    got = outcome(lambda: covariance_game(nums, rho, random_state=rs_))
                    want = "ok" if (N >= 2 and F(-1, N - 1) <= F(rho) <= 1) or (N >= 2 and rho == lo) else "ERR:ValueError"
                    judge("cov", "C18 args fn=cov N=%d rho=%s" % (N, fx(rho)), got, want,
                          "covariance_game(%s, rho=%r, seed kind %d)" % (nums, rho, seed_kind),
                          {"fn": "covariance_game", "nums_actions": nums, "rho": fx(rho), "seed_kind": seed_kind})
                if F(rho).denominator <= 2 ** 20:
                    cases.append(Case("C18 args fn=covq N=%d rho=%s" % (N, rats([F(rho)])),
                                      "ok" if (N >= 2 and F(-1, N - 1) <= F(rho) <= 1) else "ERR:ValueError", tag="args-covq"))
        # random_game / random_polymatrix_game: empty nums_actions (a one-player polymatrix game is outside the domain)
        for N in range(0, 4):
            got = outcome(lambda: random_game((2,) * N, random_state=3))
            judge("game", "C18 args fn=game N=%d" % N, got, "ok" if N >= 1 else "ERR:ValueError", "random_game(%s)" % ((2,) * N,),
                  {"fn": "random_game", "N": N})
            if N != 1:
                got = outcome(lambda: random_polymatrix_game((2,) * N, random_state=3))
                judge("polymatrix", "C18 args fn=game N=%d" % N, got, "ok" if N >= 1 else "ERR:ValueError",
                      "random_polymatrix_game(%s)" % ((2,) * N,), {"fn": "random_polymatrix_game", "N": N})
        # unit_vector_game: avoid_pure_nash with one action
        for n in range(1, 5):
            for avoid in (False, True):
                got = outcome(lambda: unit_vector_game(n, avoid_pure_nash=avoid, random_state=5))
                judge("uv", "C18 args fn=uv n=%d avoid=%d" % (n, int(avoid)), got, "ERR:ValueError" if (avoid and n == 1) else "ok",
                      "unit_vector_game(%d, avoid_pure_nash=%s)" % (n, avoid), {"fn": "unit_vector_game", "n": n, "avoid": avoid})
        # malformed requests to the model: it must refuse them (never answer with a default)
        bad = ["C18 args fn=swr n=3", "C18 args fn=cov N=2 rho=1/2", "C18 args fn=uv n=2 avoid=2", "C18 args fn=nothing N=1",
               "C18 args N=1"]
        for line, mo in zip(bad, ctx.driver(bad)):
            ctx.count("args:malformed-request:" + ("refused" if mo == "bad-op" else "ANSWERED"))
            if mo != "bad-op":
                ctx.mismatches.append({"request": line, "code": "(malformed request)", "model": mo,
                                       "why": "the model driver answered a malformed request"})

    args_block()

    # ---- the same integer seed in other interpreter processes ---------------------------------------------------------
    # (`./check` fixes PYTHONHASHSEED=0 for this process; a generator whose output depends on the interpreter's hash salt,
    #  on the working directory or on byte-code caching is reproducible here and nowhere else)
    @case
    def xproc_block():
        import hashlib
        import importlib
        import json
        import subprocess
        import sys
        import tempfile
        from . import common
        specs = list(XPROC_SPECS)
        if not ctx.thorough:
            always = [sp for sp in specs if sp[0] in ("random_stochastic_matrix k<n", "random_markov_chain k<n")]
            rest = [sp for sp in specs if sp not in always]
            rng.shuffle(rest)
            specs = always + rest[:6]
        jobs = [[lab, mod, fn, args, kw, rng.randrange(2 ** 31)] for (lab, mod, fn, args, kw) in specs for _ in range(ctx.n(1, 2))]
        # in this process
        here = []
        for lab, mod, fn, args, kw, seed in jobs:
            f = getattr(importlib.import_module(mod), fn)
            obj = f(*[tuple(a) if isinstance(a, list) else a for a in args], random_state=seed, **kw)
            here.append(hashlib.sha256(repr(canon(obj)).encode()).hexdigest())
        cache = os.environ.get("NUMBA_CACHE_DIR") or (common.numba_cache_dir() if hasattr(common, "numba_cache_dir") else "")
        scratch = tempfile.mkdtemp(prefix="c18-xproc-")
        children = [("1", {"PYTHONDONTWRITEBYTECODE": "1"}, "/tmp"),
                    ("2", {"PYTHONDONTWRITEBYTECODE": None, "PYTHONPYCACHEPREFIX": os.path.join(scratch, "pyc")}, scratch),
                    ("random", {"PYTHONDONTWRITEBYTECODE": "1"}, "/")]
        procs = []
        for hs, extra, cwd in children:
            env = dict(os.environ, PYTHONHASHSEED=hs, PYTHONPATH=common.REPO + os.pathsep + common.VERIF)
            if cache:
                env["NUMBA_CACHE_DIR"] = cache
            for k_, v_ in extra.items():
                if v_ is None:
                    env.pop(k_, None)
                else:
                    env[k_] = v_
            p = subprocess.Popen([sys.executable, "-c", XPROC_CHILD], env=env, cwd=cwd, stdin=subprocess.PIPE,
                                 stdout=subprocess.PIPE, stderr=subprocess.STDOUT, text=True)
            p.stdin.write(json.dumps(jobs))
            p.stdin.close()
            procs.append((hs, cwd, p))
        results = {}
        for hs, cwd, p in procs:
            try:
                out = p.stdout.read()
                p.wait(timeout=100)
            except Exception as e:
                out = "child failed: %r" % (e,)
            lines = [l for l in out.splitlines() if l.startswith("DIGESTS ")]
            if not lines:
                ctx.notes.append("cross-process child (PYTHONHASHSEED=%s) did not answer: %s" % (hs, out[-300:]))
                ctx.count("xproc:child-did-not-answer")
                continue
            results[hs] = json.loads(lines[0][8:])
        import shutil
        shutil.rmtree(scratch, ignore_errors=True)
        for t, (lab, mod, fn, args, kw, seed) in enumerate(jobs):
            ctx.count("xproc:calls-compared")
            digs = {"this process (PYTHONHASHSEED=%s)" % os.environ.get("PYTHONHASHSEED", "unset"): here[t]}
            for hs, d in results.items():
                digs["child PYTHONHASHSEED=%s" % hs] = d[t]
            if len(set(digs.values())) != 1:
                ctx.spec_fail("seed_reproducibility_across_processes",
                              "%s(%s, random_state=%d): the same integer seed gives different products in different interpreter "
                              "processes: %s" % (lab, ", ".join([repr(a) for a in args] + ["%s=%r" % kv for kv in kw.items()]), seed,
                                                 {k_: v_[:12] for k_, v_ in digs.items()}),
                              {"generator": lab, "module": mod, "function": fn, "args": args, "kwargs": kw, "seed": seed,
                               "hash_seeds": ["1", "2", "random"], "digests": digs})
        ctx.count("xproc:children", len(results))

    xproc_block()

    ctx.assumptions.append("NumPy's bit generators and distributions (uniform, integers, normal) are inputs of the model; "
                           "the IEEE fact floor(r*m) < m for doubles r < 1 is checked on the code at r = 1-2^-53, not proved")
    rejudge(kept)

    # corpus: fixed calls on planted streams (boundary uniforms, the tie/zero witnesses of the known finding,
    # rejection runs); same oracles, same correspondence
    if only is None:
        import glob
        import json
        for f in sorted(glob.glob(os.path.join(ctx.corpus_dir, "c18_*.json"))):
            try:
                entries = json.load(open(f))
            except Exception as e:
                ctx.notes.append("corpus file %s unreadable: %s" % (f, e))
                continue
            for ent in entries:
                st["planted"] = ent["stream"]
                try:
                    CASES[ent["call"][0]](*ent["call"][1])
                finally:
                    st["planted"] = None
                ctx.count("corpus-cases")
    if only is not None:
        st["go"] = True
        name, args = only["call"]
        CASES[name](*args)
        return
    outs = ctx.run_cases(cases)
    # trace fidelity: share of the cases answered by the model's Float instance (tags below) that reproduce the
    # code's bits (these cases are also compared exactly, so anything below 100 % is already a mismatch)
    ftags = {"probvec", "mixed_actions", "stoch", "stoch-csr", "ddp-Q", "blotto", "ranking", "sgc", "swr", "swr-boundary"}
    tot = sum(1 for c in cases if c.tag in ftags)
    same = sum(1 for c, o in zip(cases, outs) if c.tag in ftags and o == c.impl)
    ctx.extra["trace_fidelity_float"] = {"cases": tot, "bit_identical": same}


def replay(data):
    """./check C18 --replay <file>: re-run the recorded call of the real code on the recorded random stream and
    judge it with the same oracle (exit 1 if the property is violated again); other replays are printed."""
    import json
    from . import common
    r = data.get("replay", {})
    if "call" not in r or "stream" not in r:
        print(json.dumps(data, indent=1))
        return 0
    ctx = common.Ctx("C18", "quick", 0, FILES)
    ctx.known = {}          # a known finding is reproduced like any other
    run(ctx, only=r)
    for sf in ctx.spec_failures:
        print("REPRODUCED %s: %s" % (sf["key"], sf["what"]))
    if not ctx.spec_failures:
        print("not reproduced: the real code satisfies the property on this input now")
    return 1 if ctx.spec_failures else 0
