"""C20 — learning dynamics keep a valid state along every history: correspondence + spec run.

Regression keys of repaired defects (ordinary oracle checks now): brd_time_series_overwrites_init (time_series must
leave the caller's init_action_dist untouched; the state after the last period is therefore no longer observable),
logit_shared_player_cdfs (two LogitDynamics built on one game behave independently: history_family), and
fp_narrow_int_t_init (narrow NumPy integers for t_init / num_reps give the same bits as Python ints).

Every random choice of the real code is either injected or recorded through a RandomState subclass
(`Rec`) and handed to the model as an explicit input:
  * vector `randint(N, size=T)`  -> sequence of revising players (scripted or recorded)
  * scalar `randint(n)`          -> on-demand stream `ri` (random tie-breaking, KMR's random action)
  * `random()`                   -> KMR mutation coin / logit uniform (scripted or recorded)
  * `choice(...)`                -> SamplingBRD sample (recorded)
  * `distribution.rvs`           -> SFP payoff perturbations (scripted)
The model must reproduce the trajectories exactly (integers; beliefs bit for bit at Float and inside
1e-9 of the exact Rat run) *and* consume exactly the recorded on-demand draws (a sentinel draw is
appended and must be the only one left: rest = 1).
The spec oracle is independent of the model: exact integer / Fraction arithmetic on the code's outputs.
"""
import glob
import itertools
import json
import os
import random
import time
from fractions import Fraction

import numpy as np

from .common import Case, fx, fxs, fxm, ints, intm, unfx

FILES = ["quantecon/game_theory/brd.py", "quantecon/game_theory/fictplay.py",
         "quantecon/game_theory/localint.py", "quantecon/game_theory/logitdyn.py",
         "quantecon/game_theory/normal_form_game.py"]

TOL = 1e-8            # Player.tol
UMAX = 1.0 - 2.0 ** -53   # largest value random() can return
# The recorded on-demand `randint` stream is handed to the model followed by one sentinel draw; the model must
# leave exactly the sentinel (rest = 1): it consumed neither fewer nor MORE draws than the code made (a code
# path that silently stops drawing would make the model eat the sentinel).
SENTINEL = [0]


class Rec(np.random.RandomState):
    """RandomState that records every draw the dynamics make and optionally replaces them by a script."""

    def __init__(self, seed, ps=None, us=None, ri=None):
        super().__init__(seed)
        self.script_ps = None if ps is None else list(ps)   # for the (first) vector randint
        self.script_us = None if us is None else list(us)
        self.script_ri = None if ri is None else list(ri)   # raw values, reduced mod n
        self.log_ps, self.log_us, self.log_ri, self.log_samples = [], [], [], []
        self._inner = False

    def randint(self, low, high=None, size=None, dtype=int):
        if self._inner:
            return super().randint(low, high=high, size=size, dtype=dtype)
        assert high is None
        if size is None:
            if self.script_ri:
                v = self.script_ri.pop(0) % int(low)
            else:
                v = int(super().randint(low, high=high, size=size, dtype=dtype))
            self.log_ri.append(v)
            return v
        if self.script_ps is not None:
            v = np.array([self.script_ps[t % len(self.script_ps)] for t in range(int(size))], dtype=np.int64)
        else:
            v = super().randint(low, high=high, size=size, dtype=dtype)
        self.log_ps.append([int(e) for e in v])
        return v

    def random(self, size=None):
        if self._inner or size is not None:      # (vector draws: random initial beliefs; not logged)
            return super().random(size)
        if self.script_us:
            v = float(self.script_us.pop(0))
        else:
            v = float(super().random())
        self.log_us.append(v)
        return v

    def choice(self, a, size=None, replace=True, p=None):
        self._inner = True
        try:
            v = super().choice(a, size=size, replace=replace, p=p)
        finally:
            self._inner = False
        self.log_samples.append([int(e) for e in np.atleast_1d(v)])
        return v


class ScriptedDist:
    """stands for a scipy.stats distribution: `rvs(size, random_state)` returns scripted perturbations"""

    def __init__(self, rng):
        self.rng = rng
        self.log = []

    def rvs(self, size, random_state):
        v = [self.rng.randint(-16, 16) / 8.0 for _ in range(size)]
        self.log.append(v)
        return np.array(v)


# ----------------------------------------------------------------------------
# argument forms, aliasing, findings

INT_FORMS = [int, np.int8, np.int16, np.int32, np.int64, np.uint8, np.uint16, np.uint32, np.uint64, np.intp,
             lambda v: np.array(v)]           # last: 0-d array


def vint(rng, v, plain=0.4, zero_d=False):
    """the integer v as a Python int or a NumPy integer scalar of any width.  0-d arrays are not accepted as
    integers by this code (`[None] * ts_length`, `[num_actions] * N` and `isinstance(x, numbers.Integral)` need an
    object with list-repeat / Integral semantics), so they are only produced on request"""
    if rng.random() < plain:
        return int(v)
    f = rng.choice(INT_FORMS if zero_d else INT_FORMS[:-1])
    try:
        return f(v)
    except OverflowError:          # value does not fit the drawn width
        return np.int64(v)


def vfloat(rng, v, plain=0.4):
    """the float v as Python float / np.float64 / 0-d array, np.float32 when v is exactly representable,
    Python int / bool when v is integral"""
    forms = [float, np.float64, lambda x: np.array(float(x))]
    if float(np.float32(v)) == float(v):
        forms.append(np.float32)
    if float(v) == int(v):
        forms.append(int)
        if int(v) in (0, 1):
            forms.append(bool)
    return float(v) if rng.random() < plain else rng.choice(forms)(v)


def varr1(rng, v, dtypes, plain=0.4):
    """a 1-d sequence as list / tuple / ndarray of several dtypes / strided view / reversed view"""
    v = list(v)
    if rng.random() < plain:
        return list(v), None
    kind = rng.randrange(5)
    if kind == 0:
        return tuple(v), None
    dt = rng.choice(dtypes)
    if kind == 1 or len(v) == 0:
        return np.array(v, dtype=dt), None
    if kind == 2:       # strided view into a larger base (the base's other entries must never change)
        base = np.full(2 * len(v), 77, dtype=dt)
        base[::2] = v
        return base[::2], base
    if kind == 3:       # reversed view
        base = np.array(v[::-1], dtype=dt)
        return base[::-1], base
    return np.array(v, dtype=dt), None


def varr2(rng, m, dtypes, plain=0.4):
    """a matrix as list of lists / tuple of tuples / ndarray (C, F, transposed view, strided view, dtypes)"""
    m = [list(r) for r in m]
    if rng.random() < plain:
        return m
    kind = rng.randrange(6)
    if kind == 0:
        return tuple(tuple(r) for r in m)
    dt = rng.choice(dtypes)
    a = np.array(m, dtype=dt)
    if kind == 1:
        return a
    if kind == 2:
        return np.asfortranarray(a)
    if kind == 3:
        return np.ascontiguousarray(a.T).T          # transposed view
    if kind == 4:
        base = np.full((2 * a.shape[0], 2 * a.shape[1]), 55, dtype=dt)
        base[::2, ::2] = a
        return base[::2, ::2]
    return a[::-1, ::-1][::-1, ::-1]               # doubly reversed view (negative strides composed)


def vsparse(rng, m):
    """an adjacency matrix as csr / csc / coo / lil with int32 or int64 index arrays and explicitly stored zeros"""
    from scipy import sparse
    a = np.array(m, dtype=float)
    n = a.shape[0]
    rows, cols, data = [], [], []
    for i in range(n):
        for j in range(n):
            if a[i, j] != 0 or rng.random() < 0.3:        # explicit zeros are stored
                rows.append(i); cols.append(j); data.append(a[i, j])
    idt = rng.choice([np.int32, np.int64])
    coo = sparse.coo_matrix((np.array(data, dtype=float), (np.array(rows, dtype=idt), np.array(cols, dtype=idt))),
                            shape=(n, n))
    fmt = rng.choice(["csr", "csc", "coo", "lil"])
    if fmt == "coo":
        return coo, fmt
    if fmt == "lil":
        return sparse.lil_matrix(a), fmt
    x = sparse.csr_matrix((coo.data, (coo.row, coo.col)), shape=(n, n)) if fmt == "csr" else \
        sparse.csc_matrix((coo.data, (coo.row, coo.col)), shape=(n, n))
    x.indices = x.indices.astype(idt)
    x.indptr = x.indptr.astype(idt)
    return x, fmt


def snap(x):
    """bit-exact snapshot of an argument (for 'inputs unchanged' checks)"""
    from scipy import sparse
    if isinstance(x, np.ndarray):
        return ("nd", x.dtype.str, x.shape, x.tobytes())
    if sparse.issparse(x):
        c = x.tocoo()
        return ("sp", x.format, c.row.tobytes(), c.col.tobytes(), c.data.tobytes())
    if isinstance(x, (list, tuple)):
        return (type(x).__name__,) + tuple(snap(e) for e in x)
    return ("v", repr(x))


def shares(a, bs):
    return isinstance(a, np.ndarray) and any(isinstance(b, np.ndarray) and np.shares_memory(a, b) for b in bs)


def finding(ctx, key, what, replay):
    """a defect of the clean code found by the hardening streams: counted (`unlisted-finding:<key>`) with one
    example kept in the evidence until the key is listed in known_findings.txt; then it goes through spec_fail"""
    if key in ctx.known:
        ctx.spec_fail(key, what, replay)
        return
    ctx.count("unlisted-finding:" + key)
    ctx.extra.setdefault("unlisted_findings", {}).setdefault(key, {"what": what, "replay": replay})


INT_DT = [np.int8, np.int16, np.int32, np.int64, np.uint8, np.uint16, np.uint32, np.uint64, np.float32, np.float64]
PAY_DT = [np.int8, np.int16, np.int32, np.int64, np.float32, np.float64]


class ReplayDist:
    """replays the perturbation vectors logged by a ScriptedDist (for re-running the same history)"""

    def __init__(self, log):
        self.q = [list(v) for v in log]

    def rvs(self, size, random_state):
        return np.array(self.q.pop(0))


# ----------------------------------------------------------------------------
# exact helpers (oracle side: plain ints / Fractions, no model involved)

def F(x):
    return Fraction(x)


def br_set_exact(pv, tol=Fraction(TOL)):
    m = max(pv)
    return [i for i, v in enumerate(pv) if v >= m - tol]


def matvec(A, x):
    return [sum(F(a) * F(b) for a, b in zip(row, x)) for row in A]


def rand_payoff(rng, n, kind=None):
    kind = kind if kind is not None else rng.randrange(5)
    if kind == 0:   # coordination game
        d = [rng.randint(1, 4) for _ in range(n)]
        return [[d[i] if i == j else 0 for j in range(n)] for i in range(n)]
    if kind == 1:   # many ties
        return [[rng.randint(0, 1) for _ in range(n)] for _ in range(n)]
    if kind == 2:   # symmetric matrix
        B = [[rng.randint(-3, 3) for _ in range(n)] for _ in range(n)]
        return [[B[min(i, j)][max(i, j)] for j in range(n)] for i in range(n)]
    if kind == 3:   # constant (everything ties)
        return [[1] * n for _ in range(n)]
    return [[rng.randint(-3, 3) for _ in range(n)] for _ in range(n)]


def composition(rng, N, n):
    d = [0] * n
    for _ in range(N):
        d[rng.randrange(n)] += 1
    return d


def locate_exact(d, p):
    """action of the p-th player when players are ordered by action"""
    c = 0
    for a, k in enumerate(d):
        c += k
        if p < c:
            return a
    return len(d)


# ----------------------------------------------------------------------------
# BRD / KMR / SamplingBRD

def brd_family(ctx, cases, n_cases):
    from quantecon.game_theory import BRD, KMR, SamplingBRD
    rng = ctx.rng
    for ci in range(n_cases):
        kind = ("brd", "kmr", "sbrd")[ci % 3]
        n = rng.randint(1, 4)
        N = rng.randint(2 if kind == "sbrd" else 1, 8)
        A = rand_payoff(rng, n)
        T = rng.choice([1, 2, 5, 12, 30, 60]) if ci % 11 else 200
        rnd = rng.random() < 0.4
        tb = "random" if rnd else "smallest"
        eps = rng.choice([0.0, 0.1, 0.5, 1.0, 0.25])
        k = rng.choice([1, 2, 3, 5])
        malformed = (kind != "sbrd") and rng.random() < 0.12
        if malformed:
            tot = max(0, N + rng.choice([-2, -1, 1, 2]))
            d0 = composition(rng, tot, n)
            ctx.count("brd:init-sum-not-N")
        else:
            d0 = composition(rng, N, n)
        inject = rng.random() < 0.6
        ps = us = ri = None
        if inject:
            ps = [rng.randrange(N) for _ in range(T)]
            us = [rng.choice([0.0, UMAX, eps, max(0.0, eps - 2.0 ** -54), rng.random()]) for _ in range(T)] \
                if kind == "kmr" else None
            ri = [rng.randrange(12) for _ in range(T)] if rng.random() < 0.5 else None
        init_none = (not malformed) and rng.random() < 0.15
        tol_opt = rng.choice([None, None, None, 0.0, 0.5, 1.0, 2.0])
        brd_case(ctx, cases, {"forms": (not malformed) and rng.random() < 0.5, "tol": tol_opt, "kind": kind, "A": A, "N": N, "T": T, "tie_breaking": tb, "eps": eps, "k": k, "d0": d0,
                              "malformed": malformed, "ps": ps, "us": us, "ri": ri, "seed": rng.randrange(2 ** 31),
                              "init_none": init_none})
    # equal seeds give equal histories
    for _ in range(ctx.n(6, 30)):
        n, N = rng.randint(2, 4), rng.randint(2, 8)
        A = rand_payoff(rng, n)
        seed = rng.randrange(2 ** 31)
        d0 = composition(rng, N, n)
        for mk in (lambda: BRD(A, N), lambda: KMR(A, N, epsilon=0.3), lambda: SamplingBRD(A, N, k=2)):
            try:
                o1 = mk().time_series(25, init_action_dist=list(d0), tie_breaking="random", random_state=seed)
                o2 = mk().time_series(25, init_action_dist=list(d0), tie_breaking="random", random_state=seed)
            except Exception as e:
                ctx.spec_fail("brd_exception", "time_series raised %s: %s" % (type(e).__name__, e),
                              {"A": A, "N": N, "seed": seed, "d0": d0})
                continue
            ctx.count("seed-determinism-checks")
            if not np.array_equal(o1, o2):
                ctx.spec_fail("brd_seed", "equal seeds gave different histories", {"A": A, "N": N, "seed": seed, "d0": d0})
            try:
                g1 = mk().time_series(25, init_action_dist=list(d0), tie_breaking="random",
                                      random_state=np.random.default_rng(seed))
                g2 = mk().time_series(25, init_action_dist=list(d0), tie_breaking="random",
                                      random_state=np.random.default_rng(seed))
            except Exception as e:
                ctx.spec_fail("brd_exception", "time_series(Generator) raised %s: %s" % (type(e).__name__, e),
                              {"A": A, "N": N, "seed": seed, "d0": d0})
                continue
            ctx.count("seed-determinism-checks(Generator)")
            bad_rows = [r for r in g1.tolist() if min(r) < 0 or sum(r) != N]
            if not np.array_equal(g1, g2) or bad_rows:
                ctx.spec_fail("brd_seed", "Generator stream: histories differ or invalid state %s" % bad_rows[:1],
                              {"A": A, "N": N, "seed": seed, "d0": d0})


def brd_case(ctx, cases, P):
    """one run of BRD/KMR/SamplingBRD.time_series described by the dict P (also the corpus format):
    correspondence case + spec oracle"""
    from quantecon.game_theory import BRD, KMR, SamplingBRD
    kind, A, N, T, tb, eps, k = P["kind"], P["A"], P["N"], P["T"], P["tie_breaking"], P["eps"], P["k"]
    n, rnd, d0 = len(A), P["tie_breaking"] == "random", list(P["d0"])
    malformed, init_none = bool(P.get("malformed")), bool(P.get("init_none"))
    tol_opt = P.get("tol")                       # None: Player.tol (1e-8)
    tol = TOL if tol_opt is None else tol_opt
    kw = {} if tol_opt is None else {"tol": tol_opt}
    if tol_opt is not None:
        ctx.count("brd:tol-option")
    rec = Rec(P["seed"], ps=P.get("ps"), us=P.get("us"), ri=P.get("ri"))
    ctx.count("brd:players-injected" if P.get("ps") is not None else "brd:players-recorded")
    for _once in (0,):
        forms = bool(P.get("forms"))
        frng = random.Random(P["seed"] ^ 0x5F5F)
        A_f, N_f, eps_f, k_f, T_f, base = A, N, eps, k, T, None
        arr = np.array(d0, dtype=int)
        if forms:
            ctx.count("forms:brd-family")
            A_f, N_f, T_f = varr2(frng, A, PAY_DT), vint(frng, N), vint(frng, T)
            eps_f, k_f = vfloat(frng, eps), vint(frng, k)
            if isinstance(eps_f, np.float32) and kind == "kmr" and \
                    any(bool(u_ < eps_f) != (u_ < eps) for u_ in (P.get("us") or [])):
                # NEP 50: `random() < np.float32(eps)` is evaluated in float32, so a uniform just below eps is rounded
                # up to eps and the mutation does not happen
                u_bad = [u_ for u_ in P["us"] if bool(u_ < eps_f) != (u_ < eps)][0]
                finding(ctx, "kmr_float32_epsilon", "KMR(epsilon=np.float32(%r)): the coin u=%r (< epsilon) does not mutate "
                        "because `u < epsilon` is evaluated in float32" % (eps, u_bad),
                        {"op": "kmr", "A": A, "N": N, "epsilon": "np.float32(%r)" % eps, "u": u_bad})
                eps_f = float(eps)
            arr, base = varr1(frng, d0, INT_DT, plain=0.15)
        obj = P.get("obj") or {"brd": lambda: BRD(A_f, N_f), "kmr": lambda: KMR(A_f, N_f, epsilon=eps_f),
                                "sbrd": lambda: SamplingBRD(A_f, N_f, k=k_f)}[kind]()
        tbkw = {} if P.get("omit_tie_breaking") else {"tie_breaking": tb}
        if forms and frng.random() < 0.3:
            obj.tie_breaking = tb          # attribute instead of option (the documented default mechanism)
            tbkw = {}
            ctx.count("forms:tie_breaking-by-attribute")
        snapA = snap(A_f)
        # time_series works on a copy of init_action_dist (fix 0815c49): the state after the last period is not
        # observable and the caller's array must stay as it was (regression key brd_time_series_overwrites_init)
        nofinal = True
        init_acts = None
        P["_out"] = None
        try:
            if init_none:
                # random initial condition drawn by the code itself: N scalar randint(n) draws, then
                # `_set_action_dist`; the caller's array does not exist, the final state is not observable
                out = obj.time_series(T_f, random_state=rec, **tbkw, **kw)
                init_acts, rec.log_ri = rec.log_ri[:N], rec.log_ri[N:]
                d0 = [init_acts.count(c) for c in range(n)]
                rows = [[int(v) for v in r] for r in out]
                final = None
                impl = "%s|1" % intm(rows)
                ctx.count("brd:init-drawn-by-the-code")
            else:
                out = obj.time_series(T_f, init_action_dist=arr, random_state=rec, **tbkw, **kw)
                rows = [[int(v) for v in r] for r in out]
                if nofinal:      # list / tuple input: np.asarray made a private copy, the final state is not observable
                    final = None
                    impl = "%s|1" % intm(rows)
                else:
                    final = [int(v) for v in arr]
                    impl = "%s|%s|1" % (intm(rows), ints(final))
            err = None
        except IndexError:
            impl, err, rows, final = "ERR:IndexError", "IndexError", None, None
            ctx.count("brd:IndexError")
        except Exception as e:     # any other exception on these inputs: the run does not exist
            ctx.spec_fail("%s_exception" % kind, "%s.time_series raised %s: %s" % (kind, type(e).__name__, e),
                          {"op": kind, "A": A, "N": N, "d0": d0, "T": T, "tie_breaking": tb, "eps": eps, "k": k,
                           "player_ind_seq": rec.log_ps[0] if rec.log_ps else None, "uniforms": rec.log_us,
                           "randint_scalars": rec.log_ri})
            continue
        P["_out"] = out if err is None else None
        ps_used = rec.log_ps[0] if rec.log_ps else []
        us_used = rec.log_us
        line = ("C20 brd mode=rat kind=%s A=%s tol=%s rnd=%d d0=%s ps=%s ri=%s eps=%s us=%s samples=%s"
                % (kind, intm(A), fx(tol), int(rnd), "-" if init_none else ints(d0), ints(ps_used), ints(rec.log_ri + SENTINEL),
                   fx(eps), fxs(us_used) if kind == "kmr" else "-", intm(rec.log_samples) if kind == "sbrd" else "-"))
        if init_none:
            line += " init=%s" % ints(init_acts)
        replay = {"op": kind, "A": A, "N": N, "d0": d0, "T": T, "tie_breaking": tb, "eps": eps, "k": k, "tol": tol,
                  "rec_seed": P["seed"], "init_none": init_none, "malformed": malformed,
                  "player_ind_seq": ps_used, "uniforms": us_used, "randint_scalars": rec.log_ri,
                  "samples": rec.log_samples, "out": rows, "final": final, "init_actions": init_acts}
        if err is None and not init_none and [int(v) for v in arr] != list(P["d0"]):
            ctx.spec_fail("brd_time_series_overwrites_init",
                          "%s.time_series overwrote the caller's init_action_dist (%s -> %s)"
                          % (kind, P["d0"], [int(v) for v in arr]), replay)
        if err is None:
            if snap(A_f) != snapA:
                ctx.spec_fail("brd_input_modified", "the payoff matrix argument was modified", replay)
            if not isinstance(arr, np.ndarray) and list(arr) != list(P["d0"]) and not init_none:
                ctx.spec_fail("brd_input_modified", "the list/tuple init_action_dist was modified", replay)
            if base is not None and base.shape[0] == 2 * len(d0) and not (base[1::2] == 77).all():
                ctx.spec_fail("brd_input_modified", "entries of the base array outside the strided view changed", replay)
            if shares(out, [arr, base, A_f, obj.player.payoff_array]):
                ctx.spec_fail("brd_alias", "the returned time series shares memory with an input / the object's arrays", replay)
        nontriv = err is None and n >= 2 and T >= 2 and any(r != rows[0] for r in rows + ([final] if final else []))
        if nofinal:
            def cmp_nofinal(mo, im):
                parts = mo.split("|")
                if mo == im:          # (e.g. both ERR:IndexError)
                    return None
                return None if len(parts) == 3 and parts[0] + "|" + parts[2] == im else "trajectory differs"
            cases.append(Case(line, impl, nontrivial=nontriv, cmp=cmp_nofinal,
                              tag=kind + (":init-none" if init_none else ":init-list")))
        else:
            cases.append(Case(line, impl, nontrivial=nontriv, tag=kind))
        ctx.count("brd:ties-drawn", len(rec.log_ri))
        # ---- spec oracle -------------------------------------------------------------------
        if err is not None:
            # an IndexError is legitimate only if some player index is not below the total count
            if not malformed or sum(d0) > max(ps_used, default=-1):
                ctx.spec_fail("brd_indexerror", "%s.time_series raised IndexError on a valid history" % kind, replay)
            continue
        if malformed:
            for r in rows + ([final] if final is not None else []):
                if sum(r) != sum(d0):
                    ctx.spec_fail("brd_sum", "total count changed", replay)
            continue
        seq = rows + ([final] if final is not None else [])
        for t in range(len(seq) - 1):
            cur, nxt = seq[t], seq[t + 1]
            if any(v < 0 for v in cur) or sum(cur) != N or len(cur) != n:
                ctx.spec_fail("%s_state" % kind, "state %s at t=%d is not a distribution of %d players" % (cur, t, N), replay)
                break
            a = locate_exact(cur, ps_used[t])
            oth = list(cur)
            oth[a] -= 1
            if oth[a] < 0:
                ctx.spec_fail("%s_state" % kind, "revising player's action has count 0 at t=%d" % t, replay)
                break
            # allowed new actions for the reviser
            if kind == "brd":
                S = br_set_exact(matvec(A, oth), Fraction(tol))
                allowed = S if rnd else S[:1]
            elif kind == "kmr":
                if us_used[t] < eps:
                    allowed = list(range(n))
                    ctx.count("kmr:mutation")
                else:
                    S = br_set_exact(matvec(A, oth), Fraction(tol))
                    allowed = S if rnd else S[:1]
                    ctx.count("kmr:best-response")
            else:
                smp = rec.log_samples[t]
                if len(smp) != k or any(oth[s] <= 0 for s in smp):
                    ctx.spec_fail("sbrd_sample", "sample %s not drawn from the other players %s" % (smp, oth), replay)
                S = br_set_exact(matvec(A, [smp.count(c) for c in range(n)]), Fraction(tol))
                allowed = S if rnd else S[:1]
            if len(allowed) > 1:
                ctx.count("brd:tie-set>1")
            ok = False
            for b in allowed:
                cand = list(oth)
                cand[b] += 1
                if cand == nxt:
                    ok = True
            moved = sum(abs(x - y) for x, y in zip(cur, nxt))
            if moved not in (0, 2):
                ctx.spec_fail("%s_move" % kind, "more than one player moved at t=%d: %s -> %s" % (t, cur, nxt), replay)
                break
            if moved == 2:
                ctx.count("brd:state-changed")
            if not ok:
                ctx.spec_fail("%s_transition" % kind,
                              "t=%d: %s -> %s is not 'remove the player at %d (action %d), add one of %s'"
                              % (t, cur, nxt, ps_used[t], a, allowed), replay)
                break
        last = seq[-1]
        if any(v < 0 for v in last) or sum(last) != N:
            ctx.spec_fail("%s_state" % kind, "final state %s invalid" % last, replay)


def brd_play_direct(ctx, cases, n_cases):
    """the public `play(action, action_dist)` called directly (int and float arrays, also on actions with
    count 0 and on action = num_actions, which the code does not guard)"""
    from quantecon.game_theory import BRD, KMR, SamplingBRD
    rng = ctx.rng
    for ci in range(n_cases):
        kind = ("brd", "kmr", "sbrd")[ci % 3]
        n = rng.randint(1, 4)
        N = rng.randint(2, 8)
        A = rand_payoff(rng, n)
        rnd = rng.random() < 0.5
        tb = "random" if rnd else "smallest"
        eps = rng.choice([0.0, 0.1, 0.5, 1.0])
        k = rng.choice([1, 2, 3])
        d0 = composition(rng, N, n)
        pos = [i for i in range(n) if d0[i] > 0]
        r = rng.random()
        if kind == "sbrd" or r < 0.75:
            a = rng.choice(pos)
        elif r < 0.9:
            a = rng.randrange(n)
        else:
            a = n
        u = rng.choice([0.0, eps, rng.random()])
        rec = Rec(rng.randrange(2 ** 31), us=[u], ri=[rng.randrange(12)] if rng.random() < 0.5 else None)
        obj = {"brd": lambda: BRD(A, N), "kmr": lambda: KMR(A, N, epsilon=eps),
               "sbrd": lambda: SamplingBRD(A, N, k=k)}[kind]()
        arr = np.array(d0, dtype=(int if rng.random() < 0.5 else float))
        replay = {"op": kind + ".play", "A": A, "N": N, "d0": d0, "action": a, "tie_breaking": tb, "eps": eps, "k": k,
                  "u": u}
        try:
            res = obj.play(a, arr, tie_breaking=tb, random_state=rec)
            got = [int(v) for v in res]
            impl = "%s|1" % ints(got)
            if res is arr:
                ctx.count("play:returns-the-callers-array(observation)")
        except IndexError:
            impl, got = "ERR:IndexError", None
            ctx.count("play:IndexError")
            if a < n:
                ctx.spec_fail("%s_exception" % kind, "play raised IndexError for an in-range action", replay)
        except Exception as e:
            ctx.spec_fail("%s_exception" % kind, "play raised %s: %s" % (type(e).__name__, e), replay)
            continue
        smp = rec.log_samples[0] if rec.log_samples else []
        line = ("C20 play mode=rat kind=%s A=%s tol=%s rnd=%d d0=%s a=%d ri=%s eps=%s u=%s sample=%s"
                % (kind, intm(A), fx(TOL), int(rnd), ints(d0), a, ints(rec.log_ri + SENTINEL), fx(eps),
                   fx(rec.log_us[0] if rec.log_us else 0.0), ints(smp)))
        cases.append(Case(line, impl, nontrivial=(n >= 2), tag="play:" + kind))
        if got is None or a >= n:
            continue
        if d0[a] == 0:
            ctx.count("play:action-with-count-0(unguarded)")
            continue
        oth = list(d0)
        oth[a] -= 1
        if kind == "kmr" and rec.log_us[0] < eps:
            allowed = list(range(n))
        elif kind == "sbrd":
            S = br_set_exact(matvec(A, [smp.count(c) for c in range(n)]))
            allowed = S if rnd else S[:1]
        else:
            S = br_set_exact(matvec(A, oth))
            allowed = S if rnd else S[:1]
        cands = []
        for b in allowed:
            c = list(oth)
            c[b] += 1
            cands.append(c)
        if got not in cands:
            ctx.spec_fail("%s_transition" % kind, "play(%d, %s) = %s, allowed: %s" % (a, d0, got, cands), replay)


def brd_exhaustive(ctx, cases):
    """all 2-action games from a small payoff set x all initial conditions x all revising players (one step)"""
    from quantecon.game_theory import BRD
    for ent in itertools.product((0, 1, 2), repeat=4):
        A = [[ent[0], ent[1]], [ent[2], ent[3]]]
        for N in ((1, 2, 3, 4, 5, 6, 7, 8) if ctx.thorough else (1, 2, 3, 5)):
            obj = BRD(A, N)
            for k0 in range(N + 1):
                d0 = [k0, N - k0]
                for p in range(N):
                    arr = np.array(d0, dtype=int)
                    rec = Rec(0, ps=[p])
                    try:
                        out = obj.time_series(2, init_action_dist=arr, random_state=rec)
                    except Exception as e:
                        ctx.spec_fail("brd_exception", "BRD.time_series raised %s: %s" % (type(e).__name__, e),
                                      {"op": "brd", "A": A, "N": N, "d0": d0, "player_ind_seq": [p]})
                        continue
                    final = [int(v) for v in out[1]]
                    if [int(v) for v in arr] != d0:
                        ctx.spec_fail("brd_time_series_overwrites_init", "time_series overwrote the caller's init_action_dist",
                                      {"op": "brd", "A": A, "N": N, "d0": d0, "player_ind_seq": [p]})
                    a = locate_exact(d0, p)
                    oth = list(d0)
                    oth[a] -= 1
                    b = br_set_exact(matvec(A, oth))[0]
                    oth[b] += 1
                    if final != oth or [int(v) for v in out[0]] != d0:
                        ctx.spec_fail("brd_transition", "one-step BRD %s p=%d -> %s, definition gives %s" % (d0, p, final, oth),
                                      {"op": "brd", "A": A, "N": N, "d0": d0, "player_ind_seq": [p]})
                    line = ("C20 brd mode=rat kind=brd A=%s tol=%s rnd=0 d0=%s ps=%d ri=- eps=%s us=- samples=-"
                            % (intm(A), fx(TOL), ints(d0), p, fx(0.0)))
                    cases.append(Case(line, "%s|%s|0" % (intm([d0]), ints(final)), nontrivial=(final != d0), tag="brd1"))


def brd_exhaustive_paths(ctx, cases):
    """every sequence of revising players of length L, every initial condition, for small N and a fixed set
    of games with ties (coordination, anti-coordination, all-tie, dominant action, 3 actions)"""
    games = [[[4, 0], [3, 2]], [[0, 1], [1, 0]], [[1, 1], [1, 1]], [[2, 2], [0, 0]],
             [[1, 0, 0], [0, 1, 0], [0, 0, 1]], [[0, 1, 1], [1, 0, 1], [1, 1, 0]]]
    Ns, L = ((2, 3, 4), 4) if ctx.thorough else ((2, 3), 3)
    for A in games:
        n = len(A)
        for N in Ns:
            for d0 in (c for c in itertools.product(range(N + 1), repeat=n) if sum(c) == N):
                for seq in itertools.product(range(N), repeat=L):
                    brd_case(ctx, cases, {"kind": "brd", "A": A, "N": N, "T": L, "tie_breaking": "smallest", "eps": 0.0,
                                          "k": 1, "d0": list(d0), "ps": list(seq), "seed": 0})
                    ctx.count("brd:exhaustive-path")


# ----------------------------------------------------------------------------
# FictitiousPlay / StochasticFictitiousPlay

def fp_cmp_float(mo, impl):
    return None if mo == impl else "beliefs differ in bits (Float run of the model)"


def fp_last(mo):
    """keep only the last belief rows of a model answer (for `play`, which returns the final profile)"""
    parts = mo.split("|")
    if len(parts) < 3:
        return mo
    return "|".join([q.split(";")[-1] for q in parts[:-1]] + [parts[-1]])


def fp_cmp_rat(mo, impl):
    try:
        mparts, iparts = mo.split("|"), impl.split("|")
        if len(mparts) != len(iparts):
            return "number of players"
        if mparts[-1] != iparts[-1]:
            return "number of tie draws consumed differs"
        for ms, is_ in zip(mparts[:-1], iparts[:-1]):
            mr, ir = ms.split(";"), is_.split(";")
            if len(mr) != len(ir):
                return "row count"
            for a, b in zip(mr, ir):
                av, bv = a.split(","), b.split(",")
                if len(av) != len(bv):
                    return "row length"
                for x, y in zip(av, bv):
                    if abs(Fraction(x) - Fraction(unfx(y))) > Fraction(1, 10 ** 9):
                        return "belief outside 1e-9 of the exact run"
        return None
    except Exception as e:   # malformed answer
        return "unparsable model answer: %s" % e


def simplex_point(rng, n):
    kind = rng.randrange(3)
    if kind == 0:
        v = [0.0] * n
        v[rng.randrange(n)] = 1.0
        return v
    den = rng.choice([2, 4, 8]) if kind == 1 else rng.choice([3, 5, 7, 10])
    c = composition(rng, den, n)
    v = [ci / den for ci in c]
    return v


def fp_family(ctx, cases, n_cases):
    from quantecon.game_theory import FictitiousPlay, StochasticFictitiousPlay, NormalFormGame, Player
    rng = ctx.rng
    for ci in range(n_cases):
        sfp = ci % 3 == 2
        n0 = rng.randint(1, 4)
        sym = rng.random() < 0.5 and n0 >= 2      # NormalFormGame([[v]]) is a 1-player game
        n1 = n0 if sym else rng.randint(1, 4)
        A0 = rand_payoff(rng, n0) if sym else [[rng.randint(-3, 3) for _ in range(n1)] for _ in range(n0)]
        A1 = A0 if sym else [[rng.randint(-3, 3) for _ in range(n0)] for _ in range(n1)]
        g = NormalFormGame(A0) if sym else NormalFormGame((Player(A0), Player(A1)))
        gain = rng.choice([None, None, 0.5, 0.25, 0.1, 1.0, 0.75])
        T = rng.choice([2, 3, 6, 15, 40]) if ci % 9 else 200
        t_init = rng.choice([0, 0, 3, 10])
        rnd = rng.random() < 0.4
        tb = "random" if rnd else "smallest"
        x0, x1 = simplex_point(rng, n0), simplex_point(rng, n1)
        pure = rng.random() < 0.2
        if pure:
            a0, a1 = rng.randrange(n0), rng.randrange(n1)
            init = (a0, a1)
            x0 = [1.0 if i == a0 else 0.0 for i in range(n0)]
            x1 = [1.0 if i == a1 else 0.0 for i in range(n1)]
        else:
            init = (np.array(x0), np.array(x1))
        rec = Rec(rng.randrange(2 ** 31), ri=[rng.randrange(12) for _ in range(2 * T)] if rng.random() < 0.5 else None)
        forms = rng.random() < 0.5
        T_arg, tinit_arg, fins, narrow = T, t_init, [], False
        if forms:
            ctx.count("forms:fp")
            A0f = varr2(rng, A0, PAY_DT)
            A1f = A0f
            if not sym:      # documented: the players' payoff dtypes must coincide
                dt = rng.choice(PAY_DT)
                A0f, A1f = varr2(rng, A0, [dt], plain=0.0), varr2(rng, A1, [dt], plain=0.0)
                A0f = A0f if isinstance(A0f, np.ndarray) else np.array(A0, dtype=dt)
                A1f = A1f if isinstance(A1f, np.ndarray) else np.array(A1, dtype=dt)
            if sym and isinstance(A0f, tuple):      # (a tuple is read as a tuple of Players by NormalFormGame)
                A0f = [list(r) for r in A0f]
            g = NormalFormGame(A0f) if sym else NormalFormGame((Player(A0f), Player(A1f)))
            gain = None if gain is None else vfloat(rng, gain)
            T_arg, tinit_arg = vint(rng, T), vint(rng, t_init)
            if isinstance(tinit_arg, np.uint64):     # (uint64 + int64 promotes to float64 in NumPy: not usable as a period)
                tinit_arg = np.uint32(t_init)
            if isinstance(tinit_arg, np.integer) and t_init + T + 2 > np.iinfo(type(tinit_arg)).max:
                # `t_init + j - 1`, `t_init + num_reps` and `t + 2` are evaluated in the width of t_init: OverflowError
                # or a silently wrapped period index (negative step size / empty range)
                # (fixed by 7129e15: int(t_init), int(num_reps)); the case now runs like any other, and is additionally
                # compared with the plain-int call under the regression key fp_narrow_int_t_init
                ctx.count("forms:fp-narrow-int-period-arithmetic")
                narrow = True
            if pure:
                init = rng.choice([tuple, list])([vint(rng, a0, plain=0.2), vint(rng, a1, plain=0.2)])
            else:
                def xf(x):
                    dts = [np.float64] + ([np.float32] if all(float(np.float32(v)) == v for v in x) else [])
                    return varr1(rng, x, dts)[0]
                init = rng.choice([tuple, list])([xf(x0), xf(x1)])
            fins = [A0f, A1f, init]
        if sfp:
            dist = ScriptedDist(rng)
            obj = StochasticFictitiousPlay(g, distribution=dist, gain=gain)
        else:
            dist = None
            obj = FictitiousPlay(g, gain=gain)
        gain = None if gain is None else float(gain)
        fsnaps = [snap(x) for x in fins]
        use_play = rng.random() < 0.3
        init_none = (not use_play) and rng.random() < 0.15
        if init_none:
            init = None
            ctx.count("fp:init-drawn-by-the-code")
        try:
            if use_play:
                nr = vint(rng, T - 1) if forms else T - 1
                nr = np.uint32(T - 1) if isinstance(nr, np.uint64) else nr
                if isinstance(nr, np.integer) and t_init + T + 2 > np.iinfo(type(nr)).max:
                    narrow = True       # (same width problem through `t_init + num_reps`)
                    ctx.count("forms:fp-narrow-int-period-arithmetic")
                fin = obj.play(actions=init, num_reps=nr, t_init=tinit_arg,
                               tie_breaking=tb, random_state=rec)
                out = ([fin[0]], [fin[1]])
                ctx.count("fp:play()")
            else:
                out = obj.time_series(T_arg, init_actions=init, t_init=tinit_arg, tie_breaking=tb, random_state=rec)
            if [snap(x) for x in fins] != fsnaps:
                ctx.spec_fail("fp_input_modified", "an argument (payoffs / initial actions) was modified",
                              {"op": "fp", "A0": A0, "A1": A1, "x0": x0, "x1": x1})
            if init is not None and any(shares(np.asarray(o), [x for x in init if isinstance(x, np.ndarray)])
                                        for o in out if isinstance(o, np.ndarray)):
                ctx.spec_fail("fp_alias", "a returned belief array shares memory with an input", {"op": "fp", "A0": A0})
        except Exception as e:
            ctx.spec_fail("fp_narrow_int_t_init" if narrow else "fp_exception",
                          "time_series/play raised %s: %s" % (type(e).__name__, e),
                          {"op": "sfp" if sfp else "fp", "A0": A0, "A1": A1, "gain": gain, "T": T, "t_init": t_init,
                           "t_init_form": type(tinit_arg).__name__, "tie_breaking": tb, "x0": x0, "x1": x1})
            continue
        if narrow and init is not None:
            # regression check of 7129e15: the same call with plain Python ints (same draws) must give the same bits
            try:
                o2 = StochasticFictitiousPlay(g, distribution=ReplayDist(dist.log), gain=gain) if sfp \
                    else FictitiousPlay(g, gain=gain)
                rec2 = Rec(1, ri=list(rec.log_ri) or None)
                if use_play:
                    f2 = o2.play(actions=init, num_reps=T - 1, t_init=int(t_init), tie_breaking=tb, random_state=rec2)
                    ref = ([f2[0]], [f2[1]])
                else:
                    ref = o2.time_series(T, init_actions=init, t_init=int(t_init), tie_breaking=tb, random_state=rec2)
                same = all(np.array_equal(np.asarray(a), np.asarray(b)) for a, b in zip(out, ref))
            except Exception:
                same = False
            if not same:
                ctx.spec_fail("fp_narrow_int_t_init", "t_init=%s(%d) / num_reps as narrow NumPy integers over %d periods give a "
                              "different answer than the same call with Python ints" % (type(tinit_arg).__name__, t_init, T),
                              {"op": "fp", "A0": A0, "A1": A1, "gain": gain, "T": T, "t_init": t_init, "x0": x0, "x1": x1,
                               "t_init_form": type(tinit_arg).__name__, "play": use_play})
        r0 = [[float(v) for v in r] for r in out[0]]
        r1 = [[float(v) for v in r] for r in out[1]]
        if init_none:       # random initial beliefs: read them off the first recorded row
            x0, x1 = r0[0], r1[0]
        perts = dist.log if sfp else []
        base = ("A0=%s A1=%s tol=%s rnd=%d gain=%s tinit=%d steps=%d x0=%s x1=%s ri=%s perts=%s"
                % (fxm(A0), fxm(A1), fx(TOL), int(rnd), "none" if gain is None else fx(gain), t_init, T - 1,
                   fxs(x0), fxs(x1), ints(rec.log_ri + SENTINEL), fxm(perts) if sfp else "-"))
        impl = "%s|%s|1" % (fxm(r0), fxm(r1))
        tag = "sfp" if sfp else "fp"
        nontriv = max(n0, n1) >= 2 and T >= 3
        if use_play:
            tag += ":play"
            cases.append(Case("C20 fp mode=float " + base, impl, nontrivial=nontriv,
                              cmp=lambda mo, im: fp_cmp_float(fp_last(mo), im), tag=tag + ":float"))
            cases.append(Case("C20 fp mode=rat " + base, impl, nontrivial=nontriv,
                              cmp=lambda mo, im: fp_cmp_rat(fp_last(mo), im), tag=tag + ":rat"))
        else:
            cases.append(Case("C20 fp mode=float " + base, impl, nontrivial=nontriv, cmp=fp_cmp_float, tag=tag + ":float"))
            cases.append(Case("C20 fp mode=rat " + base, impl, nontrivial=nontriv, cmp=fp_cmp_rat, tag=tag + ":rat"))
            # the same run through the N-player model (tensor contraction on the flattened matrices)
            flat0 = [v for r in A0 for v in r]
            flat1 = [v for r in A1 for v in r]
            basen = ("N=2 tol=%s rnd=%d gain=%s tinit=%d steps=%d ri=%s flat0=%s flat1=%s x0=%s x1=%s perts=%s"
                     % (fx(TOL), int(rnd), "none" if gain is None else fx(gain), t_init, T - 1, ints(rec.log_ri + SENTINEL),
                        fxs(flat0), fxs(flat1), fxs(x0), fxs(x1), fxm(perts) if sfp else "-"))
            cases.append(Case("C20 fpn mode=float " + basen, impl, nontrivial=nontriv, cmp=fp_cmp_float,
                              tag=tag + ":via-N-player-model"))
        ctx.count("fp:ties-drawn", len(rec.log_ri))
        ctx.count("fp:gain-" + ("decreasing" if gain is None else "constant"))
        # ---- spec oracle ---------------------------------------------------------------------
        replay = {"op": tag, "A0": A0, "A1": A1, "gain": gain, "T": T, "t_init": t_init, "tie_breaking": tb,
                  "x0": x0, "x1": x1, "randint_scalars": rec.log_ri, "perturbations": perts}
        As = (A0, A1)
        rows = (r0, r1)
        if use_play and T >= 2:
            # multi-period play(num_reps, t_init) judged (a) by the literal definition chained period by period in
            # exact arithmetic (smallest tie-breaking; skipped when a payoff gap sits on the tol threshold), and
            # (b) against the composition of one-period plays and the matching time_series row fed the same draws
            ctx.count("fp:play-multi-period")
            if not rnd:
                cur = [[F(v) for v in x0], [F(v) for v in x1]]
                fragile = False
                for j in range(T - 1):
                    gam = F(1) / (t_init + j + 2) if gain is None else F(gain)
                    bs = []
                    for i in (0, 1):
                        pv = matvec(As[i], cur[1 - i])
                        if sfp:
                            pv = [a_ + F(b_) for a_, b_ in zip(pv, perts[2 * j + i])]
                        m = max(pv)
                        if any(abs((m - v) - Fraction(TOL)) < Fraction(1, 10 ** 10) for v in pv):
                            fragile = True
                        bs.append(br_set_exact(pv)[0])
                    cur = [[(1 - gam) * v + (gam if q == bs[i] else 0) for q, v in enumerate(cur[i])] for i in (0, 1)]
                if fragile:
                    ctx.count("fp:play-definition-skipped(threshold)")
                else:
                    ctx.count("fp:play-final-judged-by-definition")
                    err = max(abs(F(a_) - b_) for i in (0, 1) for a_, b_ in zip(rows[i][-1], cur[i]))
                    if err > Fraction(1, 10 ** 9):
                        ctx.spec_fail("fp_play_transition", "play(num_reps=%d, t_init=%d) differs from the definition chained "
                                      "period by period by %s" % (T - 1, t_init, float(err)), replay)
            try:
                mk = (lambda d: StochasticFictitiousPlay(g, distribution=d, gain=gain)) if sfp else (lambda d: FictitiousPlay(g, gain=gain))
                o2, rec2 = mk(ReplayDist(perts)), Rec(1, ri=list(rec.log_ri) or None)
                cur = init
                for j in range(T - 1):
                    cur = o2.play(actions=cur, num_reps=1, t_init=t_init + j, tie_breaking=tb, random_state=rec2)
                o3, rec3 = mk(ReplayDist(perts)), Rec(1, ri=list(rec.log_ri) or None)
                ts = o3.time_series(T, init_actions=init, t_init=t_init, tie_breaking=tb, random_state=rec3)
                ctx.count("fp:play-vs-composition-checks")
                same = all(np.array_equal(np.asarray(cur[i]), np.asarray(rows[i][-1])) and
                           np.array_equal(ts[i][-1], np.asarray(rows[i][-1])) for i in (0, 1))
                if not same or rec2.log_ri != rec.log_ri or rec3.log_ri != rec.log_ri:
                    ctx.spec_fail("fp_play_composition", "multi-period play() differs from the composition of one-period "
                                  "plays / the time_series row: %s vs %s vs %s"
                                  % ([r[-1] for r in rows], [list(map(float, c)) for c in cur], [t_[-1].tolist() for t_ in ts]), replay)
            except Exception as e:
                ctx.spec_fail("fp_exception", "one-period play chain raised %s: %s" % (type(e).__name__, e), replay)
        bad = False
        for j in range(len(r0)):
            for i in (0, 1):
                x = [F(v) for v in rows[i][j]]
                if any(v < -Fraction(1, 10 ** 12) for v in x) or abs(sum(x) - 1) > Fraction(1, 10 ** 9):
                    ctx.spec_fail("fp_simplex", "belief of player %d at j=%d is not a probability vector: %s"
                                  % (i, j, rows[i][j]), replay)
                    bad = True
            if bad or j == len(r0) - 1:
                break
            gam = F(1) / (t_init + j + 2) if gain is None else F(gain)
            for i in (0, 1):
                x = [F(v) for v in rows[i][j]]
                y = [F(v) for v in rows[i][j + 1]]
                opp = [F(v) for v in rows[1 - i][j]]      # previous belief of the other player
                pv = matvec(As[i], opp)
                if sfp:
                    pv = [a + F(b) for a, b in zip(pv, perts[2 * j + i])]
                diff = [yy - (1 - gam) * xx for xx, yy in zip(x, y)]
                b = max(range(len(diff)), key=lambda q: diff[q])
                target = [(1 - gam) * xx + (gam if q == b else 0) for q, xx in enumerate(x)]
                if max(abs(a - c) for a, c in zip(target, y)) > Fraction(1, 10 ** 12):
                    ctx.spec_fail("fp_update", "player %d, j=%d: belief did not move to (1-g)x + g e_b with g=%s" % (i, j, gam), replay)
                    bad = True
                    break
                slack = Fraction(1, 10 ** 10)
                S_lo = br_set_exact(pv, Fraction(TOL) - slack)
                S_hi = br_set_exact(pv, Fraction(TOL) + slack)
                if len(S_hi) > 1:
                    ctx.count("fp:tie-set>1")
                okb = (b in S_hi) if rnd else (b in (S_lo[0], S_hi[0]))
                if not okb:
                    ctx.spec_fail("fp_best_response", "player %d, j=%d: moved towards %d, best responses to the previous "
                                  "belief are %s" % (i, j, b, S_hi), replay)
                    bad = True
                    break
            if bad:
                break


def fpn_family(ctx, cases, n_cases):
    """(stochastic) fictitious play on general N-player games (N = 2, 3): Player.payoff_vector with
    several opponents (tensor contraction), all best responses before any belief update"""
    from quantecon.game_theory import FictitiousPlay, StochasticFictitiousPlay, NormalFormGame
    rng = ctx.rng
    for ci in range(n_cases):
        sfp = ci % 3 == 2
        Np = rng.choice([2, 3, 3])
        nums = [rng.randint(1, 3) for _ in range(Np)]
        if max(nums) == 1:
            nums[rng.randrange(Np)] = 2
        lo, hi = rng.choice([(-3, 3), (0, 1), (0, 2)])
        arr = np.array([[rng.randint(lo, hi) for _ in range(Np)] for _ in range(int(np.prod(nums)))],
                       dtype=float).reshape(tuple(nums) + (Np,))
        g = NormalFormGame(arr)
        gain = rng.choice([None, None, 0.5, 0.25, 0.1, 1.0])
        T = rng.choice([2, 3, 6, 15, 40]) if ci % 9 else 120
        t_init = rng.choice([0, 0, 5])
        rnd = rng.random() < 0.4
        tb = "random" if rnd else "smallest"
        xs = [simplex_point(rng, m) for m in nums]
        init = tuple(np.array(x) for x in xs)
        rec = Rec(rng.randrange(2 ** 31), ri=[rng.randrange(12) for _ in range(Np * T)] if rng.random() < 0.5 else None)
        dist = ScriptedDist(rng) if sfp else None
        obj = StochasticFictitiousPlay(g, distribution=dist, gain=gain) if sfp else FictitiousPlay(g, gain=gain)
        replay = {"op": "fpn", "nums": nums, "payoffs": arr.tolist(), "gain": gain, "T": T, "t_init": t_init,
                  "tie_breaking": tb, "init": xs}
        try:
            out = obj.time_series(T, init_actions=init, t_init=t_init, tie_breaking=tb, random_state=rec)
        except Exception as e:
            ctx.spec_fail("fp_exception", "N-player time_series raised %s: %s" % (type(e).__name__, e), replay)
            continue
        rows = [[[float(v) for v in r] for r in out[i]] for i in range(Np)]
        perts = dist.log if sfp else []
        replay.update({"randint_scalars": rec.log_ri, "perturbations": perts})
        flats = [np.asarray(p.payoff_array, dtype=float).ravel().tolist() for p in g.players]
        base = ("N=%d tol=%s rnd=%d gain=%s tinit=%d steps=%d ri=%s %s %s"
                % (Np, fx(TOL), int(rnd), "none" if gain is None else fx(gain), t_init, T - 1, ints(rec.log_ri + SENTINEL),
                   " ".join("flat%d=%s" % (i, fxs(f)) for i, f in enumerate(flats)),
                   " ".join("x%d=%s" % (i, fxs(x)) for i, x in enumerate(xs))))
        # perturbation rows can have different lengths: pad-free encoding as a matrix is fine (rows are lists)
        base += " perts=%s" % (fxm(perts) if sfp else "-")
        impl = "|".join(fxm(r) for r in rows) + "|1"
        tag = "sfpn" if sfp else "fpn"
        cases.append(Case("C20 fpn mode=float " + base, impl, nontrivial=(T >= 3), cmp=fp_cmp_float, tag=tag + ":float"))
        cases.append(Case("C20 fpn mode=rat " + base, impl, nontrivial=(T >= 3), cmp=fp_cmp_rat, tag=tag + ":rat"))
        ctx.count("fpn:players=%d" % Np)
        ctx.count("fpn:ties-drawn", len(rec.log_ri))
        # ---- spec oracle: exact tensor contraction in Fractions ------------------------------------
        pay = [[F(float(v)) for v in np.asarray(p.payoff_array, dtype=float).ravel()] for p in g.players]
        bad = False
        for j in range(T):
            for i in range(Np):
                x = [F(v) for v in rows[i][j]]
                if any(v < -Fraction(1, 10 ** 12) for v in x) or abs(sum(x) - 1) > Fraction(1, 10 ** 9):
                    ctx.spec_fail("fp_simplex", "N-player: belief of player %d at j=%d is not a probability vector" % (i, j), replay)
                    bad = True
            if bad or j == T - 1:
                break
            gam = F(1) / (t_init + j + 2) if gain is None else F(gain)
            for i in range(Np):
                x = [F(v) for v in rows[i][j]]
                y = [F(v) for v in rows[i][j + 1]]
                order = list(range(i + 1, Np)) + list(range(i))
                opp = [[F(v) for v in rows[q][j]] for q in order]      # previous beliefs, in the player's axis order
                dims = [nums[q] for q in order]
                pv = []
                for a in range(nums[i]):
                    tot = F(0)
                    for prof in itertools.product(*[range(m) for m in dims]):
                        idx = a
                        for m, o in zip(dims, prof):
                            idx = idx * m + o
                        w = F(1)
                        for q, o in enumerate(prof):
                            w *= opp[q][o]
                        tot += pay[i][idx] * w
                    pv.append(tot)
                if sfp:
                    pv = [a_ + F(b_) for a_, b_ in zip(pv, perts[Np * j + i])]
                diff = [yy - (1 - gam) * xx for xx, yy in zip(x, y)]
                b = max(range(len(diff)), key=lambda q: diff[q])
                target = [(1 - gam) * xx + (gam if q == b else 0) for q, xx in enumerate(x)]
                if max(abs(a_ - c_) for a_, c_ in zip(target, y)) > Fraction(1, 10 ** 12):
                    ctx.spec_fail("fp_update", "N-player: player %d, j=%d: belief did not move to (1-g)x + g e_b" % (i, j), replay)
                    bad = True
                    break
                slack = Fraction(1, 10 ** 10)
                S_lo = br_set_exact(pv, Fraction(TOL) - slack)
                S_hi = br_set_exact(pv, Fraction(TOL) + slack)
                if len(S_hi) > 1:
                    ctx.count("fpn:tie-set>1")
                okb = (b in S_hi) if rnd else (b in (S_lo[0], S_hi[0]))
                if not okb:
                    ctx.spec_fail("fp_best_response", "N-player: player %d, j=%d moved towards %d, best responses to the "
                                  "previous beliefs are %s" % (i, j, b, S_hi), replay)
                    bad = True
                    break
            if bad:
                break


# ----------------------------------------------------------------------------
# LocalInteraction

def li_reach(A, adj, n, start, revs_list, rnd, tol, cap=600):
    """the literal definition, period by period: the set of profiles reachable from the profiles in `start`
    when, in every period, each player of the revising list best-responds (row i of the adjacency, profile at
    the START of the period, documented tie rule: smallest index / any best response) — exact Fractions.
    Returns None if the set grows beyond `cap` (random tie-breaking on long runs)."""
    N = len(adj)
    adjF = [[F(w) for w in row] for row in adj]
    AF = [[F(v) for v in row] for row in A]
    tolF = Fraction(tol)
    memo = {}

    def br(i, prof):
        key = (i, prof)
        if key not in memo:
            cnt = [sum(adjF[i][j] for j in range(N) if prof[j] == c) for c in range(n)]
            S = br_set_exact([sum(a * b for a, b in zip(row, cnt)) for row in AF], tolF)
            memo[key] = S if rnd else S[:1]
        return memo[key]

    cur = set(tuple(p) for p in start)
    for rv in revs_list:
        nxt = set()
        for prof in cur:
            choices = []
            for i in rv:
                choices.append(br(i, prof))
            for combo in itertools.product(*choices):
                new = list(prof)
                for i, b in zip(rv, combo):
                    new[i] = b
                nxt.add(tuple(new))
            if len(nxt) > cap:
                return None
        cur = nxt
    return cur


# fixed LocalInteraction scenarios run first (multi-period play() with revisers whose player index differs from
# their position in the revising set, on the library's test game and a weighted directed graph)
LI_FIXED = [
    {"A": [[4, 0], [2, 3]], "adj": [[0, 1, 3], [2, 0, 1], [3, 2, 0]], "acts": [1, 0, 0], "mode": "play-nested",
     "seq": [2, 0, 0, 1], "tb": "smallest"},
    {"A": [[4, 0], [2, 3]], "adj": [[0, 1, 3], [2, 0, 1], [3, 2, 0]], "acts": [1, 0, 0], "mode": "play-nested",
     "seq": [[1, 2], 0, [2], 1, [0, 2]], "tb": "smallest"},
    {"A": [[4, 0], [2, 3]], "adj": [[0, 1, 3], [2, 0, 1], [3, 2, 0]], "acts": [0, 1, 1], "mode": "play-nested",
     "seq": [1, 2, 0, 2, 1, 0], "tb": "random"},
    {"A": [[4, 0], [2, 3]], "adj": [[0, 1, 3], [2, 0, 1], [3, 2, 0]], "acts": [1, 0, 0], "mode": "ts-nested",
     "seq": [[2, 0], 1, [0, 1], 2], "tb": "smallest"},
    {"A": [[4, 0], [2, 3]], "adj": [[0, 1, 3], [2, 0, 1], [3, 2, 0]], "acts": [1, 1, 0], "mode": "play-sim",
     "T": 5, "tb": "smallest"},
]


def li_family(ctx, cases, n_cases):
    from quantecon.game_theory import LocalInteraction
    rng = ctx.rng
    for ci in range(-len(LI_FIXED), n_cases):
        fixed = LI_FIXED[ci + len(LI_FIXED)] if ci < 0 else None
        n = rng.randint(1, 4)
        N = rng.choice([1, 2, 3, 4, 5, 6, 6, 5])
        A = rand_payoff(rng, n, kind=rng.choice([0, 2, 4, 4, 1, 3, 2, 4]))
        dens = rng.choice([0.3, 0.6, 1.0])
        adj = [[(rng.choice([0.25, 0.5, 1.0, 1.0, 2.0]) if (rng.random() < dens and (i != j or rng.random() < 0.2)) else 0.0)
                for j in range(N)] for i in range(N)]
        T = rng.choice([2, 3, 6, 15, 30]) if ci % 9 else 200
        rnd = rng.random() < 0.4
        tb = "random" if rnd else "smallest"
        acts = [rng.randrange(n) for _ in range(N)]
        rec = Rec(rng.randrange(2 ** 31), ri=[rng.randrange(12) for _ in range(T * N)] if rng.random() < 0.5 else None)
        li = LocalInteraction(A, adj)
        tol_opt = rng.choice([None, None, None, 0.0, 0.5, 1.0, 2.0])
        tol = TOL if tol_opt is None else tol_opt
        kw = {} if tol_opt is None else {"tol": tol_opt}
        if tol_opt is not None:
            ctx.count("li:tol-option")
        mode = rng.choice(["sim", "async-inject", "async-record", "play-nested", "play-nested", "play-sim", "ts-nested"])
        seq = None
        if mode == "async-inject":
            seq = [rng.randrange(N) for _ in range(T)]
        elif mode in ("play-nested", "ts-nested"):
            # a sequence whose entries are single players or lists of players (not necessarily sorted)
            seq = []
            for _ in range(min(T, 12)):
                if rng.random() < 0.5:
                    seq.append(rng.randrange(N))
                else:
                    seq.append(rng.sample(range(N), rng.randint(1, N)))
        init_none = rng.random() < 0.15
        if fixed is not None:
            A, adj, acts, mode, tb = fixed["A"], fixed["adj"], list(fixed["acts"]), fixed["mode"], fixed["tb"]
            n, N, rnd, seq, T = len(A), len(adj), tb == "random", fixed.get("seq"), fixed.get("T", 6)
            if seq is not None:
                T = len(seq) + (1 if mode == "ts-nested" else 0)
            init_none, tol_opt, tol, kw = False, None, TOL, {}
            li = LocalInteraction(A, adj)
            rec = Rec(12345)
            ctx.count("li:fixed-scenarios")
        if mode == "ts-nested":
            T = len(seq) + 1
        ctx.count("li:" + mode)
        acts_arg = None if init_none else tuple(acts)
        forms = fixed is None and rng.random() < 0.5
        T_f, seq_f, ins, omit_tb = T, seq, [], False
        if forms:
            ctx.count("forms:li")
            A_f = varr2(rng, A, PAY_DT)
            if rng.random() < 0.5:
                adj_f, fmt = vsparse(rng, adj)
                ctx.count("forms:li-adj-" + fmt)
            else:
                adj_f = varr2(rng, adj, [np.float32, np.float64])
                if isinstance(adj_f, tuple):       # scipy reads a tuple as (data, indices): not an accepted form
                    adj_f = [list(r) for r in adj_f]
            li = LocalInteraction(A_f, adj_f)
            T_f = vint(rng, T)
            if not init_none:
                acts_arg = varr1(rng, acts, [np.int8, np.int32, np.int64, np.uint8, np.intp])[0]
                if isinstance(acts_arg, list) and rng.random() < 0.5:
                    acts_arg = [vint(rng, a_, plain=0.0) for a_ in acts]
            if seq is not None:
                # (a 0-d array is not a numbers.Integral: as an entry of player_ind_seq it is not an accepted form)
                conv = lambda e: vint(rng, e, plain=0.3, zero_d=False) if isinstance(e, int) else \
                    varr1(rng, e, [np.int32, np.int64, np.intp, np.uint8])[0]
                seq_f = [conv(e) for e in seq]
                # (a tuple entry is read by scipy's indexing as a (row, col) index: not an accepted form for a set)
                seq_f = [list(e) if isinstance(e, tuple) else e for e in seq_f]
                if all(isinstance(e, int) for e in seq) and rng.random() < 0.5:
                    seq_f = rng.choice([tuple(seq), np.array(seq), np.array(seq, dtype=np.uint8), np.array(seq[::-1])[::-1]])
            if rng.random() < 0.3:
                li.tie_breaking = tb
                omit_tb = True
            ins = [A_f, adj_f, acts_arg, seq_f]
        kw = dict(kw) if omit_tb else dict(kw, tie_breaking=tb)
        snaps = [snap(x) for x in ins]
        try:
            if mode == "sim":
                out = li.time_series(T_f, revision="simultaneous", actions=acts_arg, random_state=rec, **kw)
            elif mode == "async-inject":
                out = li.time_series(T_f, revision="asynchronous", actions=acts_arg, player_ind_seq=seq_f,
                                     random_state=rec, **kw)
            elif mode == "async-record":
                out = li.time_series(T_f, "asynchronous", actions=acts_arg, random_state=rec, **kw)
            elif mode == "play-sim":
                out = li.play(revision="simultaneous", actions=acts_arg,
                              num_reps=vint(rng, min(T, 12) - 1) if forms else min(T, 12) - 1, random_state=rec, **kw)
            elif mode == "ts-nested":
                out = li.time_series(T_f, revision="asynchronous", actions=acts_arg, player_ind_seq=seq_f,
                                     random_state=rec, **kw)
            else:
                out = li.play("asynchronous", acts_arg, seq_f, random_state=rec, **kw)
        except Exception as e:
            ctx.spec_fail("li_exception", "LocalInteraction %s raised %s: %s" % (mode, type(e).__name__, e),
                          {"op": "li:" + mode, "A": A, "adj": adj, "actions": acts, "player_ind_seq": seq,
                           "tie_breaking": tb, "T": T})
            continue
        if [snap(x) for x in ins] != snaps:
            ctx.spec_fail("li_input_modified", "an argument (payoffs / adjacency / actions / player_ind_seq) was modified",
                          {"op": "li:" + mode, "A": A, "adj": adj, "actions": acts, "player_ind_seq": seq})
        if shares(out, [x for x in ins if isinstance(x, np.ndarray)]):
            ctx.spec_fail("li_alias", "the result shares memory with an input", {"op": "li:" + mode, "A": A, "adj": adj})
        if init_none:     # the code drew the initial profile itself: N scalar randint(n) draws come first
            acts, rec.log_ri = rec.log_ri[:N], rec.log_ri[N:]
            ctx.count("li:init-drawn-by-the-code")
        if mode == "sim":
            revs = [list(range(N))] * (T - 1)
            rows = [[int(v) for v in r] for r in out]
        elif mode == "async-inject":
            revs = [[p] for p in seq[:T - 1]]
            rows = [[int(v) for v in r] for r in out]
        elif mode == "async-record":
            revs = [[p] for p in rec.log_ps[0][:T - 1]]
            rows = [[int(v) for v in r] for r in out]
        elif mode == "play-sim":
            revs = [list(range(N))] * (min(T, 12) - 1)
            rows = None
            final = [int(v) for v in out]
        elif mode == "ts-nested":
            # what the code does: time_series hands entry t to play() as a *sequence*, so a list entry [i, j]
            # is revised one player after the other inside period t (NOT simultaneously)
            periods = [[[p]] if isinstance(p, int) else [[q] for q in p] for p in seq[:T - 1]]
            revs = [r for per in periods for r in per]
            bounds = [0]
            for per in periods:
                bounds.append(bounds[-1] + len(per))
            rows = [[int(v) for v in r] for r in out]
        else:
            revs = [[p] if isinstance(p, int) else list(p) for p in seq]
            rows = None
            final = [int(v) for v in out]
        line = ("C20 li mode=rat A=%s adj=%s tol=%s rnd=%d actions=%s revs=%s ri=%s"
                % (intm(A), fxm(adj), fx(tol), int(rnd), ints(acts), intm(revs), ints(rec.log_ri + SENTINEL)))
        replay = {"op": "li:" + mode, "A": A, "adj": adj, "actions": acts, "revisers": revs, "tie_breaking": tb,
                  "tol": tol, "randint_scalars": rec.log_ri}
        ctx.count("li:ties-drawn", len(rec.log_ri))
        if rows is None:
            def cmp_last(mo, impl):
                try:
                    body, rest = mo.split("|")
                    return None if body.split(";")[-1] + "|" + rest == impl else "final profile differs"
                except Exception as e:
                    return "unparsable: %s" % e
            cases.append(Case(line, "%s|1" % ints(final), nontrivial=(n >= 2 and N >= 2), cmp=cmp_last, tag="li:play"))
            if any(not (0 <= v < n) for v in final):
                ctx.spec_fail("li_range", "action outside the action set: %s" % final, replay)
            # non-revisers never change
            touched = set(p for r in revs for p in r)
            for i in range(N):
                if i not in touched and final[i] != acts[i]:
                    ctx.spec_fail("li_async_untouched", "player %d never revised but changed" % i, replay)
            # the final profile judged by the literal definition applied period by period
            reach = li_reach(A, adj, n, [acts], revs, rnd, tol)
            if reach is None:
                ctx.count("li:play-oracle-skipped(set too large)")
            else:
                ctx.count("li:play-final-judged-by-definition")
                if len(revs) >= 2:
                    ctx.count("li:play-multi-period")
                if tuple(final) not in reach:
                    ctx.spec_fail("li_play_transition",
                                  "play(%s) from %s over revisers %s returned %s; the definition applied period by "
                                  "period allows %s" % (mode, acts, revs, final, sorted(reach)[:4]), replay)
            # multi-period play() == composition of one-period plays == matching time_series row
            if not rnd and not init_none:
                try:
                    cur = tuple(acts)
                    for rv in revs:
                        cur = li.play(revision="asynchronous", actions=cur, player_ind_seq=[list(rv)], **kw)
                    comp = [int(v) for v in cur]
                    ts = None
                    if all(len(rv) == 1 for rv in revs):
                        ts = li.time_series(len(revs) + 1, revision="asynchronous", actions=tuple(acts),
                                            player_ind_seq=[rv[0] for rv in revs], **kw)
                    elif mode == "play-sim":
                        ts = li.time_series(len(revs) + 1, revision="simultaneous", actions=tuple(acts), **kw)
                    ctx.count("li:play-vs-composition-checks")
                    if comp != final or (ts is not None and [int(v) for v in ts[-1]] != final):
                        ctx.spec_fail("li_play_composition",
                                      "multi-period play() = %s, composition of one-period plays = %s, time_series row = %s"
                                      % (final, comp, None if ts is None else ts[-1].tolist()), replay)
                except Exception as e:
                    ctx.spec_fail("li_exception", "one-period play / time_series raised %s: %s" % (type(e).__name__, e), replay)
            continue
        if mode == "ts-nested":
            def cmp_bounds(mo, impl, bounds=bounds):
                try:
                    body, rest = mo.split("|")
                    rws = body.split(";")
                    return None if ";".join(rws[b] for b in bounds) + "|" + rest == impl else "trajectory differs"
                except Exception as e:
                    return "unparsable: %s" % e
            cases.append(Case(line, "%s|1" % intm(rows), nontrivial=(n >= 2 and N >= 2), cmp=cmp_bounds, tag="li:ts-nested"))
            for t in range(T - 1):
                reach = li_reach(A, adj, n, [rows[t]], periods[t], rnd, tol)
                if reach is not None and tuple(rows[t + 1]) not in reach:
                    ctx.spec_fail("li_transition", "time_series period %d with entry %s: %s -> %s, sequential revision "
                                  "of the entry allows %s" % (t, seq[t], rows[t], rows[t + 1], sorted(reach)[:4]), replay)
                    break
                sim = li_reach(A, adj, n, [rows[t]], [[q for r_ in periods[t] for q in r_]], rnd, tol)
                if len(periods[t]) > 1 and sim is not None and tuple(rows[t + 1]) not in sim:
                    ctx.count("li:ts-list-entry-sequential-differs-from-simultaneous(observation)")
            continue
        cases.append(Case(line, "%s|1" % intm(rows), nontrivial=(n >= 2 and N >= 2 and T >= 3), tag="li:" + mode))
        # ---- spec oracle -------------------------------------------------------------------
        for t in range(T):
            if any(not (0 <= v < n) for v in rows[t]):
                ctx.spec_fail("li_range", "action outside the action set at t=%d: %s" % (t, rows[t]), replay)
                break
            if t == T - 1:
                break
            old, new = rows[t], rows[t + 1]
            ok = True
            for i in range(N):
                if i not in revs[t]:
                    if new[i] != old[i]:
                        ctx.spec_fail("li_async_untouched", "t=%d: player %d did not revise but changed" % (t, i), replay)
                        ok = False
                    continue
                cnt = [sum(F(adj[i][j]) for j in range(N) if old[j] == c) for c in range(n)]
                S = br_set_exact(matvec(A, cnt), Fraction(tol))
                if len(S) > 1:
                    ctx.count("li:tie-set>1")
                allowed = S if rnd else S[:1]
                if new[i] not in allowed:
                    ctx.spec_fail("li_transition", "t=%d: player %d chose %d, best responses to the OLD profile %s are %s"
                                  % (t, i, new[i], old, allowed), replay)
                    ok = False
            if new != old:
                ctx.count("li:profile-changed")
            if not ok:
                break


def li_entry_family(ctx, cases, n_cases):
    """the public entry points LocalInteraction.play / time_series with their own argument handling:
    revision (incl. an invalid string), player_ind_seq omitted / int / sequence of ints and lists (also empty and
    too short), num_reps / ts_length (incl. 0 and 1), the drawn player sequence.  The model op `lientry` gets the
    raw arguments; the oracle derives the revising sets here, independently, and judges by `li_reach`."""
    from quantecon.game_theory import LocalInteraction
    rng = ctx.rng
    for ci in range(n_cases):
        n, N = rng.randint(2, 3), rng.randint(2, 5)
        A = rand_payoff(rng, n, kind=rng.choice([0, 2, 4, 1]))
        adj = [[(rng.choice([0.5, 1.0, 2.0]) if i != j and rng.random() < 0.7 else 0.0) for j in range(N)] for i in range(N)]
        acts = [rng.randrange(n) for _ in range(N)]
        rnd = rng.random() < 0.3
        tb = "random" if rnd else "smallest"
        call = rng.choice(["play", "time_series"])
        revision = rng.choice(["simultaneous", "asynchronous", "asynchronous", "asynchronous"])
        if rng.random() < 0.08:
            revision = rng.choice(["sequential", "", "Simultaneous"])
            ctx.count("li-entry:invalid-revision")
        cnt = rng.choice([0, 1, 2, 3, 4, 6])
        kind = rng.choice(["none", "int", "list", "list", "list"])
        if kind == "none":
            arg_py, arg_w, entries = None, "none", None
        elif kind == "int":
            p_ = rng.randrange(N)
            arg_py, arg_w, entries = p_, "i%d" % p_, None
        else:
            L = rng.choice([0, 1, 2, cnt, cnt + 1, max(cnt - 1, 0), 5])
            entries = [rng.randrange(N) if rng.random() < 0.55 else rng.sample(range(N), rng.randint(1, N)) for _ in range(L)]
            arg_py = [e if isinstance(e, int) else list(e) for e in entries]
            arg_w = "l:" + ",".join(str(e) if isinstance(e, int) else "s" + "+".join(map(str, e)) for e in entries)
        rec = Rec(rng.randrange(2 ** 31), ri=[rng.randrange(12) for _ in range(40)] if rng.random() < 0.5 else None)
        li = LocalInteraction(A, adj)
        kw = {"revision": revision, "actions": tuple(acts), "tie_breaking": tb, "random_state": rec}
        if arg_py is not None or rng.random() < 0.5:
            kw["player_ind_seq"] = arg_py
        replay = {"op": "li-entry:" + call, "A": A, "adj": adj, "actions": acts, "revision": revision,
                  "player_ind_seq": arg_py, "count": cnt, "tie_breaking": tb}
        try:
            if call == "play":
                out = li.play(num_reps=cnt, **kw)
                got = [[int(v) for v in out]]
            else:
                out = li.time_series(cnt, **kw)
                got = [[int(v) for v in r] for r in out]
            status = "ok"
        except (ValueError, TypeError, IndexError) as e:
            status, got = type(e).__name__, None
            ctx.count("li-entry:" + status)
        except Exception as e:
            ctx.spec_fail("li_exception", "%s raised %s: %s" % (call, type(e).__name__, e), replay)
            continue
        drawn = rec.log_ps[0] if rec.log_ps else []
        replay.update({"drawn": drawn, "randint_scalars": rec.log_ri, "result": got, "status": status})
        # ---- what the documentation-as-code prescribes, derived independently of the model
        valid_rev = revision in ("simultaneous", "asynchronous")
        if not valid_rev:
            want, periods = "ValueError", None
        elif call == "play":
            want = "ok"
            if revision == "simultaneous":
                periods = [[list(range(N))] for _ in range(cnt)]
            elif kind == "none":
                periods = [[[p_]] for p_ in drawn[:cnt]]
            elif kind == "int":
                periods = [[[arg_py]]]
            else:
                periods = [[[e] if isinstance(e, int) else list(e)] for e in entries]
        else:
            if cnt == 0:
                want, periods = "IndexError", None
            elif revision == "simultaneous":
                want, periods = "ok", [[list(range(N))] for _ in range(cnt - 1)]
            elif kind == "none":
                want, periods = "ok", [[[p_]] for p_ in drawn[:cnt - 1]]
            elif kind == "int":
                want, periods = ("TypeError", None) if cnt >= 2 else ("ok", [])
            elif len(entries) < cnt - 1:
                want, periods = "IndexError", None
            else:      # a list entry is handed to play() as a sequence: its players revise one after the other
                want, periods = "ok", [[[e]] if isinstance(e, int) else [[q] for q in e] for e in entries[:cnt - 1]]
        if status != want:
            ctx.spec_fail("li_entry_status", "%s(revision=%r, player_ind_seq=%r, %d): outcome %s, expected %s"
                          % (call, revision, arg_py, cnt, status, want), replay)
        elif status == "ok":
            chain = ([acts] + got) if call == "play" else got
            if call == "time_series" and (len(got) != cnt or got[0] != acts):
                ctx.spec_fail("li_entry_rows", "time_series returned %d rows for ts_length=%d / wrong first row" % (len(got), cnt), replay)
            else:
                steps = [[r for per in periods for r in per]] if call == "play" else periods
                for t in range(len(chain) - 1):
                    reach = li_reach(A, adj, n, [chain[t]], steps[t], rnd, TOL)
                    if reach is not None and tuple(chain[t + 1]) not in reach:
                        ctx.spec_fail("li_entry_transition", "%s(revision=%r, player_ind_seq=%r, %d) from %s: %s -> %s is not "
                                      "what the revising sets %s prescribe" % (call, revision, arg_py, cnt, acts, chain[t],
                                                                             chain[t + 1], steps[t]), replay)
                        break
                ctx.count("li-entry:judged-by-definition")
        ctx.count("li-entry:%s:%s:%s" % (call, revision if valid_rev else "invalid", kind))
        line = ("C20 lientry mode=rat call=%s A=%s adj=%s tol=%s rnd=%d actions=%s revision=%s arg=%s n=%d drawn=%s ri=%s"
                % (call, intm(A), fxm(adj), fx(TOL), int(rnd), ints(acts), revision or "empty", arg_w, cnt, ints(drawn),
                   ints(rec.log_ri + SENTINEL)))
        impl = ("ERR:" + status) if status != "ok" else \
            ("%s|1" % ints(got[0]) if call == "play" else "%s|1" % intm(got))
        cases.append(Case(line, impl, nontrivial=(status == "ok" and cnt >= 2), tag="lientry:" + call))


# ----------------------------------------------------------------------------
# LogitDynamics

def logit_family(ctx, cases, n_cases):
    from quantecon.game_theory import LogitDynamics, NormalFormGame
    rng = ctx.rng
    for ci in range(n_cases):
        Np = rng.choice([2, 3, 3])
        if Np == 2 and rng.random() < 0.6:
            n = rng.randint(2, 4)
            A = rand_payoff(rng, n)
            g = NormalFormGame(A)
            nums = [n, n]
        else:
            nums = [rng.randint(1, 3) for _ in range(Np)]
            if Np == 3 and rng.random() < 0.7:
                nums = rng.sample([2, 3, 3, 2, 1], 3)
            arr = np.array([[rng.randint(-3, 3) for _ in range(Np)] for _ in range(int(np.prod(nums)))],
                           dtype=float).reshape(tuple(nums) + (Np,))
            g = NormalFormGame(arr)
        beta = rng.choice([0.0, 0.5, 1.0, 2.0, 30.0, 400.0])
        before = [np.array(p.payoff_array, copy=True) for p in g.players]
        lforms = rng.random() < 0.5
        ld = LogitDynamics(g, beta=vfloat(rng, beta)) if lforms else LogitDynamics(g, beta=beta)
        if any(not np.array_equal(b, p.payoff_array) for b, p in zip(before, g.players)):
            ctx.spec_fail("logit_payoffs_modified", "LogitDynamics changed the game's payoffs", {"nums": nums, "beta": beta})
        tabs = [np.asarray(c).reshape(-1, nums[i]) for i, c in enumerate(ld.logit_choice_cdfs())]
        T = rng.choice([2, 5, 15, 40]) if ci % 9 else 200
        acts = [rng.randrange(m) for m in nums]
        # uniforms: extremes, exact cell boundaries, generic
        us = []
        for _ in range(T):
            kind = rng.randrange(6)
            if kind == 0:
                us.append(UMAX); ctx.count("logit:u=1-2^-53")
            elif kind == 1:
                us.append(0.0); ctx.count("logit:u=0")
            elif kind == 2:
                i = rng.randrange(Np)
                row = tabs[i][rng.randrange(tabs[i].shape[0])]
                us.append(min(UMAX, float(row[rng.randrange(len(row))] / row[-1]))); ctx.count("logit:u-on-boundary")
            else:
                us.append(rng.random())
        inject_ps = rng.random() < 0.6
        ps = [rng.randrange(Np) for _ in range(T)] if inject_ps else None
        rec = Rec(rng.randrange(2 ** 31), ps=ps, us=us)
        use_play = rng.random() < 0.3
        seq = [rng.randrange(Np) for _ in range(T)] if use_play else None
        init_none = rng.random() < 0.15
        acts_arg = None if init_none else tuple(acts)
        seq_f, T_f = seq, T
        if lforms:
            ctx.count("forms:logit")
            T_f = vint(rng, T)
            if not init_none:
                acts_arg = varr1(rng, acts, [np.int8, np.int32, np.int64, np.uint8, np.intp])[0]
                if isinstance(acts_arg, list) and rng.random() < 0.5:
                    acts_arg = [vint(rng, a_, plain=0.0) for a_ in acts]
            if seq is not None:
                seq_f = rng.choice([list(seq), tuple(seq), np.array(seq), np.array(seq, dtype=np.uint8),
                                    np.array(seq[::-1])[::-1], [vint(rng, e, plain=0.0) for e in seq]])
        lsn = [snap(acts_arg), snap(seq_f)]
        try:
            if use_play:
                out = ld.play(acts_arg, seq_f, random_state=rec) if lforms else \
                    ld.play(init_actions=acts_arg, player_ind_seq=seq, random_state=rec)
            else:
                out = ld.time_series(T_f, init_actions=acts_arg, random_state=rec)
            if [snap(acts_arg), snap(seq_f)] != lsn:
                ctx.spec_fail("logit_input_modified", "init_actions / player_ind_seq was modified", {"nums": nums})
            if shares(out if isinstance(out, np.ndarray) else None, [acts_arg, seq_f]):
                ctx.spec_fail("logit_alias", "the result shares memory with an input", {"nums": nums})
        except Exception as e:
            ctx.spec_fail("logit_exception", "LogitDynamics raised %s: %s" % (type(e).__name__, e),
                          {"op": "logit", "nums": nums, "beta": beta, "actions": acts, "player_ind_seq": seq or ps,
                           "uniforms": us, "payoffs": [p_.payoff_array.tolist() for p_ in g.players]})
            continue
        if init_none:
            acts, rec.log_ri = rec.log_ri[:Np], rec.log_ri[Np:]
            ctx.count("logit:init-drawn-by-the-code")
        if rec.log_ri:
            ctx.spec_fail("logit_draws", "unexpected scalar randint draws in LogitDynamics", {"nums": nums})
        if use_play:
            ps_used = seq
            rows = None
            final = [int(v) for v in out]
        else:
            ps_used = rec.log_ps[0]
            rows = [[int(v) for v in r] for r in out]
        us_used = rec.log_us
        # exact replay of the definition (oracle): count of cdf entries <= u*cdf[-1]
        sensitive = False
        cur = list(acts)
        orc = [list(cur)]
        for p, u in zip(ps_used, us_used):
            opp = tuple(cur[p + 1:]) + tuple(cur[:p])
            cdf = ld.logit_choice_cdfs()[p][opp]
            vf = F(float(u) * float(cdf[-1]))
            ve = F(u) * F(float(cdf[-1]))
            af = sum(1 for c in cdf if F(float(c)) <= vf)
            ae = sum(1 for c in cdf if F(float(c)) <= ve)
            if af != ae:
                sensitive = True
            if any(F(float(c)) == vf for c in cdf):
                ctx.count("logit:u*cdf[-1]-equals-a-cdf-entry(side=right-matters)")
            cur[p] = af
            orc.append(list(cur))
        if sensitive:
            ctx.count("logit:rounding-sensitive-step")
        base = ("nums=%s actions=%s ps=%s us=%s %s" % (ints(nums), ints(acts), ints(ps_used), fxs(us_used),
                " ".join("cdf%d=%s" % (i, fxm(t.tolist())) for i, t in enumerate(tabs))))
        replay = {"op": "logit", "nums": nums, "beta": beta, "actions": acts, "player_ind_seq": ps_used,
                  "uniforms": us_used, "payoffs": [p.payoff_array.tolist() for p in g.players]}
        nontriv = max(nums) >= 2 and T >= 3
        if rows is None:
            def cmp_last(mo, impl):
                return None if mo.split(";")[-1] == impl else "final profile differs"
            cases.append(Case("C20 logit mode=float " + base, ints(final), nontrivial=nontriv, cmp=cmp_last, tag="logit:play"))
            got_seq = [final]
            if final != orc[-1]:
                ctx.spec_fail("logit_transition", "play() result %s, inverse-cdf definition gives %s" % (final, orc[-1]), replay)
            # multi-period play() == composition of one-period plays == matching time_series row (same uniforms)
            try:
                rec2 = Rec(1, us=list(us_used))
                cur = tuple(acts)
                for p_ in ps_used:
                    cur = ld.play(init_actions=cur, player_ind_seq=[p_], random_state=rec2)
                rec3 = Rec(1, ps=list(ps_used) + [0], us=list(us_used) + [0.0])
                ts = ld.time_series(len(ps_used) + 1, init_actions=tuple(acts), random_state=rec3)
                ctx.count("logit:play-vs-composition-checks")
                if [int(v) for v in cur] != final or [int(v) for v in ts[-1]] != final:
                    ctx.spec_fail("logit_play_composition", "play() = %s, composition of one-period plays = %s, "
                                  "time_series row = %s" % (final, list(cur), ts[-1].tolist()), replay)
            except Exception as e:
                ctx.spec_fail("logit_exception", "one-period play chain raised %s: %s" % (type(e).__name__, e), replay)
        else:
            def cmp_rows(mo, impl):
                return None if ";".join(mo.split(";")[:-1]) == impl else "trajectory differs"
            cases.append(Case("C20 logit mode=float " + base, intm(rows), nontrivial=nontriv, cmp=cmp_rows, tag="logit:float"))
            if not sensitive:
                cases.append(Case("C20 logit mode=rat " + base, intm(rows), nontrivial=nontriv, cmp=cmp_rows, tag="logit:rat"))
            got_seq = rows
            if rows != orc[:T]:
                ctx.spec_fail("logit_transition", "time_series differs from the inverse-cdf definition", replay)
        for r in got_seq:
            if any(not (0 <= v < m) for v, m in zip(r, nums)):
                ctx.spec_fail("logit_range", "action outside the action set: %s (nums %s)" % (r, nums), replay)
                break
        if rows is not None:
            for t in range(T - 1):
                ch = [i for i in range(Np) if rows[t][i] != rows[t + 1][i]]
                if ch:
                    ctx.count("logit:profile-changed")
                if any(i != ps_used[t] for i in ch):
                    ctx.spec_fail("logit_untouched", "a non-revising player changed at t=%d" % t, replay)
                    break


def replay(data):
    """./check C20 --replay <file>: re-run a recorded BRD/KMR/SamplingBRD failing input against the real code
    (exit 1 if the property is violated again); other replay kinds are printed."""
    from . import common
    r = data.get("replay", {})
    if r.get("op") not in ("brd", "kmr", "sbrd") or "rec_seed" not in r:
        print(json.dumps(data, indent=1))
        return 0
    ctx = common.Ctx("C20", "quick", 0, FILES)
    P = {"kind": r["op"], "A": r["A"], "N": r["N"], "T": r["T"], "tie_breaking": r["tie_breaking"], "eps": r["eps"],
         "k": r["k"], "d0": r["d0"], "malformed": r.get("malformed"), "init_none": r.get("init_none"),
         "tol": None if r.get("tol") == TOL else r.get("tol"), "seed": r["rec_seed"],
         "ps": r.get("player_ind_seq") or None, "us": r.get("uniforms") or None,
         "ri": ((r.get("init_actions") or []) + (r.get("randint_scalars") or [])) or None}
    cases = []
    brd_case(ctx, cases, P)
    for sf in ctx.spec_failures:
        print("REPRODUCED %s: %s" % (sf["key"], sf["what"]))
    if not ctx.spec_failures:
        print("not reproduced: the real code satisfies the property on this input now")
    return 1 if ctx.spec_failures else 0


def determinism_family(ctx, n_cases):
    """equal seeds give equal histories (integer seeds and Generators), all dynamics; the histories are
    also checked for state validity (range / simplex)"""
    from quantecon.game_theory import (FictitiousPlay, StochasticFictitiousPlay, LocalInteraction, LogitDynamics,
                                       NormalFormGame)
    from scipy import stats
    rng = ctx.rng
    for _ in range(n_cases):
        n = rng.randint(2, 4)
        A = rand_payoff(rng, n)
        seed = rng.randrange(2 ** 31)
        N = rng.randint(2, 6)
        adj = [[(1.0 if (i != j and rng.random() < 0.6) else 0.0) for j in range(N)] for i in range(N)]
        g = NormalFormGame(A)
        mks = {
            "fp": lambda rs: FictitiousPlay(g).time_series(15, tie_breaking="random", random_state=rs),
            "sfp": lambda rs: StochasticFictitiousPlay(g, distribution=stats.norm(scale=0.5), gain=0.25)
            .time_series(15, tie_breaking="random", random_state=rs),
            "li-sim": lambda rs: LocalInteraction(A, adj).time_series(15, tie_breaking="random", random_state=rs),
            "li-async": lambda rs: LocalInteraction(A, adj).time_series(15, revision="asynchronous",
                                                                        tie_breaking="random", random_state=rs),
            "logit": lambda rs: LogitDynamics(NormalFormGame(A), beta=1.0).time_series(15, random_state=rs),
        }
        for name, mk in mks.items():
            for flavour in ("int", "Generator"):
                rs = (lambda: seed) if flavour == "int" else (lambda: np.random.default_rng(seed))
                rp = {"op": name, "A": A, "adj": adj, "seed": seed, "stream": flavour}
                try:
                    o1, o2 = mk(rs()), mk(rs())
                except Exception as e:
                    ctx.spec_fail("%s_exception" % name.split("-")[0], "%s raised %s: %s" % (name, type(e).__name__, e), rp)
                    continue
                ctx.count("seed-determinism-checks:%s" % name)
                if name in ("fp", "sfp"):
                    same = all(np.array_equal(a, b) for a, b in zip(o1, o2))
                    valid = all(abs(float(r.sum()) - 1) < 1e-9 and float(r.min()) > -1e-12 for a in o1 for r in a)
                else:
                    same = np.array_equal(o1, o2)
                    valid = bool((o1 >= 0).all() and (o1 < n).all())
                if not same:
                    ctx.spec_fail("%s_seed" % name.split("-")[0], "equal seeds (%s) gave different histories" % flavour, rp)
                if not valid:
                    ctx.spec_fail("%s_state" % name.split("-")[0], "invalid state along a seeded history (%s)" % flavour, rp)


# ----------------------------------------------------------------------------
# histories on one object: repeated / interleaved calls, attribute reassignment and in-place edits of the
# object's arrays between calls, reused output buffers; every earlier result is kept and re-judged

def _arrays(r):
    if isinstance(r, np.ndarray):
        return [r]
    if isinstance(r, (list, tuple)):
        return [a for e in r for a in _arrays(e)]
    return []


def _keep(ctx, kept, r, key, replay):
    """re-judge every earlier result (bitwise unchanged), check the new one does not alias them, keep it"""
    for old, sn in kept:
        if snap(old) != sn:
            ctx.spec_fail(key + "_earlier_result_changed", "a result returned earlier changed after a later call", replay)
        if any(shares(a, _arrays(old)) for a in _arrays(r)):
            ctx.spec_fail(key + "_alias", "a result shares memory with a result returned earlier", replay)
    kept.append((r, snap(r)))
    ctx.count("history:results-kept-and-rejudged")


def history_family(ctx, cases, n_cases):
    from quantecon.game_theory import (BRD, KMR, SamplingBRD, FictitiousPlay, StochasticFictitiousPlay,
                                       LocalInteraction, LogitDynamics, NormalFormGame)
    from scipy import sparse
    rng = ctx.rng
    for ci in range(n_cases):
        which = ("brd", "li", "fp", "logit")[ci % 4]
        ctx.count("history:" + which)
        kept = []
        if which == "brd":
            # one BRD/KMR/SamplingBRD object; between calls: epsilon / k / tie_breaking / N reassigned, payoff entries
            # edited in place; every call goes through the full oracle + correspondence of brd_case
            kind = rng.choice(["brd", "kmr", "sbrd"])
            n, N = rng.randint(2, 4), rng.randint(2, 8)
            A = np.array(rand_payoff(rng, n))
            eps, k, tb = rng.choice([0.0, 0.25, 1.0]), rng.choice([1, 2, 3]), rng.choice(["smallest", "random"])
            obj = {"brd": lambda: BRD(A, N), "kmr": lambda: KMR(A, N, epsilon=eps), "sbrd": lambda: SamplingBRD(A, N, k=k)}[kind]()
            obj.tie_breaking = tb
            for step in range(rng.randint(3, 6)):
                m = rng.choice({"kmr": [0, 0, 0, 2, 3, 4, 5], "sbrd": [1, 1, 1, 2, 3, 4, 5], "brd": [2, 3, 4, 4, 5]}[kind]) \
                    if step > 0 else 5
                if m == 0 and kind == "kmr":
                    eps = rng.choice([0.0, 0.1, 0.5, 1.0]); obj.epsilon = eps; ctx.count("history:set-epsilon")
                elif m == 1 and kind == "sbrd":
                    k = rng.choice([1, 2, 4]); obj.k = k; ctx.count("history:set-k")
                elif m == 2:
                    tb = rng.choice(["smallest", "random"]); obj.tie_breaking = tb; ctx.count("history:set-tie_breaking")
                elif m == 3:
                    N = rng.randint(2, 8); obj.N = N; ctx.count("history:set-N")
                elif m == 4:
                    i, j, v = rng.randrange(n), rng.randrange(n), rng.randint(-3, 4)
                    obj.player.payoff_array[i, j] = v      # in-place edit of the object's own array
                    ctx.count("history:payoff-edited-in-place")
                Acur = [[int(v) for v in r] for r in obj.player.payoff_array]
                T = rng.choice([1, 3, 8, 20])
                P = {"kind": kind, "A": Acur, "N": N, "T": T, "tie_breaking": tb, "eps": eps, "k": k,
                     "d0": composition(rng, N, n), "seed": rng.randrange(2 ** 31), "obj": obj, "omit_tie_breaking": True,
                     "ps": [rng.randrange(N) for _ in range(T)] if rng.random() < 0.5 else None}
                brd_case(ctx, cases, P)
                if P.get("_out") is not None:
                    _keep(ctx, kept, P["_out"], "brd_history", {"op": kind, "A": Acur, "N": N, "step": step})
        elif which == "li":
            n, N = rng.randint(2, 3), rng.randint(3, 6)
            A = rand_payoff(rng, n, kind=rng.choice([0, 2, 4]))
            adj = [[(rng.choice([0.5, 1.0, 2.0]) if i != j and rng.random() < 0.7 else 0.0) for j in range(N)] for i in range(N)]
            li = LocalInteraction(A, sparse.csr_matrix(np.array(adj)))
            tb = "smallest"
            acts = [rng.randrange(n) for _ in range(N)]
            for step in range(rng.randint(3, 6)):
                m = rng.randrange(4)
                if m == 0 and li.adj_matrix.nnz:
                    q = rng.randrange(li.adj_matrix.nnz)       # in-place edit of a stored weight
                    w = rng.choice([0.25, 0.5, 1.0, 3.0])
                    li.adj_matrix.data[q] = w
                    adj = li.adj_matrix.toarray().tolist()
                    ctx.count("history:adjacency-edited-in-place")
                elif m == 1:
                    tb = rng.choice(["smallest", "random"]); li.tie_breaking = tb; ctx.count("history:set-tie_breaking")
                rnd = tb == "random"
                replay = {"op": "li-history", "A": A, "adj": adj, "actions": acts, "tie_breaking": tb, "step": step}
                if rng.random() < 0.5:
                    seq = [rng.randrange(N) if rng.random() < 0.6 else rng.sample(range(N), rng.randint(1, N))
                           for _ in range(rng.randint(2, 6))]
                    revs = [[e] if isinstance(e, int) else list(e) for e in seq]
                    r = li.play(revision="asynchronous", actions=tuple(acts), player_ind_seq=seq, random_state=Rec(step))
                    got = [[int(v) for v in r]]
                    per = [revs]
                else:
                    T = rng.randint(2, 6)
                    sim = rng.random() < 0.5
                    seq = [rng.randrange(N) for _ in range(T)]
                    r = li.time_series(T, revision="simultaneous" if sim else "asynchronous", actions=tuple(acts),
                                       player_ind_seq=None if sim else seq, random_state=Rec(step))
                    got = [[int(v) for v in row] for row in r]
                    per = [[list(range(N))] if sim else [[seq[t]]] for t in range(T - 1)]
                    if got[0] != acts:
                        ctx.spec_fail("li_transition", "first row is not the initial profile", replay)
                    got, per = got, per
                # definition, period by period, with the CURRENT adjacency and tie rule
                chain = [acts] + got if len(got) == 1 else got
                for t in range(len(chain) - 1):
                    reach = li_reach(A, adj, n, [chain[t]], per[t], rnd, TOL)
                    if reach is not None and tuple(chain[t + 1]) not in reach:
                        ctx.spec_fail("li_history_transition", "after in-place edits / earlier calls on the same object: %s -> %s "
                                      "is not allowed by the definition with the current adjacency" % (chain[t], chain[t + 1]), replay)
                        break
                _keep(ctx, kept, r if isinstance(r, np.ndarray) else list(r), "li_history", replay)
                acts = [int(v) for v in chain[-1]]
        elif which == "fp":
            n = rng.randint(2, 4)
            A = rand_payoff(rng, n)
            gain = rng.choice([None, 0.5, 0.25])
            sfp = rng.random() < 0.3
            tb = rng.choice(["smallest", "random"])
            mk = lambda: (StochasticFictitiousPlay(NormalFormGame(A), distribution=ReplayDist(pl), gain=gain) if sfp
                          else FictitiousPlay(NormalFormGame(A), gain=gain))
            pl = []
            obj = mk()
            bufs = (np.empty(n), np.empty(n))
            cur = (np.array(simplex_point(rng, n)), np.array(simplex_point(rng, n)))
            for step in range(rng.randint(3, 6)):
                reps, t0 = rng.randint(1, 5), rng.choice([0, 2, 7])
                perts = [[rng.randint(-8, 8) / 8.0 for _ in range(n)] for _ in range(2 * max(reps, 5))]
                use_ts, use_out = rng.random() < 0.4, rng.random() < 0.4
                ri = [rng.randrange(12) for _ in range(12)]
                replay = {"op": "fp-history", "A": A, "gain": gain, "step": step, "num_reps": reps, "t_init": t0,
                          "actions": [c.tolist() for c in cur], "tie_breaking": tb, "out_buffers": use_out}

                def call(o, out=None):
                    if sfp:
                        o.payoff_perturbation_dist = lambda size, random_state, q=[list(v) for v in perts]: np.array(q.pop(0))
                    if use_ts:
                        return o.time_series(reps + 1, init_actions=cur, t_init=t0, tie_breaking=tb, random_state=Rec(7, ri=list(ri)))
                    return o.play(actions=cur, num_reps=reps, t_init=t0, out=out, tie_breaking=tb, random_state=Rec(7, ri=list(ri)))
                insn = snap(cur)
                r = call(obj, bufs if (use_out and not use_ts) else None)
                fresh = call(mk())
                if snap([np.asarray(a) for a in r]) != snap([np.asarray(a) for a in fresh]):
                    ctx.spec_fail("fp_history", "the same call on a fresh object gives a different answer: the answer depends "
                                  "on the object's history", replay)
                if snap(cur) != insn:
                    ctx.spec_fail("fp_input_modified", "the `actions` argument was modified", replay)
                if use_out and not use_ts:
                    ctx.count("history:fp-out-buffers-reused")
                    if not all(a is b for a, b in zip(r, bufs)):
                        ctx.spec_fail("fp_history", "play(out=...) did not return the given buffers", replay)
                    r = tuple(np.array(a) for a in r)        # documented in-place: keep a copy, not the buffer
                if any(shares(a, list(cur)) for a in _arrays(r)):
                    ctx.spec_fail("fp_alias", "a returned array shares memory with the `actions` argument", replay)
                _keep(ctx, kept, r, "fp_history", replay)
                cur = tuple(np.array(a[-1] if use_ts else a) for a in r)
        else:
            # two LogitDynamics objects built on the SAME NormalFormGame with different beta, used alternately;
            # each answer is judged with tables computed here from (payoffs, that object's beta)
            n = rng.randint(2, 3)
            A = rand_payoff(rng, n, kind=rng.choice([0, 2, 4]))
            g = NormalFormGame(A)
            betas = rng.sample([0.0, 0.5, 1.0, 2.0, 8.0], 2)
            lds = [LogitDynamics(g, beta=betas[0])]
            acts = [rng.randrange(n), rng.randrange(n)]
            for step in range(rng.randint(3, 6)):
                if step == 1:
                    lds.append(LogitDynamics(g, beta=betas[1]))
                    ctx.count("history:second-LogitDynamics-on-the-same-game")
                w = rng.randrange(len(lds))
                ld, beta = lds[w], betas[w]
                seq = [rng.randrange(2) for _ in range(rng.randint(1, 5))]
                us = [rng.choice([rng.random(), 0.0, UMAX]) for _ in seq]
                r = ld.play(init_actions=tuple(acts), player_ind_seq=seq, random_state=Rec(3, us=list(us)))
                got = [int(v) for v in r]
                cur = list(acts)
                for p_, u in zip(seq, us):
                    pay = np.asarray(A, dtype=float)           # symmetric 2-player game: both players have A
                    row = pay[:, cur[1 - p_]]
                    cdf = np.exp((row - row.max()) * beta).cumsum()
                    cur[p_] = int(np.searchsorted(cdf, u * cdf[-1], side="right"))
                replay = {"op": "logit-history", "A": A, "betas": betas, "object": w, "actions": acts,
                          "player_ind_seq": seq, "uniforms": us, "step": step}
                if got != cur:
                    # (two LogitDynamics on one game must behave independently: fix d0b9fc1)
                    ctx.spec_fail("logit_shared_player_cdfs" if len(lds) == 2 else "logit_history_transition",
                                  "play() of the object built with beta=%r returned %s; the inverse-cdf definition with this "
                                  "object's beta gives %s (objects on this game: betas %s)" % (beta, got, cur, betas[:len(lds)]),
                                  replay)
                _keep(ctx, kept, got, "logit_history", replay)
                acts = got


def _timed(ctx, name, f, *a):
    t0 = time.time()
    f(*a)
    ctx.extra.setdefault("family_wall_s", {})[name] = round(time.time() - t0, 2)


def run(ctx):
    cases = []
    ctx.rule = ("random small games (payoff matrices <=4x4 with integer entries: coordination, 0/1, symmetric, constant, "
                "generic), N<=8 players, graphs on <=6 nodes with dyadic weights, run lengths up to 200, revising players "
                "injected or recorded from a seeded RandomState, random/smallest tie-breaking, eps and k on a grid; "
                "non-trivial = at least 2 actions and a run in which something can move; distinct by request line")
    # corpus first: fixed scenarios (library tests, boundary uniforms, empty actions, IndexError, …)
    for f in sorted(glob.glob(os.path.join(ctx.corpus_dir, "c20_brd*.json"))):
        try:
            entries = json.load(open(f))
        except Exception as e:
            ctx.notes.append("corpus file %s unreadable: %s" % (f, e))
            continue
        for P in entries:
            brd_case(ctx, cases, P)
            ctx.count("corpus-cases")
    # observation only (a single player has nobody to sample from; outside the domain as read here)
    try:
        from quantecon.game_theory import SamplingBRD
        import warnings
        with warnings.catch_warnings():
            warnings.simplefilter("ignore")
            SamplingBRD([[1, 0], [0, 1]], 1, k=2).time_series(3, init_action_dist=[1, 0], random_state=0)
        ctx.count("sbrd:N=1-runs(observation)")
    except Exception as e:
        ctx.count("sbrd:N=1-raises-%s(observation)" % type(e).__name__)
    _timed(ctx, "brd_exhaustive", brd_exhaustive, ctx, cases)
    _timed(ctx, "brd_exhaustive_paths", brd_exhaustive_paths, ctx, cases)
    _timed(ctx, "brd_family", brd_family, ctx, cases, ctx.n(150, 4000))
    _timed(ctx, "brd_play_direct", brd_play_direct, ctx, cases, ctx.n(90, 2000))
    _timed(ctx, "fp_family", fp_family, ctx, cases, ctx.n(60, 1500))
    _timed(ctx, "fpn_family", fpn_family, ctx, cases, ctx.n(50, 1000))
    _timed(ctx, "li_family", li_family, ctx, cases, ctx.n(100, 3000))
    _timed(ctx, "li_entry_family", li_entry_family, ctx, cases, ctx.n(120, 2500))
    _timed(ctx, "logit_family", logit_family, ctx, cases, ctx.n(80, 2000))
    _timed(ctx, "determinism_family", determinism_family, ctx, ctx.n(6, 40))
    _timed(ctx, "history_family", history_family, ctx, cases, ctx.n(60, 600))
    ctx.extra["exhaustive_scope"] = ("one BRD period: all 2x2 payoff matrices over {0,1,2}, N in %s, every initial "
                                     "condition, every revising player (smallest tie-breaking); BRD paths: 6 fixed games, every initial "
                                     "condition, every sequence of revising players of length %d for N in %s; everything else sampled"
                                     % ("1..8" if ctx.thorough else "{1,2,3,5}", 4 if ctx.thorough else 3,
                                        "{2,3,4}" if ctx.thorough else "{2,3}"))
    ctx.assumptions.append("C20: NumPy's RandomState.choice / randint / random and searchsorted on sorted input are "
                           "trusted; `exp` in the logit cdf tables is an input of the model; Float run assumes the "
                           "argmax of BLAS dot equals the argmax of the sequential dot on the generated data")
    ctx.run_cases(cases)
    # trace fidelity: share of Float-mode cases (beliefs, logit paths) reproduced bit for bit by the model
    fl = [c for c in cases if " mode=float " in c.line]
    bad = set(m["request"] for m in ctx.mismatches)
    ctx.extra["trace_fidelity_float"] = {"cases": len(fl), "bit_identical": sum(1 for c in fl if c.line not in bad)}
