"""
Shared machinery of the correspondence harness.

* wire encoding (doubles as bit patterns, rationals as p/q)
* Ctx: one run of one property's check — PRNG, case queue, driver round trip,
  comparison, spec failures, known findings, verdict, evidence
* lean_check: builds the property's theorem module, audits axioms

Run with /venv/bin/python and /repo first on sys.path (the `check` script does
this); the quantecon that gets imported is /repo's working tree.
"""
import ast
import collections
import hashlib
import json
import os
import random
import re
import struct
import subprocess
import sys
import time
from fractions import Fraction

VERIF = os.path.dirname(os.path.dirname(os.path.abspath(__file__)))
REPO = os.environ.get("VERIF_REPO", "/repo")
LEAN_DIR = os.path.join(VERIF, "lean")
def driver_path(pid):
    return os.path.join(LEAN_DIR, ".lake", "build", "bin", "qedriver_%s" % pid.lower())
STD_AXIOMS = {"propext", "Classical.choice", "Quot.sound"}
FORBIDDEN = re.compile(
    r"\bsorry\b|\badmit\b|^\s*axiom\s|native_decide|bv_decide|implemented_by|\bunsafe\s|maxHeartbeats\s+0\b")

# ----------------------------------------------------------------------------
# Numba cache: keyed by the content of the whole package


def repo_digest():
    """content hash of every .py file under REPO/quantecon.  Numba's on-disk cache is keyed by the stamp of the
    file that defines a jitted function only, so a change in a *callee's* file (e.g. optimize/pivoting.py under
    linprog_simplex) would otherwise keep running the stale machine code.  Every run therefore uses a cache
    directory named after this digest: a changed tree never sees another tree's kernels."""
    h = hashlib.sha256()
    root = os.path.join(REPO, "quantecon")
    for d, dirs, fs in sorted(os.walk(root)):
        dirs.sort()
        for f in sorted(fs):
            if f.endswith(".py"):
                fp = os.path.join(d, f)
                h.update(os.path.relpath(fp, root).encode())
                try:
                    h.update(open(fp, "rb").read())
                except OSError:
                    h.update(b"?")
    return h.hexdigest()[:16]


def numba_cache_dir(tag="main"):
    """digest-keyed cache directory; older digests of the same tag are removed (disk is limited)"""
    import shutil
    base = os.environ.get("VERIF_NUMBA_BASE") or os.path.join(VERIF, ".cache", "numba")
    dig = repo_digest()
    d = os.path.join(base, tag, dig)
    parent = os.path.dirname(d)
    if os.path.isdir(parent):
        # Only caches that nobody touched for three hours: a run against another tree (seeded change, a commit
        # made while a sweep is running) may still be using its own digest directory.
        now = time.time()
        for other in os.listdir(parent):
            op = os.path.join(parent, other)
            try:
                if other != dig and now - os.path.getmtime(op) > 3 * 3600:
                    shutil.rmtree(op, ignore_errors=True)
            except OSError:
                pass
    os.makedirs(d, exist_ok=True)
    try:
        os.utime(d, None)       # mark as in use
    except OSError:
        pass
    return d


# ----------------------------------------------------------------------------
# wire encoding


def fx(x):
    """double -> 'x' + 16 hex digits of its IEEE-754 bit pattern (exact)"""
    return "x%016x" % struct.unpack("<Q", struct.pack("<d", float(x)))[0]


def unfx(s):
    return struct.unpack("<d", struct.pack("<Q", int(s[1:], 16)))[0]


def _lst(f, v):
    v = list(v)
    return ",".join(f(e) for e in v) if v else "-"


def _mat(f, m):
    m = list(m)
    return ";".join(_lst(f, r) for r in m) if m else "-"


def fxs(v):
    return _lst(fx, v)


def fxm(m):
    return _mat(fx, m)


def ints(v):
    return _lst(lambda e: str(int(e)), v)


def intm(m):
    return _mat(lambda e: str(int(e)), m)


def rat(q):
    q = Fraction(q)
    return str(q.numerator) if q.denominator == 1 else "%d/%d" % (q.numerator, q.denominator)


def rats(v):
    return _lst(rat, v)


def ratm(m):
    return _mat(rat, m)


def parse_rat(s):
    if s.startswith("x"):
        return Fraction(unfx(s))
    return Fraction(s)


def parse_rats(s):
    return [] if s in ("-", "") else [parse_rat(t) for t in s.split(",")]


def parse_ratm(s):
    return [] if s in ("-", "") else [parse_rats(r) for r in s.split(";")]


def parse_ints(s):
    return [] if s in ("-", "") else [int(t) for t in s.split(",")]


def parse_intm(s):
    return [] if s in ("-", "") else [parse_ints(r) for r in s.split(";")]


def fr(x):
    """exact Fraction of a double / int / Fraction"""
    return Fraction(x)


# ----------------------------------------------------------------------------
# anchors


def _ast_hash(path):
    try:
        src = open(path, "rb").read()
        tree = ast.parse(src)
    except Exception as e:  # unreadable / syntax error: always "changed"
        return "ERR:" + type(e).__name__
    # drop docstrings so that a documentation edit is not a code change
    for node in ast.walk(tree):
        if isinstance(node, (ast.FunctionDef, ast.ClassDef, ast.AsyncFunctionDef, ast.Module)):
            b = node.body
            if b and isinstance(b[0], ast.Expr) and isinstance(getattr(b[0], "value", None), ast.Constant) \
                    and isinstance(b[0].value.value, str):
                node.body = b[1:] or [ast.Pass()]
    return hashlib.sha256(ast.dump(tree).encode()).hexdigest()[:16]


def anchor_hashes(files):
    return {f: _ast_hash(os.path.join(REPO, f)) for f in files}


def anchors_changed(pid, files):
    """list of anchored files whose AST differs from the committed fingerprint"""
    p = os.path.join(VERIF, "anchors.json")
    try:
        ref = json.load(open(p)).get(pid, {})
    except Exception:
        ref = {}
    cur = anchor_hashes(files)
    return [f for f in files if ref.get(f) != cur[f]], cur


# ----------------------------------------------------------------------------
# known findings


def load_known(pid):
    """entries `known: property=<id> key=<key> <text>` of known_findings.txt"""
    out = {}
    p = os.path.join(VERIF, "known_findings.txt")
    if not os.path.exists(p):
        return out
    for line in open(p):
        line = line.strip()
        m = re.match(r"known:\s+property=(\S+)\s+key=(\S+)\s+(.*)$", line)
        if m and m.group(1) == pid:
            out[m.group(2)] = m.group(3)
    return out


# ----------------------------------------------------------------------------
# Lean side


def run(cmd, cwd=None, timeout=3600, env=None):
    p = subprocess.run(cmd, cwd=cwd, stdout=subprocess.PIPE, stderr=subprocess.STDOUT,
                       timeout=timeout, env=env, text=True)
    return p.returncode, p.stdout


def ensure_driver(pid):
    """(re)build the model of `pid` and its line-protocol driver from the sources on disk"""
    rc, out = run(["lake", "build", "qedriver_%s" % pid.lower()], cwd=LEAN_DIR)
    if rc != 0 or not os.path.exists(driver_path(pid)):
        sys.stdout.write(out[-4000:])
        raise SystemExit(2)


def lean_sources_for(pid):
    """our Lean sources that the theorem module of `pid` (and its driver) transitively import;
    all of them when pid is None"""
    if pid is None:
        srcs = []
        for root, _, fs in os.walk(LEAN_DIR):
            if ".lake" in root or ".audit" in root:
                continue
            srcs += [os.path.join(root, f) for f in fs if f.endswith(".lean")]
        return srcs
    todo = ["QEProofs.Properties.%s" % pid, "QEModel.%s" % pid, "Drivers.%s" % pid]
    seen, srcs = set(), []
    while todo:
        m = todo.pop()
        if m in seen:
            continue
        seen.add(m)
        fp = os.path.join(LEAN_DIR, *m.split(".")) + ".lean"
        if not os.path.exists(fp):
            continue          # Mathlib / core module
        srcs.append(fp)
        for line in open(fp, encoding="utf-8"):
            mm = re.match(r"\s*(?:public\s+)?import\s+(\S+)", line)
            if mm:
                todo.append(mm.group(1))
    return srcs


def grep_forbidden(pid=None):
    """forbidden tokens outside comments in the Lean sources `pid` depends on"""
    hits = []
    for p in lean_sources_for(pid):
        if p.endswith("AuditTool.lean"):
            continue
        in_block = 0
        for ln, line in enumerate(open(p, encoding="utf-8"), 1):
            s = line
            # strip block comments (non-nested approximation, handles /- … -/ on several lines)
            out = ""
            i = 0
            while i < len(s):
                if s.startswith("/-", i):
                    in_block += 1
                    i += 2
                elif s.startswith("-/", i) and in_block:
                    in_block -= 1
                    i += 2
                elif in_block:
                    i += 1
                elif s.startswith("--", i):
                    break
                else:
                    out += s[i]
                    i += 1
            if FORBIDDEN.search(out):
                hits.append("%s:%d: %s" % (os.path.relpath(p, VERIF), ln, out.strip()))
    return hits


def lean_check(pid, thorough=False):
    """Build the theorem module of `pid`, audit the axioms of every theorem in
    it.  Returns a dict: obligations, discharged, theorems, failures, log."""
    mod = "QEProofs.Properties.%s" % pid
    res = {"module": mod, "obligations": 0, "discharged": 0, "theorems": [], "failures": [],
           "partial": [], "build_ok": False}
    src = os.path.join(LEAN_DIR, "QEProofs", "Properties", "%s.lean" % pid)
    if not os.path.exists(src):
        res["failures"].append("no theorem module for %s" % pid)
        return res
    rc, out = run(["lake", "build", mod, "QEProofs.AuditTool"], cwd=LEAN_DIR)
    if rc != 0:
        errs = [l for l in out.splitlines() if l.startswith("error:")]
        res["failures"].append("lake build %s failed: %s" % (mod, "; ".join(errs[:5])))
        res["log"] = out[-3000:]
        # count declared theorems so that obligations > discharged is visible
        names = re.findall(r"^theorem\s+(\S+)", open(src, encoding="utf-8").read(), re.M)
        res["obligations"] = len(names)
        res["theorems"] = names
        return res
    res["build_ok"] = True
    os.makedirs(os.path.join(LEAN_DIR, ".audit"), exist_ok=True)
    af = os.path.join(LEAN_DIR, ".audit", "Audit_%s.lean" % pid)
    with open(af, "w") as f:
        f.write("import QEProofs.AuditTool\nimport %s\n#audit_module %s\n" % (mod, mod))
    rc, out = run(["lake", "env", "lean", af], cwd=LEAN_DIR)
    for line in out.splitlines():
        m = re.match(r".*AUDIT (\S+) \[(.*)\]\s*$", line)
        if not m:
            continue
        name, axs = m.group(1), [a.strip() for a in m.group(2).split(",") if a.strip()]
        res["obligations"] += 1
        res["theorems"].append(name)
        if name.endswith("_partial"):
            res["partial"].append(name)
        bad = [a for a in axs if a not in STD_AXIOMS]
        if bad:
            res["failures"].append("theorem %s depends on non-standard axioms %s" % (name, bad))
        else:
            res["discharged"] += 1
    if rc != 0 or res["obligations"] == 0:
        res["failures"].append("axiom audit did not run cleanly: " + out[-500:])
    hits = grep_forbidden(pid)
    res["sources_scanned"] = len(lean_sources_for(pid))
    if hits:
        res["failures"].append("forbidden tokens: " + "; ".join(hits[:5]))
    if thorough:
        t0 = time.time()
        rc, out = run(["lake", "env", "leanchecker", mod], cwd=LEAN_DIR, timeout=3000)
        res["leanchecker"] = {"rc": rc, "wall_s": round(time.time() - t0, 1), "tail": out[-300:]}
        if rc != 0:
            res["failures"].append("leanchecker rejected %s" % mod)
    return res


# ----------------------------------------------------------------------------
# one run


class Case:
    __slots__ = ("line", "impl", "nontrivial", "cmp", "meta", "tag")

    def __init__(self, line, impl, nontrivial=True, cmp=None, meta=None, tag=None):
        self.line = line          # request sent to the model driver
        self.impl = impl          # canonical string of what the real code returned
        self.nontrivial = nontrivial
        self.cmp = cmp            # optional comparator(model_out, impl) -> None | reason
        self.meta = meta
        self.tag = tag


class Ctx:
    def __init__(self, pid, tier, seed, files):
        self.pid, self.tier, self.seed = pid, tier, seed
        self.rng = random.Random(seed * 1000003 + int(pid[1:]))
        self.t0 = time.time()
        self.counters = collections.Counter()
        self.evaluations = 0
        self.distinct = set()
        self.samples = []
        self._sample_tags = set()
        self.mismatches = []      # correspondence failures
        self.spec_failures = []   # property violated by the code on a concrete input
        self.known = load_known(pid)
        self.known_hits = collections.OrderedDict()
        self.files = files
        self.changed, self.cur_hashes = anchors_changed(pid, files)
        self.notes = []
        self.exhaustive = False
        self.rule = ""
        self.assumptions = []
        self.extra = {}
        self.corpus_dir = os.path.join(VERIF, "harness", "corpus")

    # -- sizes ---------------------------------------------------------------
    @property
    def thorough(self):
        """thorough generator: asked for, or escalated because an anchor changed"""
        return self.tier == "thorough" or bool(self.changed)

    def n(self, quick, thorough):
        return thorough if self.thorough else quick

    def np_rng(self):
        import numpy as np
        return np.random.RandomState(self.rng.randrange(2 ** 31))

    # -- driver ----------------------------------------------------------------
    def driver(self, lines):
        if not lines:
            return []
        data = "\n".join(lines) + "\n"
        p = subprocess.run([driver_path(self.pid)], input=data, stdout=subprocess.PIPE, stderr=subprocess.PIPE, text=True)
        if p.returncode != 0:
            sys.stdout.write("driver failed: rc=%s %s\n" % (p.returncode, p.stderr[-2000:]))
            raise SystemExit(2)
        outs = p.stdout.split("\n")
        if outs and outs[-1] == "":
            outs.pop()
        if len(outs) != len(lines):
            sys.stdout.write("driver answered %d lines for %d requests\n" % (len(outs), len(lines)))
            raise SystemExit(2)
        return outs

    def run_cases(self, cases):
        """pipe all requests to the model, compare with the code's answers"""
        outs = self.driver([c.line for c in cases])
        for c, mo in zip(cases, outs):
            self.evaluations += 1
            if c.tag:
                self.counters["op:" + c.tag] += 1
            if c.nontrivial:
                self.distinct.add(hashlib.md5(c.line.encode()).digest())
            # one sample per op tag (first non-trivial case of each), at most 10
            skey = c.tag or "-"
            if c.nontrivial and skey not in self._sample_tags and len(self.samples) < 10:
                self._sample_tags.add(skey)
                self.samples.append({"request": c.line[:400], "code": str(c.impl)[:300], "model": mo[:300]})
            if mo == "bad-op":
                self.mismatches.append({"request": c.line, "code": c.impl, "model": mo,
                                        "why": "model driver rejected the request"})
                continue
            if c.cmp is not None:
                why = c.cmp(mo, c.impl)
            else:
                why = None if mo == c.impl else "outputs differ"
            if why:
                self.mismatches.append({"request": c.line, "code": c.impl, "model": mo, "why": why,
                                        "meta": c.meta})
        return outs

    # -- spec ---------------------------------------------------------------------
    def spec_fail(self, key, what, replay):
        """the real code violates the property on a concrete input.
        key identifies the input / call site (matched against known_findings.txt)"""
        if key in self.known:
            if key not in self.known_hits:
                self.known_hits[key] = self.known[key]
            self.counters["known-finding:" + key] += 1
            return
        self.spec_failures.append({"key": key, "what": what, "replay": replay})

    def count(self, name, k=1):
        self.counters[name] += k

    # -- verdict ------------------------------------------------------------------
    def finish(self, lean):
        pid = self.pid
        # (VERIF_EVIDENCE_DIR / VERIF_REPLAY_DIR: used only by tools/seeded_run.py so that a run against a
        #  deliberately broken scratch tree does not overwrite the evidence of the real one)
        ev_dir = os.environ.get("VERIF_EVIDENCE_DIR") or os.path.join(VERIF, "evidence")
        rp_dir = os.environ.get("VERIF_REPLAY_DIR") or os.path.join(VERIF, "replays")
        os.makedirs(ev_dir, exist_ok=True)
        os.makedirs(rp_dir, exist_ok=True)
        violations = 0
        lines = []
        for key, text in self.known_hits.items():
            lines.append("KNOWN-FINDING: property=%s %s (%s)" % (pid, text, key))
        seen = set()
        for sf in self.spec_failures:
            if sf["key"] in seen:
                continue
            seen.add(sf["key"])
            h = hashlib.md5(json.dumps(sf, sort_keys=True, default=str).encode()).hexdigest()[:10]
            path = os.path.join(rp_dir, "%s-%s.json" % (pid, h))
            json.dump({"property": pid, "kind": "failing-input", **sf}, open(path, "w"), indent=1, default=str)
            lines.append("VIOLATION property=%s replay=%s" % (pid, path))
            violations += 1
        if not self.spec_failures and (self.mismatches or lean["failures"]):
            # proof obligation or correspondence broken, search found no failing input
            rep = {"property": pid, "kind": "no-failing-input-found",
                   "broken_proof_obligations": lean["failures"],
                   "broken_correspondence": self.mismatches[:5],
                   "n_correspondence_mismatches": len(self.mismatches),
                   "note": "the model (about which the theorems are proved) no longer describes the code, or a "
                           "theorem no longer checks; the spec run over %d cases found no input on which the "
                           "code violates the property" % self.evaluations}
            h = hashlib.md5(json.dumps(rep, sort_keys=True, default=str).encode()).hexdigest()[:10]
            path = os.path.join(rp_dir, "%s-%s.json" % (pid, h))
            json.dump(rep, open(path, "w"), indent=1, default=str)
            lines.append("VIOLATION property=%s replay=%s no-failing-input-found" % (pid, path))
            violations += 1
        wall = time.time() - self.t0
        cov = {
            "obligations": lean["obligations"], "discharged": lean["discharged"],
            "checker_cmd": "cd lean && lake build %s && lake env lean .audit/Audit_%s.lean  (#audit_module: "
                           "Lean.collectAxioms on every theorem of the module)%s" % (
                               lean["module"], pid, "; lake env leanchecker " + lean["module"] if "leanchecker" in lean else ""),
            "trusted_base": [
                "Lean 4.33 kernel; axioms allowed: propext, Classical.choice, Quot.sound (audited per theorem)",
                "hand-written model lean/QEModel/%s.lean tied to /repo by this run's correspondence (differential "
                "execution of the model driver and the real quantecon API on the same inputs)" % pid,
                "harness/%s.py: generators, adapters, canonicalisation; qedriver parser/printer" % pid.lower(),
                "CPython, NumPy, SciPy, Numba/LLVM"] + self.assumptions,
            "theorems": lean["theorems"], "partial_theorems": lean["partial"],
            "proof_failures": lean["failures"],
            "evaluations": self.evaluations, "distinct_nontrivial": len(self.distinct),
            "rule": self.rule, "samples": self.samples,
            "traces_validated_against_impl": self.evaluations - len(self.mismatches),
            "correspondence_mismatches": len(self.mismatches),
            "spec_failures": len(self.spec_failures),
            "known_findings_hit": list(self.known_hits.keys()),
            "branch_counters": dict(sorted(self.counters.items())),
            "anchors_changed": self.changed,
            "exhaustive": bool(self.exhaustive),
        }
        if "leanchecker" in lean:
            cov["leanchecker"] = lean["leanchecker"]
        cov.update(self.extra)
        ev = {"property_id": pid, "tier": self.tier, "seed": self.seed, "level": "proof",
              "coverage": cov, "assumptions": self.assumptions + self.notes,
              "wall_s": round(wall, 2), "violations": violations}
        json.dump(ev, open(os.path.join(ev_dir, "%s.json" % pid), "w"), indent=1, default=str)
        for l in lines:
            print(l)
        print("%s %s tier=%s seed=%d obligations=%d discharged=%d cases=%d nontrivial=%d mismatches=%d "
              "spec_failures=%d wall=%.1fs" % (
                  "FAIL" if violations else "OK", pid, self.tier, self.seed, lean["obligations"],
                  lean["discharged"], self.evaluations, len(self.distinct), len(self.mismatches),
                  len(self.spec_failures), wall))
        return 1 if violations else 0
