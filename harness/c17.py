"""C17 — root finders and maximisers: correspondence + spec run.

Objective functions are small expression trees.  They reach the real (jitted) routines as a
postfix program interpreted by one jitted function `_rpn(x, ops, consts)` (so every routine is
compiled once), and the Lean model as the same postfix program; both sides evaluate the same
IEEE operations in the same order, so results are compared bit for bit.  The spec oracles use
exact rational evaluation of the same trees (fractions.Fraction) and never look at the model.
"""
import math
from fractions import Fraction

import numpy as np
from numba import njit

from .common import Case, fx, unfx

FILES = ["quantecon/optimize/root_finding.py", "quantecon/optimize/scalar_maximization.py",
         "quantecon/optimize/nelder_mead.py"]

EPS = float(np.finfo(float).eps)
SLACK = 1 + Fraction(1, 2 ** 20)      # rounding of the tolerance expression itself

# ----------------------------------------------------------------------------------------
# expression trees


class E:
    """node: ('v',) | ('c', float) | (op, E, E) | ('neg', E) | ('exp', E)"""
    __slots__ = ("op", "a", "b", "val")

    def __init__(self, op, a=None, b=None, val=None):
        self.op, self.a, self.b, self.val = op, a, b, val

    @staticmethod
    def lift(t):
        return t if isinstance(t, E) else C(t)

    def __add__(self, o): return E("add", self, E.lift(o))
    def __sub__(self, o): return E("sub", self, E.lift(o))
    def __mul__(self, o): return E("mul", self, E.lift(o))
    def __truediv__(self, o): return E("div", self, E.lift(o))
    def __radd__(self, o): return E("add", E.lift(o), self)
    def __rsub__(self, o): return E("sub", E.lift(o), self)
    def __rmul__(self, o): return E("mul", E.lift(o), self)
    def __rtruediv__(self, o): return E("div", E.lift(o), self)
    def __neg__(self): return E("neg", self)

    def rpn(self, out=None):
        out = [] if out is None else out
        if self.op == "v":
            out.append(("v", 0.0))
        elif self.op == "c":
            out.append(("c", self.val))
        elif self.op in ("neg", "exp"):
            self.a.rpn(out)
            out.append((self.op, 0.0))
        else:
            self.a.rpn(out)
            self.b.rpn(out)
            out.append((self.op, 0.0))
        return out

    def wire(self):
        return ",".join(fx(c) if o == "c" else o for o, c in self.rpn())

    def arrays(self):
        r = self.rpn()
        return (np.array([OPC[o] for o, _ in r], dtype=np.int64), np.array([c for _, c in r], dtype=np.float64))

    def ev(self, x, exact=True):
        """exact (Fraction) or float evaluation, same operation order"""
        o = self.op
        if o == "v":
            return x
        if o == "c":
            return Fraction(self.val) if exact else self.val
        if o == "neg":
            return -self.a.ev(x, exact)
        if o == "exp":
            return math.exp(self.a.ev(x, exact))
        p, q = self.a.ev(x, exact), self.b.ev(x, exact)
        if o == "add":
            return p + q
        if o == "sub":
            return p - q
        if o == "mul":
            return p * q
        if not exact and q == 0:
            return math.copysign(math.inf, p) * math.copysign(1.0, q) if p != 0 else math.nan
        return p / q

    def d(self):
        """symbolic derivative (no simplification)"""
        o = self.op
        if o == "v":
            return C(1.0)
        if o == "c":
            return C(0.0)
        if o == "neg":
            return -self.a.d()
        if o == "exp":
            return self * self.a.d()
        if o == "add":
            return self.a.d() + self.b.d()
        if o == "sub":
            return self.a.d() - self.b.d()
        if o == "mul":
            return self.a.d() * self.b + self.a * self.b.d()
        return (self.a.d() * self.b - self.a * self.b.d()) / (self.b * self.b)

    def has_exp(self):
        if self.op == "exp":
            return True
        return any(t is not None and t.has_exp() for t in (self.a, self.b))


def C(v):
    return E("c", val=float(v))


X = E("v")
OPC = {"v": 0, "c": 1, "add": 2, "sub": 3, "mul": 4, "div": 5, "neg": 6, "exp": 7}


def Exp(e):
    return E("exp", e)


@njit
def _rpn(x, ops, consts):
    st = np.empty(48)
    sp = 0
    for i in range(ops.shape[0]):
        o = ops[i]
        if o == 0:
            st[sp] = x
            sp += 1
        elif o == 1:
            st[sp] = consts[i]
            sp += 1
        elif o == 2:
            st[sp - 2] = st[sp - 2] + st[sp - 1]
            sp -= 1
        elif o == 3:
            st[sp - 2] = st[sp - 2] - st[sp - 1]
            sp -= 1
        elif o == 4:
            st[sp - 2] = st[sp - 2] * st[sp - 1]
            sp -= 1
        elif o == 5:
            st[sp - 2] = st[sp - 2] / st[sp - 1]
            sp -= 1
        elif o == 6:
            st[sp - 1] = -st[sp - 1]
        else:
            st[sp - 1] = np.exp(st[sp - 1])
    return st[sp - 1]


@njit
def _f1(x, o0, c0):
    return _rpn(x, o0, c0)


@njit
def _g0(x, o0, c0, o1, c1, o2, c2):
    return _rpn(x, o0, c0)


@njit
def _g1(x, o0, c0, o1, c1, o2, c2):
    return _rpn(x, o1, c1)


@njit
def _g2(x, o0, c0, o1, c1, o2, c2):
    return _rpn(x, o2, c2)


def res_str(call):
    """canonical string of a results tuple / the expected exceptions"""
    try:
        r = call()
    except ValueError:
        return "ERR:ValueError", None
    except RuntimeError:
        return "ERR:RuntimeError", None
    return "%s %d %d %d" % (fx(r.root), int(r.function_calls), int(r.iterations), 1 if r.converged else 0), r


def sign(q):
    return (q > 0) - (q < 0)


def dyad(rng, lo, hi, bits=6):
    """random dyadic rational in [lo, hi] with `bits` fractional bits"""
    return Fraction(rng.randint(int(lo * 2 ** bits), int(hi * 2 ** bits)), 2 ** bits)


# ----------------------------------------------------------------------------------------
# bracketing root finders


def bracket_problem(ctx, kind_hint=None):
    """returns (expr, a, b, roots or None, descr) — roots: exact Fractions of all roots in [a,b]
    when known, None when the function is monotone with an irrational root (sign-change oracle)."""
    rng = ctx.rng
    fam = rng.choice(["lin", "cubic3", "quadratic-r", "x3-c", "rational", "x2-c", "odd5", "same-sign", "steep"]
                     if kind_hint is None else [kind_hint])
    k = rng.choice([0, 0, 0, 0, 10, -10, 30, -30, 20, -20])
    s = Fraction(2) ** k
    fs = float(s)
    roots = None
    if fam == "lin":
        r = dyad(rng, -4, 4)
        sl = rng.choice([1, -1, 3, -0.5])
        e = C(sl) * (X - C(float(r * s)))
        roots = [r * s]
        a, b = r - dyad(rng, 0, 3), r + dyad(rng, 0, 3)
        if a == b:
            b = a + 1
    elif fam == "cubic3":
        rs = sorted({dyad(rng, -4, 4, 3) for _ in range(3)})
        e = C(rng.choice([1.0, -1.0, 0.25]))
        for r in rs:
            e = e * (X - C(float(r * s)))
        roots = [r * s for r in rs]
        # bracket around an odd number of roots, or (sometimes) an even number
        lo = rs[0] - dyad(rng, 0, 2, 3)
        hi = rs[-1] + dyad(rng, 0, 2, 3)
        cut = [lo] + [(rs[i] + rs[i + 1]) / 2 for i in range(len(rs) - 1)] + [hi]
        i = rng.randrange(len(cut) - 1)
        j = rng.randrange(i + 1, len(cut))
        a, b = cut[i], cut[j]
        if rng.random() < 0.25:
            a = rng.choice(rs)            # root exactly at an end point
        elif rng.random() < 0.25:
            b = rng.choice(rs)
        if a == b:
            b = a + 1
    elif fam == "quadratic-r":
        r = dyad(rng, -3, 3)
        e = (X - C(float(r * s))) * ((X - C(float(r * s))) * (X - C(float(r * s))) + C(float(s * s)))
        roots = [r * s]
        a, b = r - dyad(rng, 0, 4), r + dyad(rng, 0, 4)
        if a == b:
            a = b - 2
    elif fam == "x3-c":
        c = rng.choice([2, 3, 5, 10, 0.5, 100])
        e = X * X * X - C(c * fs ** 3)
        a, b = Fraction(0), Fraction(rng.choice([5, 8, 16, 128]))
    elif fam == "x2-c":
        c = rng.choice([2, 3, 7, 0.1, 50])
        e = X * X - C(c * fs ** 2)
        a, b = Fraction(0), Fraction(rng.choice([8, 16, 1024]))
    elif fam == "rational":
        r = dyad(rng, -3, 3)
        e = (X - C(float(r * s))) / (C(float(s * s)) + X * X)
        roots = [r * s]
        a, b = r - dyad(rng, 0, 6), r + dyad(rng, 0, 6)
        if a == b:
            b = a + 3
    elif fam == "odd5":
        r = dyad(rng, -2, 2)
        u = X - C(float(r * s))
        e = u * u * u * u * u
        roots = [r * s]
        a, b = r - dyad(rng, 1, 200, 6) / 64, r + dyad(rng, 1, 3)
    elif fam == "steep":
        # nearly flat on one side, steep on the other: u / (s^2 + 64 u^2) style stays monotone near r
        r = dyad(rng, -2, 2)
        u = X - C(float(r * s))
        e = u * (C(float(s * s)) + u * u * C(100.0))
        roots = [r * s]
        a, b = r - dyad(rng, 0, 2), r + dyad(rng, 0, 64)
        if a == b:
            b = a + 1
    else:  # same-sign: no sign change → ValueError expected
        r = dyad(rng, -3, 3)
        e = (X - C(float(r * s))) * (X - C(float(r * s))) + C(float(s * s) * rng.choice([1.0, 0.001]))
        if rng.random() < 0.5:
            e = -e
        roots = []
        a, b = r - dyad(rng, 0, 4), r + dyad(rng, 0, 4)
        if a == b:
            b = a + 1
    if rng.random() < 0.3:
        a, b = b, a                      # reversed bracket is legal for these routines
    return e, float(a * s), float(b * s), roots, fam


def halvings(a, b, xtol, cap=5000, exact=False):
    """least k in 1..cap with |b-a|/2^k < xtol (doubles, the code's own `dm *= 0.5`; or exact rationals)"""
    d = (Fraction(b) - Fraction(a)) if exact else (b - a)
    xt = Fraction(xtol) if exact else xtol
    for k in range(1, cap + 1):
        d = d / 2 if exact else d * 0.5
        if abs(d) < xt:
            return k
    return None


def check_bracket_result(ctx, name, e, a, b, xtol, rtol, maxiter, roots, out0, r0, out1):
    """spec oracle for bisect / brentq on one input; out0/r0 with disp=False, out1 with disp=True"""
    rep = {"op": name, "f": e.wire(), "a": a, "b": b, "xtol": xtol, "rtol": rtol, "maxiter": maxiter,
           "disp=False": out0, "disp=True": out1}
    fa, fb = e.ev(Fraction(a)), e.ev(Fraction(b))
    same = sign(fa) * sign(fb) > 0
    if same:
        ctx.count(name + ":same-sign")
        if out0 != "ERR:ValueError" or out1 != "ERR:ValueError":
            ctx.spec_fail(name + "_same_sign", "%s did not raise ValueError although f(a), f(b) have the same sign" % name, rep)
        return
    if out0 == "ERR:ValueError":
        ctx.spec_fail(name + "_spurious_valueerror", "%s raised ValueError on a bracket with a sign change" % name, rep)
        return
    if r0 is None:
        ctx.spec_fail(name + "_raise_nodisp", "%s raised %s with disp=False" % (name, out0), rep)
        return
    root, calls, iters, conv = float(r0.root), int(r0.function_calls), int(r0.iterations), bool(r0.converged)
    if name == "bisect" and rtol >= 0 and fa != 0 and fb != 0:
        # theorem bisect_terminates: K = least k with |b-a|/2^k < xtol halvings suffice. Halving a double is exact
        # and xtol + rtol|xm| >= xtol also in doubles, so the bound holds for the code without any slack.
        K = halvings(a, b, xtol)
        rep_k = dict(rep, K=K)
        if K is not None:
            if conv and iters > K:
                ctx.spec_fail("bisect_iteration_bound", "bisect: %d iterations, but %d halvings bring |b-a| below xtol" % (iters, K), rep_k)
            elif not conv and maxiter >= K:
                ctx.spec_fail("bisect_iteration_bound", "bisect: converged=False with maxiter=%d although %d halvings bring |b-a| "
                              "below xtol" % (maxiter, K), rep_k)
            else:
                ctx.count("bisect:iteration-bound-held" + (":attained" if conv and iters == K else ""))
    # disp contract
    if conv and out1 != out0:
        ctx.spec_fail(name + "_disp", "%s: disp=True changes a converged result" % name, rep)
    if not conv and out1 != "ERR:RuntimeError":
        ctx.spec_fail(name + "_disp", "%s: not converged but disp=True did not raise RuntimeError" % name, rep)
    if conv:
        ctx.count(name + ":converged")
        if iters == 0:
            ctx.count(name + ":endpoint-root")
            if not ((root == a and fa == 0) or (root == b and fb == 0)):
                ctx.spec_fail(name + "_endpoint", "%s: 0 iterations but the result is not an end point with f=0" % name, rep)
        if iters > maxiter:
            ctx.spec_fail(name + "_iters", "%s: iterations %d > maxiter %d" % (name, iters, maxiter), rep)
        # bisect tests after the evaluation of pass `itr`; brentq tests at the top of the next pass
        want = iters + 2 if (name == "bisect" or iters == 0) else iters + 1
        if calls != want:
            ctx.spec_fail(name + "_calls", "%s: function_calls %d inconsistent with iterations %d" % (name, calls, iters), rep)
        lo_b, hi_b = min(Fraction(a), Fraction(b)), max(Fraction(a), Fraction(b))
        if not (lo_b <= Fraction(root) <= hi_b):
            ctx.spec_fail(name + "_outside", "%s: root %r outside the bracket" % (name, root), rep)
            return
        tol = (Fraction(xtol) + Fraction(rtol) * abs(Fraction(root))) * SLACK
        if roots is not None:
            dist = min(abs(Fraction(root) - r) for r in roots if lo_b <= r <= hi_b)
            ok = dist <= tol
        else:
            lo, hi = max(lo_b, Fraction(root) - tol), min(hi_b, Fraction(root) + tol)
            ok = sign(e.ev(lo)) * sign(e.ev(hi)) <= 0
        if not ok:
            ctx.spec_fail(name + "_tolerance", "%s: converged=True but no sign change within xtol+rtol|x| of root %r" % (name, root), rep)
    else:
        ctx.count(name + ":maxiter-exhausted")
        if calls != maxiter + 2:
            ctx.spec_fail(name + "_premature_fail", "%s: converged=False after %d calls with maxiter=%d" % (name, calls, maxiter), rep)
        if name == "bisect":
            # |dm| after k halvings is |b-a|/2^k; the test |dm| < xtol + rtol|xm| must fire once |b-a|/2^k < xtol
            need = 1
            w = abs(Fraction(b) - Fraction(a))
            while w / 2 ** need >= Fraction(xtol) and need < 5000:
                need += 1
            if maxiter >= need + 1:
                ctx.spec_fail("bisect_should_converge", "bisect: converged=False although maxiter=%d >= %d halvings "
                              "bring the bracket below xtol" % (maxiter, need), rep)


def gen_brackets(ctx, cases, n):
    from quantecon.optimize.root_finding import bisect, brentq
    rng = ctx.rng
    for i in range(n):
        e, a, b, roots, fam = bracket_problem(ctx)
        xtol = rng.choice([1e-12, 2e-12, 1e-10, 1e-8, 1e-6, 1e-4, 1e-2])
        if rng.random() < 0.3:
            xtol = xtol * max(abs(a), abs(b), 1e-300)       # tolerance relative to the scale
        rtol = rng.choice([4 * EPS, 4 * EPS, 1e-10, 1e-6])
        maxiter = rng.choice([1, 2, 3, 5, 8, 12, 20, 40, 100, 100, 100, 300])
        if rng.random() < 0.04:
            xtol = rng.choice([0.0, -1e-3])
        if rng.random() < 0.04:
            maxiter = rng.choice([0, -1])
        args = e.arrays()
        for name, fn in (("bisect", bisect), ("brentq", brentq)):
            out0, r0 = res_str(lambda: fn(_f1, a, b, args=args, xtol=xtol, rtol=rtol, maxiter=maxiter, disp=False))
            out1, _ = res_str(lambda: fn(_f1, a, b, args=args, xtol=xtol, rtol=rtol, maxiter=maxiter, disp=True))
            ctx.count("%s:fam:%s" % (name, fam))
            if xtol <= 0 or maxiter < 1:
                ctx.count(name + ":bad-parameter")
                if out0 != "ERR:ValueError" or out1 != "ERR:ValueError":
                    ctx.spec_fail(name + "_params", "%s accepted xtol=%r maxiter=%r" % (name, xtol, maxiter),
                                  {"op": name, "xtol": xtol, "maxiter": maxiter})
            else:
                check_bracket_result(ctx, name, e, a, b, xtol, rtol, maxiter, roots, out0, r0, out1)
            for disp, out in ((0, out0), (1, out1)):
                line = "C17 %s sc=float f=%s a=%s b=%s xtol=%s rtol=%s maxiter=%d disp=%d" % (
                    name, e.wire(), fx(a), fx(b), fx(xtol), fx(rtol), maxiter, disp)
                cases.append(Case(line, out, nontrivial=(r0 is not None and r0.iterations >= 2), tag=name))
            if name == "bisect" and xtol > 0:
                # the model's iteration bound (driver op bisectk) against the same halving done here, in doubles and exactly
                for sc_, ex_ in (("float", False), ("rat", True)):
                    kk = halvings(a, b, xtol, cap=3000, exact=ex_)
                    cases.append(Case("C17 bisectk sc=%s a=%s b=%s xtol=%s cap=3000" % (sc_, fx(a), fx(b), fx(xtol)),
                                      "none" if kk is None else str(kk), nontrivial=False, tag="bisectk"))


# ----------------------------------------------------------------------------------------
# open methods


def open_problem(ctx):
    """(expr, x0, root_check) — root_check(root, tol) -> bool | None (None: no accuracy claim:
    the start is not known to be in the basin)."""
    rng = ctx.rng
    fam = rng.choice(["x2-c", "x3-c", "lin", "cubic-mono", "rational", "square", "const", "far", "flat-start", "at-root"])
    k = rng.choice([0, 0, 0, 8, -8, 20, -20])
    s = float(Fraction(2) ** k)
    basin = True
    if fam in ("x2-c", "flat-start"):
        c = rng.choice([2.0, 3.0, 9.0, 0.25, 50.0, 1e4])
        e = X * X - C(c * s * s)
        x0 = s * math.sqrt(c) * rng.choice([1.01, 1.5, 3.0, 10.0])
        if fam == "flat-start":
            x0 = 0.0                      # derivative zero at the start
            basin = False
        lo_hi = (0.0, None)
    elif fam == "x3-c":
        c = rng.choice([2.0, 8.0, 27.0, 0.125, 10.0])
        e = X * X * X - C(c * s ** 3)
        x0 = s * c ** (1 / 3) * rng.choice([1.01, 1.3, 2.0, 5.0])
    elif fam == "lin":
        r = float(dyad(rng, -4, 4)) * s
        e = C(rng.choice([2.0, -0.5, 1.0])) * (X - C(r))
        x0 = r + s * float(dyad(rng, -8, 8))
    elif fam == "cubic-mono":
        r = float(dyad(rng, 1, 4)) * s
        u = X - C(r)
        e = u * (u * u + C(s * s))
        x0 = r + s * float(dyad(rng, 0, 2))
    elif fam == "rational":
        # x/(1+x) - c, increasing & concave on x > -1; start left of the root (monotone Newton)
        c = rng.choice([0.5, 0.25, 0.75, 0.9])
        e = X / (C(1.0) + X) - C(c)
        x0 = (c / (1 - c)) * rng.choice([0.1, 0.5, 0.9])
        s = 1.0
    elif fam == "square":
        # double root: linear convergence only, no accuracy claim
        r = float(dyad(rng, -2, 2))
        e = (X - C(r)) * (X - C(r))
        x0 = r + float(dyad(rng, 1, 64)) / 16
        basin = False
        s = 1.0
    elif fam == "const":
        e = C(rng.choice([1.0, -2.5])) + C(0.0) * X
        x0 = float(dyad(rng, -2, 2))
        basin = False
        s = 1.0
    elif fam == "far":
        # x^3 - 2x + 2 from 0 cycles 0 -> 1 -> 0 (classic Newton failure)
        e = X * X * X - C(2.0) * X + C(2.0)
        x0 = rng.choice([0.0, 1.0])
        basin = False
        s = 1.0
    else:  # at-root: start exactly on the root
        r = float(dyad(rng, -4, 4)) * s
        e = (X - C(r)) * (C(s * s) + X * X)
        x0 = r
    return e, float(x0), fam, basin, s


def gen_open(ctx, cases, n):
    from quantecon.optimize.root_finding import newton, newton_halley, newton_secant
    rng = ctx.rng
    K1, K2 = 1 + 1e-4, 1e-4
    for i in range(n):
        e, x0, fam, basin, s = open_problem(ctx)
        d1 = e.d()
        d2 = d1.d()
        tol = rng.choice([1.48e-8, 1e-12, 1e-10, 1e-6, 1e-4, 1e-2]) * (s if rng.random() < 0.7 else 1.0)
        maxiter = rng.choice([1, 2, 3, 4, 6, 10, 50, 50, 50, 200])
        if rng.random() < 0.04:
            tol = rng.choice([0.0, -1.0])
        if rng.random() < 0.04:
            maxiter = rng.choice([0, -3])
        a0, a1, a2 = e.arrays(), d1.arrays(), d2.arrays()
        args3 = a0 + a1 + a2
        runs = [
            ("newton", lambda disp: newton(_g0, x0, _g1, args=args3, tol=tol, maxiter=maxiter, disp=disp),
             "f=%s fp=%s" % (e.wire(), d1.wire())),
            ("halley", lambda disp: newton_halley(_g0, x0, _g1, _g2, args=args3, tol=tol, maxiter=maxiter, disp=disp),
             "f=%s fp=%s fpp=%s" % (e.wire(), d1.wire(), d2.wire())),
            ("secant", lambda disp: newton_secant(_f1, x0, args=a0, tol=tol, maxiter=maxiter, disp=disp),
             "f=%s k1=%s k2=%s" % (e.wire(), fx(K1), fx(K2))),
        ]
        for name, call, fpart in runs:
            out0, r0 = res_str(lambda: call(False))
            out1, _ = res_str(lambda: call(True))
            ctx.count("%s:fam:%s" % (name, fam))
            rep = {"op": name, "f": e.wire(), "x0": x0, "tol": tol, "maxiter": maxiter, "disp=False": out0, "disp=True": out1}
            if tol <= 0 or maxiter < 1:
                ctx.count(name + ":bad-parameter")
                if out0 != "ERR:ValueError" or out1 != "ERR:ValueError":
                    ctx.spec_fail(name + "_params", "%s accepted tol=%r maxiter=%r" % (name, tol, maxiter), rep)
            elif r0 is None:
                ctx.spec_fail(name + "_raise_nodisp", "%s raised %s with disp=False" % (name, out0), rep)
            else:
                root, calls, iters, conv = float(r0.root), int(r0.function_calls), int(r0.iterations), bool(r0.converged)
                if conv and out1 != out0:
                    ctx.spec_fail(name + "_disp", "%s: disp=True changes a converged result" % name, rep)
                if not conv and out1 != "ERR:RuntimeError":
                    ctx.spec_fail(name + "_disp", "%s: not converged, disp=True did not raise RuntimeError" % name, rep)
                if iters > maxiter:
                    ctx.spec_fail(name + "_iters", "%s: iterations %d > maxiter %d" % (name, iters, maxiter), rep)
                froot = e.ev(root, exact=False)
                if conv:
                    ctx.count(name + ":converged")
                    if name != "secant":
                        # calls = 2*iters (+1 when the exit is f == 0)
                        if calls == 2 * iters + 1:
                            ctx.count(name + ":exit-f-zero")
                            if froot != 0:
                                ctx.spec_fail(name + "_status", "%s: exit through fval==0 but f(root) != 0" % name, rep)
                        elif calls != 2 * iters:
                            ctx.spec_fail(name + "_calls", "%s: calls=%d iterations=%d inconsistent" % (name, calls, iters), rep)
                    elif calls != iters + 1:
                        ctx.spec_fail(name + "_calls", "secant: calls=%d iterations=%d inconsistent" % (calls, iters), rep)
                    if basin and name == "secant" and s < 1:
                        # the secant start p1 = x0*(1+1e-4) + 1e-4 is an *absolute* perturbation: below unit scale
                        # the second point is far outside the basin and the step test can fire far from the root
                        # (observed: x^3 - 2^-63 from x0 = 2^-20, tol 9.5e-11 -> "converged" at 9.535e-07, root 4.77e-07)
                        ctx.count("secant:accuracy-not-claimed-below-unit-scale")
                    elif basin and tol > s / 1024:
                        # step < tol bounds the error only once the iteration is in its fast-convergence regime,
                        # i.e. for tol small against the scale of the problem (Newton on u(u^2+s^2) from u = 1.8 s
                        # takes a step 0.72 s and lands 1.1 s from the root)
                        ctx.count(name + ":accuracy-not-claimed-tol-vs-scale")
                    elif basin and not e.has_exp():
                        ctx.count(name + ":accuracy-checked")
                        # monotone-convergent start: result within tol of the exact root
                        # tol plus a rounding envelope of 8 ulp (tol may be below the spacing of doubles at root)
                        t = Fraction(tol) * SLACK + 8 * Fraction(EPS) * abs(Fraction(root))
                        lo, hi = Fraction(root) - t, Fraction(root) + t
                        if fam == "x2-c":
                            lo = max(lo, Fraction(0))          # the positive root
                        if fam == "rational":
                            lo = max(lo, Fraction(-1, 2))      # right of the pole
                        try:
                            ok = sign(e.ev(lo)) * sign(e.ev(hi)) <= 0
                        except ZeroDivisionError:
                            ok = True
                        if not ok:
                            ctx.spec_fail(name + "_accuracy", "%s: converged=True from a start in the basin but no root "
                                          "within tol=%r of %r" % (name, tol, root), rep)
                else:
                    ctx.count(name + ":not-converged")
                    if iters != maxiter:
                        # the only other non-converged exit: derivative zero (newton / halley)
                        if name == "secant" or d1.ev(root, exact=False) != 0:
                            ctx.spec_fail(name + "_premature_fail", "%s: converged=False after %d of %d iterations "
                                          "without a zero derivative" % (name, iters, maxiter), rep)
                        else:
                            ctx.count(name + ":zero-derivative")
            for disp, out in ((0, out0), (1, out1)):
                line = "C17 %s sc=float %s x0=%s tol=%s maxiter=%d disp=%d" % (name, fpart, fx(x0), fx(tol), maxiter, disp)
                cases.append(Case(line, out, nontrivial=(r0 is not None and r0.iterations >= 2), tag=name))


def gen_open_special(ctx, cases):
    """special start values (exactly zero of every kind, subnormals, the root itself, its neighbours) for functions
    with a unique simple root that is NOT at the start and whose basin contains the start: the accuracy clause
    'converged=True => within tol of the root' must hold, unless f(root) == 0 in doubles or the run took the
    documented flat-secant exit on a genuinely flat function (f(p0) == f(p1) with p0 != p1)."""
    from quantecon.optimize.root_finding import newton, newton_halley, newton_secant
    rng = ctx.rng
    K1, K2 = 1 + 1e-4, 1e-4
    probs = []
    for r in (1.0, -1.0, 2.5, -0.375, 3.0, 0.5):
        probs.append(("lin", C(rng.choice([2.0, -0.5, 1.0])) * (X - C(r)), Fraction(r)))
    for r in (1.0, 2.0, -1.5, 3.5):
        u = X - C(r)
        probs.append(("cubic-mono", u * (u * u + C(1.0)), Fraction(r)))
    for c_ in (0.5, 0.25, 0.75):
        probs.append(("rational", X / (C(1.0) + X) - C(c_), Fraction(c_) / (1 - Fraction(c_))))
    for fam, e, root in probs:
        starts = [("+0.0", 0.0), ("-0.0", -0.0), ("np.float64(0)", np.float64(0.0)), ("int 0", 0),
                  ("subnormal", 5e-324), ("-subnormal", -5e-324), ("1e-310", 1e-310),
                  ("root", float(root)), ("root+ulp", float(np.nextafter(float(root), 10.0))),
                  ("root-ulp", float(np.nextafter(float(root), -10.0)))]
        if fam == "rational":
            starts = [st for st in starts if not st[0].startswith("-")]
        d1 = e.d()
        d2 = d1.d()
        a0, a1, a2 = e.arrays(), d1.arrays(), d2.arrays()
        args3 = a0 + a1 + a2
        for label, x0 in starts:
            tol = rng.choice([1.48e-8, 1e-10, 1e-6])
            maxiter = rng.choice([50, 50, 200])
            xf0 = float(x0)
            runs = [("secant", lambda disp: newton_secant(_f1, x0, args=a0, tol=tol, maxiter=maxiter, disp=disp),
                     "f=%s k1=%s k2=%s" % (e.wire(), fx(K1), fx(K2)))]
            if not isinstance(x0, int):          # integer starts: one extra specialisation is enough
                runs += [("newton", lambda disp: newton(_g0, x0, _g1, args=args3, tol=tol, maxiter=maxiter, disp=disp),
                          "f=%s fp=%s" % (e.wire(), d1.wire())),
                         ("halley", lambda disp: newton_halley(_g0, x0, _g1, _g2, args=args3, tol=tol, maxiter=maxiter,
                                                              disp=disp),
                          "f=%s fp=%s fpp=%s" % (e.wire(), d1.wire(), d2.wire()))]
            for name, call, fpart in runs:
                out0, r0 = res_str(lambda: call(False))
                out1, _ = res_str(lambda: call(True))
                ctx.count("%s:special-start:%s" % (name, label))
                rep = {"op": name, "family": fam, "f": e.wire(), "x0": repr(x0), "start": label, "true_root": float(root),
                       "tol": tol, "maxiter": maxiter, "disp=False": out0, "disp=True": out1}
                if r0 is None:
                    ctx.spec_fail(name + "_raise_nodisp", "%s raised %s with disp=False" % (name, out0), rep)
                else:
                    rt, conv = float(r0.root), bool(r0.converged)
                    if conv and out1 != out0:
                        ctx.spec_fail(name + "_disp", "%s: disp=True changes a converged result" % name, rep)
                    if not conv and out1 != "ERR:RuntimeError":
                        ctx.spec_fail(name + "_disp", "%s: not converged, disp=True did not raise RuntimeError" % name, rep)
                    if conv:
                        err = abs(Fraction(rt) - root)
                        allowed = Fraction(tol) * SLACK + 8 * Fraction(EPS) * abs(Fraction(rt))
                        if e.ev(rt, exact=False) == 0 or err <= allowed:
                            ctx.count(name + ":special-start-accurate")
                        else:
                            # the documented third exit of the secant method: first pass, two DIFFERENT points with
                            # equal function values
                            p1 = xf0 * K1 + K2 if xf0 >= 0 else xf0 * K1 - K2
                            flat = (name == "secant" and int(r0.iterations) == 1 and p1 != xf0 and
                                    e.ev(xf0, exact=False) == e.ev(p1, exact=False))
                            if flat:
                                ctx.count("secant:documented-flat-exit")
                            else:
                                ctx.spec_fail(name + "_accuracy", "%s: converged=True at %r from the start %s (in the basin of "
                                              "the simple root %r), error %.3e > tol %g and f(root) != 0" % (
                                                  name, rt, label, float(root), float(err), tol), rep)
                    else:
                        ctx.count(name + ":special-start-not-converged")
                for disp, out in ((0, out0), (1, out1)):
                    line = "C17 %s sc=float %s x0=%s tol=%s maxiter=%d disp=%d" % (name, fpart, fx(xf0), fx(tol), maxiter, disp)
                    cases.append(Case(line, out, nontrivial=(r0 is not None and r0.iterations >= 2), tag=name))


# ----------------------------------------------------------------------------------------
# brent_max


def gen_brentmax(ctx, cases, n):
    from quantecon.optimize.scalar_maximization import brent_max
    rng = ctx.rng
    SQ = float(np.sqrt(2.2e-16))
    GM = float(0.5 * (3.0 - np.sqrt(5.0)))
    for i in range(n):
        fam = rng.choice(["quad", "quart", "cauchy", "asym", "boundary-lo", "boundary-hi", "mono-rational", "flat"])
        k = rng.choice([0, 0, 0, 6, -6, 16, -16])
        s = Fraction(2) ** k
        fs = float(s)
        m = dyad(rng, -3, 3)
        a = m - dyad(rng, 1, 256, 6) / 16
        b = m + dyad(rng, 1, 256, 6) / 16
        u = X - C(float(m * s))
        xstar = m * s
        if fam == "quad":
            e = -(u * u)
        elif fam == "quart":
            e = -(u * u * u * u)
        elif fam == "cauchy":
            e = C(fs * fs) / (C(fs * fs) + u * u)
        elif fam == "asym":
            # (x-m)/(s^2+(x-m)^2) on [m, m+5s]: max at m+s
            e = u / (C(fs * fs) + u * u)
            a, b = m, m + dyad(rng, 2, 8)
            xstar = (m + 1) * s
        elif fam == "boundary-lo":
            e = -(u * u)
            a, b = m + dyad(rng, 0, 2), m + dyad(rng, 3, 6)
            xstar = a * s
        elif fam == "boundary-hi":
            e = -(u * u)
            a, b = m - dyad(rng, 3, 6), m - dyad(rng, 0, 2)
            xstar = b * s
        elif fam == "mono-rational":
            e = X / (C(fs) + X)           # increasing on x > -s
            a, b = dyad(rng, 0, 2), dyad(rng, 3, 9)
            xstar = b * s
        else:
            e = C(float(dyad(rng, -2, 2))) + C(0.0) * X
            xstar = None
        af, bf = float(a * s), float(b * s)
        xtol = rng.choice([1e-5, 1e-12, 1e-10, 1e-8, 1e-6, 1e-4, 1e-2]) * (fs if rng.random() < 0.8 else 1.0)
        maxiter = rng.choice([500, 500, 500, 100, 30, 10, 5, 3, 2, 1])
        if rng.random() < 0.05:
            af, bf = bf, af               # a >= b → ValueError
        if rng.random() < 0.03:
            bf = af
        e_clean = e
        poisoned = af < bf and rng.random() < 0.25
        if poisoned:
            # +inf exactly at the two end points, negligible inside: an evaluation of f at an end point would make
            # that end point the reported maximiser (theorem brentMax_box: f is only evaluated strictly inside)
            e = e + C(1e-300) / ((X - C(af)) * (C(bf) - X))
            ctx.count("brentmax:poisoned-end-points")
        args = e.arrays()
        ctx.count("brentmax:fam:" + fam)
        rep = {"op": "brent_max", "f": e.wire(), "a": af, "b": bf, "xtol": xtol, "maxiter": maxiter}
        try:
            xf, fval, info = brent_max(_f1, af, bf, args=args, xtol=xtol, maxiter=maxiter)
            xf, fval, flag, num = float(xf), float(fval), int(info[0]), int(info[1])
            out = "%s %s %d %d" % (fx(xf), fx(fval), flag, num)
        except ValueError:
            out = "ERR:ValueError"
        rep["got"] = out
        if not af < bf:
            ctx.count("brentmax:bad-interval")
            if out != "ERR:ValueError":
                ctx.spec_fail("brent_max_interval", "brent_max accepted a >= b", rep)
        elif out == "ERR:ValueError":
            ctx.spec_fail("brent_max_spurious_valueerror", "brent_max raised on a valid interval", rep)
        else:
            if not (af <= xf <= bf):
                ctx.spec_fail("brent_max_outside", "brent_max: xf=%r outside [a,b]" % xf, rep)
            if poisoned and (xf == af or xf == bf or math.isinf(fval) or math.isnan(fval)):
                ctx.spec_fail("brent_max_endpoint_evaluated", "brent_max evaluated f at an end point (xf=%r, fval=%r)" % (xf, fval), rep)
            fchk = e.ev(xf, exact=False)
            if fx(fchk) != fx(fval) and not (fchk == 0 and fval == 0):
                ctx.spec_fail("brent_max_fval", "brent_max: fval %r is not f(xf)=%r" % (fval, fchk), rep)
            if num > max(maxiter, 2):
                ctx.spec_fail("brent_max_num", "brent_max: %d function calls with maxiter=%d" % (num, maxiter), rep)
            # exact bookkeeping (theorem brentMax_box): flag=1 <=> the cap stopped the loop, then num = max(maxiter, 2)
            if (flag == 1 and num != max(maxiter, 2)) or (flag == 0 and not (num == 1 or num < maxiter)) or flag not in (0, 1):
                ctx.spec_fail("brent_max_flag", "brent_max: status_flag=%d with num=%d maxiter=%d" % (flag, num, maxiter), rep)
            ctx.count("brentmax:flag%d" % flag)
            if flag == 0 and xstar is not None:
                tol1 = Fraction(SQ) * abs(Fraction(xf)) + Fraction(xtol) / 3
                bound = 2 * tol1 * SLACK
                fs_, fx_ = e_clean.ev(Fraction(xstar)), e_clean.ev(Fraction(xf))
                if abs(Fraction(xf) - xstar) <= bound:
                    pass
                elif fs_ - fx_ <= 4 * Fraction(EPS) * abs(fs_):
                    # f(xf) and the maximum are the same double up to rounding: nothing left to resolve
                    ctx.count("brentmax:double-plateau")
                else:
                    ctx.spec_fail("brent_max_accuracy", "brent_max: |xf - x*| = %.3e > tol2 = %.3e" % (
                        float(abs(Fraction(xf) - xstar)), float(bound)), rep)
                if abs(Fraction(xf) - xstar) <= Fraction(xtol):
                    ctx.count("brentmax:within-xtol")
                else:
                    ctx.count("brentmax:within-tol2-only")
        line = "C17 brentmax sc=float f=%s a=%s b=%s xtol=%s sqrteps=%s gm=%s maxiter=%d" % (
            e.wire(), fx(af), fx(bf), fx(xtol), fx(SQ), fx(GM), maxiter)
        cases.append(Case(line, out, nontrivial=(out != "ERR:ValueError"), tag="brentmax"))


# ----------------------------------------------------------------------------------------
# nelder_mead on concave quadratics


@njit
def _quad(x, A, c, k):
    n = x.shape[0]
    s = 0.0
    for i in range(n):
        t = 0.0
        for j in range(n):
            t += A[i, j] * (x[j] - c[j])
        s += (x[i] - c[i]) * t
    return k - s


def quad_exact(A, c, k, x):
    n = len(c)
    d = [Fraction(x[i]) - Fraction(c[i]) for i in range(n)]
    return Fraction(k) - sum(d[i] * sum(Fraction(A[i][j]) * d[j] for j in range(n)) for i in range(n))


def _nm_bounds_inert(rb, ru):
    """True when the bounded run `rb` and the unbounded run `ru` on the same input are bit-identical."""
    return (rb.nit == ru.nit and rb.success == ru.success and
            np.asarray(rb.x).tobytes() == np.asarray(ru.x).tobytes() and
            np.float64(rb.fun).tobytes() == np.float64(ru.fun).tobytes() and
            np.asarray(rb.final_simplex[0]).tobytes() == np.asarray(ru.final_simplex[0]).tobytes())


def box_qp_max(A, c, k, bounds):
    """exact maximiser of the concave quadratic over the box, by enumerating active sets
    (n <= 3): returns (value, point) as Fractions"""
    import itertools
    n = len(c)
    best = None
    for pattern in itertools.product((0, 1, 2), repeat=n):      # 0 free, 1 at lower, 2 at upper
        x = [None] * n
        for i, p in enumerate(pattern):
            if p == 1:
                x[i] = Fraction(bounds[i][0])
            elif p == 2:
                x[i] = Fraction(bounds[i][1])
        free = [i for i in range(n) if pattern[i] == 0]
        if free:
            # stationarity in the free coordinates: sum_j S_ij (x_j - c_j) = 0, S = A + A^T
            S = [[Fraction(A[i][j]) + Fraction(A[j][i]) for j in range(n)] for i in range(n)]
            M = [[S[i][j] for j in free] + [-sum(S[i][j] * (x[j] - Fraction(c[j])) for j in range(n) if x[j] is not None)]
                 for i in free]
            m = len(free)
            ok = True
            for col in range(m):
                piv = next((r for r in range(col, m) if M[r][col] != 0), None)
                if piv is None:
                    ok = False
                    break
                M[col], M[piv] = M[piv], M[col]
                M[col] = [v / M[col][col] for v in M[col]]
                for r in range(m):
                    if r != col and M[r][col] != 0:
                        M[r] = [a - M[r][col] * b for a, b in zip(M[r], M[col])]
            if not ok:
                continue
            for t, i in enumerate(free):
                x[i] = M[t][m] + Fraction(c[i])
        if all(Fraction(bounds[i][0]) <= x[i] <= Fraction(bounds[i][1]) for i in range(n)):
            v = quad_exact(A, c, k, x)
            if best is None or v > best[0]:
                best = (v, x)
    return best


def gen_neldermead(ctx, cases, n_cases):
    from quantecon.optimize.nelder_mead import nelder_mead
    rng = ctx.rng
    K105, ZD = 1 + 0.05, 0.00025
    fixed = [
        # (A, c, k, x0, bounds, tol_f, tol_x, max_iter): the two reported findings, replayed on every run
        ([[3.0625]], [2.25], -0.5, [0.625], None, 1e-10, 1e-10, 1000),
        ([[7.8125, -1.0], [1.0, 7.3125]], [-2.375, -3.375], 0.0, [0.71875, -5.125],
         [[0.59375, 6.59375], [-9.125, 0.625]], 1e-10, 1e-8, 1000),
        # witnesses of the PRE-repair shrink re-sort (`sort_ind[1:] = f_val[sort_ind[1:]].argsort() + 1`, repaired in
        # /repo eb9b5d4): after one pass sort_ind was [2,1,2] (best slot = worst slot -> term_f -> success at nit=1) ...
        ([[1.8125, 0.75], [0.75, 6.5]], [0.75, -4.0], 0.0, [2.5, -1.625], [[2.4, 2.501], [-1.725, -1.525]],
         1e-10, 1e-10, 1000),
        # ... and the old best kept in front of a better shrunk vertex (x is not the best row of final_simplex)
        ([[5.0, -1.25, -1.0], [-1.25, 2.0625, 1.375], [-1.0, 1.375, 9.375]], [-3.875, -2.5, 0.125], 0.0,
         [-6.75, -3.75, 0.5], [[-6.75, -3.75], [-3.85, -3.749], [0.5, 3.5]], 1e-10, 1e-10, 1000),
    ]
    # starts exactly ON the bounds: every combination of {lower face, upper face, interior} per coordinate,
    # dimensions 1-3 (a point on a face is inside the bounds: both inequalities of _check_bounds are weak)
    import itertools
    faces = [pat for n_ in (1, 2, 3) for pat in itertools.product("LUI", repeat=n_) if set(pat) != {"I"}]
    n_faces = len(faces) * ctx.n(1, 3)
    for it in range(-len(fixed) - n_faces, n_cases):
        n = rng.choice([1, 2, 2, 3])
        # A = L L^T + diag, small dyadic entries: symmetric positive definite
        L = [[float(dyad(rng, -2, 2, 2)) if j <= i else 0.0 for j in range(n)] for i in range(n)]
        A = [[sum(L[i][t] * L[j][t] for t in range(n)) + (float(dyad(rng, 1, 8, 2)) if i == j else 0.0)
              for j in range(n)] for i in range(n)]
        if rng.random() < 0.3:
            # not symmetric (same quadratic form as its symmetric part)
            for i in range(n):
                for j in range(i + 1, n):
                    t = float(dyad(rng, -1, 1, 2))
                    A[i][j] += t
                    A[j][i] -= t
        c = [float(dyad(rng, -4, 4, 3)) for _ in range(n)]
        k = float(dyad(rng, -3, 3, 2))
        kind = rng.choice(["free", "free", "box-inactive", "box-active", "box-active", "start-on-bound", "start-outside", "tight",
                           "pinched", "pinched"])
        x0 = [ci + float(dyad(rng, -3, 3, 3)) for ci in c]
        if rng.random() < 0.2:
            x0[rng.randrange(n)] = 0.0          # the zdelt branch of the initial simplex
        bounds = None
        if kind == "box-inactive":
            bounds = [[min(ci, xi) - 4.0, max(ci, xi) + 4.0] for ci, xi in zip(c, x0)]
        elif kind == "box-active":
            bounds = []
            for ci, xi in zip(c, x0):
                if rng.random() < 0.6:
                    lo = ci + float(dyad(rng, 1, 16, 3)) / 4      # optimum cut off from below
                    bounds.append([lo, lo + 6.0])
                else:
                    bounds.append([min(ci, xi) - 4.0, max(ci, xi) + 4.0])
            x0 = [min(max(xi, b[0] + 0.125), b[1] - 0.5) for xi, b in zip(x0, bounds)]
        elif kind == "start-on-bound":
            bounds = [[xi, max(xi, ci) + 3.0] for ci, xi in zip(c, x0)]
        elif kind == "start-outside":
            bounds = [[xi + 0.5, xi + 5.0] for xi in x0]         # every initial vertex infeasible
        elif kind == "pinched":
            # x0 feasible, some of the other initial vertices cut off: shrink steps with a non-identity sort_ind
            bounds = [[xi - rng.choice([0.0, 0.01, 0.1, 1.0, 3.0]), xi + rng.choice([0.001, 0.01, 0.1, 1.0, 3.0])] for xi in x0]
        elif kind == "tight":
            bounds = [[xi - 0.001, xi + abs(xi) * 0.02 + 0.0001] for xi in x0]
        tol_f = rng.choice([1e-10, 1e-10, 1e-8, 1e-6, 1e-3])
        tol_x = rng.choice([1e-10, 1e-10, 1e-8, 1e-4])
        max_iter = rng.choice([1000, 1000, 1000, 200, 30, 5, 1, 0])
        if it < -len(fixed):
            pat = faces[(it + len(fixed) + n_faces) % len(faces)]
            n, kind = len(pat), "on-faces"
            L = [[float(dyad(rng, -2, 2, 2)) if j <= i else 0.0 for j in range(n)] for i in range(n)]
            A = [[sum(L[i][t] * L[j][t] for t in range(n)) + (float(dyad(rng, 1, 8, 2)) if i == j else 0.0)
                  for j in range(n)] for i in range(n)]
            c = [float(dyad(rng, -4, 4, 3)) for _ in range(n)]
            k = float(dyad(rng, -3, 3, 2))
            x0 = [ci + float(dyad(rng, -3, 3, 3)) for ci in c]
            bounds = []
            for xi, fc in zip(x0, pat):
                w1, w2 = float(dyad(rng, 1, 24, 3)), float(dyad(rng, 1, 24, 3))
                bounds.append([xi, xi + w2] if fc == "L" else [xi - w1, xi] if fc == "U" else [xi - w1, xi + w2])
            ctx.count("nm:start-on-face:" + "".join(pat))
            tol_f, tol_x, max_iter = 1e-10, 1e-10, rng.choice([1000, 1000, 50, 3])
        elif it < 0:
            A, c, k, x0, bounds, tol_f, tol_x, max_iter = fixed[it + len(fixed)]
            n, kind = len(c), ("fixed" if it + len(fixed) < 2 else "fixed-witness")
        An, cn = np.array(A, dtype=np.float64).reshape(n, n), np.array(c, dtype=np.float64)
        x0n = np.array(x0, dtype=np.float64)
        # no bounds: shape (0, 2), C-contiguous like the bounded case (one Numba specialisation of the whole routine
        # instead of two; the default-style `np.array([[], []]).T` and the omitted argument rotate in gen_hardening)
        bn = np.array(bounds, dtype=np.float64) if bounds is not None else np.empty((0, 2))
        frozen_in = [v.tobytes() for v in (x0n, bn, An, cn)]
        res = nelder_mead(_quad, x0n, bounds=bn, args=(An, cn, k), tol_f=tol_f, tol_x=tol_x, max_iter=max_iter)
        if [v.tobytes() for v in (x0n, bn, An, cn)] != frozen_in:
            ctx.spec_fail("input_mutated", "nelder_mead modified one of x0 / bounds / args", {"x0": x0, "bounds": bounds})
        if any(np.shares_memory(res.x, v) or np.shares_memory(res.final_simplex, v) for v in (x0n, bn, An, cn)):
            ctx.spec_fail("nm_alias_input", "nelder_mead: a returned array shares memory with an input", {"x0": x0, "bounds": bounds})
        x, fun, ok, nit, simplex = [float(t) for t in res.x], float(res.fun), bool(res.success), int(res.nit), res.final_simplex.tolist()
        ctx.count("nm:kind:" + kind)
        ctx.count("nm:n=%d" % n)
        ctx.count("nm:success" if ok else "nm:max_iter-hit")
        rep = {"op": "nelder_mead", "A": A, "c": c, "k": k, "x0": x0, "bounds": bounds, "tol_f": tol_f, "tol_x": tol_x,
               "max_iter": max_iter, "x": x, "fun": fun, "success": ok, "nit": nit}
        # ---- spec oracle (exact, model-independent) ----
        init = [list(x0)]
        for i in range(n):
            v = list(x0)
            v[i] = v[i] * K105 if v[i] != 0 else ZD
            init.append(v)

        def feas(v):
            return bounds is None or all(b[0] <= vi <= b[1] for vi, b in zip(v, bounds))
        init_feas = [v for v in init if feas(v)]
        if not any(x == v for v in simplex):
            ctx.spec_fail("nm_vertex", "nelder_mead: x is not a vertex of the final simplex", rep)
        if feas(x):
            fchk = float(_quad.py_func(np.array(x), An, cn, k))
            if fx(fchk) != fx(fun) and not (fchk == 0 and fun == 0):
                ctx.spec_fail("nm_fun", "nelder_mead: fun=%r is not f(x)=%r" % (fun, fchk), rep)
        elif fun != -math.inf:
            ctx.spec_fail("nm_fun", "nelder_mead: x outside the bounds but fun=%r" % fun, rep)
        if init_feas:
            ctx.count("nm:some-initial-vertex-feasible")
            if not feas(x):
                ctx.spec_fail("nm_bounds", "nelder_mead: returned x=%r violates the bounds although an initial vertex "
                              "is feasible" % x, rep)
            else:
                best0 = max(quad_exact(A, c, k, v) for v in init_feas)
                # f is evaluated in doubles: allow the rounding of one evaluation
                slack0 = 64 * Fraction(EPS) * (abs(best0) + 1)
                if quad_exact(A, c, k, x) < best0 - slack0:
                    ctx.spec_fail("nm_monotone", "nelder_mead: f(x)=%r is below the best initial vertex %r" % (
                        float(quad_exact(A, c, k, x)), float(best0)), rep)
                elif math.isnan(fun) or math.isinf(fun) or Fraction(fun) < best0 - slack0:
                    ctx.spec_fail("nm_monotone", "nelder_mead: reported fun=%r is below the best (feasible) initial vertex "
                                  "value %r" % (fun, float(best0)), rep)
        else:
            ctx.count("nm:all-initial-vertices-infeasible")
        # observable traces of a corrupted sort_ind (counters; the property does not promise these)
        # x must be the best row of final_simplex (theorem nm_sort_ind_sorting_permutation; judged on the doubles
        # the code itself computed, i.e. the same evaluation order; exact ties allowed)
        feas_rows = [v for v in simplex if feas(v)]
        if feas_rows and feas(x):
            fbest = max(float(_quad.py_func(np.array(v), An, cn, k)) for v in feas_rows)
            if fbest > fun:
                ctx.count("nm:x-not-best-row-of-final_simplex")
                ctx.spec_fail("nm_x_not_best_row", "nelder_mead: a feasible row of final_simplex has f=%r > fun=%r "
                              "(sort_ind does not sort f_val)" % (fbest, fun), rep)
        elif feas_rows and not feas(x):
            ctx.count("nm:x-not-best-row-of-final_simplex")
            ctx.spec_fail("nm_x_not_best_row", "nelder_mead: x is infeasible although final_simplex has a feasible row", rep)
        if ok and nit <= 2 and max_iter > 2:
            ctx.count("nm:success-within-2-passes")
        if kind == "fixed-witness":
            # W1 / W2: the inputs on which the pre-repair shrink re-sort stopped with success at nit=1
            if nit <= 2:
                ctx.spec_fail("nm_shrink_resort_regression", "nelder_mead: witness of the old shrink re-sort stops after "
                              "%d pass(es) again" % nit, rep)
            else:
                ctx.count("nm:witness-probe-passes")
        if nit > max_iter:
            ctx.spec_fail("nm_nit", "nelder_mead: nit=%d > max_iter=%d" % (nit, max_iter), rep)
        if ok and init_feas and tol_f <= 1e-8 and tol_x <= 1e-8:
            box = bounds if bounds is not None else [[-1e6, 1e6]] * n
            vstar, xstar = box_qp_max(A, c, k, box)
            gap = vstar - quad_exact(A, c, k, x)
            if gap <= Fraction(1, 10 ** 6) * (1 + abs(vstar)):
                ctx.count("nm:success-at-maximiser")
            elif bounds is not None and (
                    any(xs in (Fraction(b[0]), Fraction(b[1])) for xs, b in zip(xstar, bounds)) or
                    any(min(xi - b[0], b[1] - xi) <= 1e-2 * (b[1] - b[0]) for xi, b in zip(x, bounds))):
                # a bound is active at the maximiser or at the returned point: the +inf penalty lets the simplex
                # collapse (LV_ratio < tol_x) against the bound, away from the constrained maximiser
                ctx.count("nm:success-away-from-maximiser:" + kind)
                ctx.spec_fail("nm_success_not_maximiser_bounded", "nelder_mead: success=True with active bounds but f(x) is "
                              "%.3e below the constrained maximum" % float(gap), rep)
            elif max(max(abs(p - q) for p, q in zip(v, x)) for v in simplex) > 1e-4:
                # wide final simplex: the run ended on `term_f` (equal function values) alone
                ctx.count("nm:success-away-from-maximiser:" + kind)
                ctx.spec_fail("nm_success_f_tie", "nelder_mead: success=True on equal f-values at a wide simplex, f(x) is "
                              "%.3e below the maximum" % float(gap), rep)
            elif min((abs(v) * 0.05 if v != 0 else ZD) for v in x0) <= 1e-3 and (bounds is None or _nm_bounds_inert(
                    res, nelder_mead(_quad, x0n, args=(An, cn, k), tol_f=tol_f, tol_x=tol_x, max_iter=max_iter))):
                # an initial edge of the simplex is tiny (x0[i] = 0 gives 0.00025): LV_ratio measures the volume
                # relative to the INITIAL simplex, so term_x fires on a thin simplex that has not reached the maximiser.
                # Bounds that no vertex ever touched do not make this a different call: the unbounded run on the same
                # input must be bit-identical (x, fun, nit, final_simplex), otherwise the generic key below applies.
                ctx.count("nm:success-away-from-maximiser:" + kind)
                ctx.spec_fail("nm_success_tiny_initial_edge", "nelder_mead: success=True from a start with a tiny initial "
                              "simplex edge, f(x) is %.3e below the maximum (narrow final simplex)" % float(gap), rep)
            else:
                ctx.count("nm:success-away-from-maximiser:" + kind)
                ctx.spec_fail("nm_success_not_maximiser", "nelder_mead: success=True on a concave quadratic (no active "
                              "bound at the maximiser) but f(x) is %.3e below the maximum" % float(gap), rep)
        line = "C17 neldermead sc=float A=%s c=%s k=%s x0=%s bounds=%s tolf=%s tolx=%s maxiter=%d k105=%s zdelt=%s pinf=%s" % (
            ";".join(",".join(fx(v) for v in row) for row in A), ",".join(fx(v) for v in c), fx(k),
            ",".join(fx(v) for v in x0), "-" if bounds is None else ";".join(",".join(fx(v) for v in b) for b in bounds),
            fx(tol_f), fx(tol_x), max_iter, fx(K105), fx(ZD), fx(math.inf))
        out = "%s %s %d %d %s" % (",".join(fx(v) for v in x), fx(fun), 1 if ok else 0, nit,
                                  ";".join(",".join(fx(v) for v in row) for row in simplex))
        cases.append(Case(line, out, nontrivial=(nit >= 2), tag="neldermead"))

        def seen(mo, _impl, ctx=ctx):
            parts = mo.split(" ")
            if len(parts) != 4:
                return "unreadable sort_ind trace"
            if parts[1] == "0":
                ctx.count("nm:model-final-sort_ind-not-a-permutation")
            if parts[2] == "0":
                ctx.count("nm:model-final-sort_ind-does-not-sort-f_val")
            if parts[3] == "1":
                ctx.count("nm:model-best-slot-equals-worst-slot")
            return None
        cases.append(Case(line + " trace=sind", "", nontrivial=False, cmp=seen, tag="nm-sort_ind-trace"))


# ----------------------------------------------------------------------------------------
# _check_params / _nelder_mead_algorithm (caller-supplied simplex and coefficients) / brent_max argument checks


def gen_nmalgo(ctx, cases):
    import importlib
    nm_mod = importlib.import_module("quantecon.optimize.nelder_mead")
    from quantecon.optimize.scalar_maximization import brent_max
    rng = ctx.rng

    def mat(m):
        return "-" if len(m) == 0 else ";".join(",".join(fx(v) for v in row) for row in m)

    # ---- _check_params: every inequality at, just inside and just outside its boundary; every bounds shape ----
    grid = {"rho": [1.0, 0.5, 2.0, 0.0, -0.25, 1e-300], "chi": [2.0, 1.0, 0.99, 3.5, 1.5], "gamma": [0.5, 0.0, 1.0, -0.1, 1.01, 0.25],
            "sigma": [0.5, 0.0, 1.0, -0.5, 1.5, 0.75]}
    for it in range(ctx.n(60, 600)):
        n = rng.choice([1, 2, 3])
        if rng.random() < 0.5:
            rho, chi, gam, sig = 1.0, 2.0, 0.5, 0.5
            which = rng.choice(list(grid) + ["none"])
            if which != "none":
                v = rng.choice(grid[which])
                rho, chi, gam, sig = (v if which == "rho" else rho, v if which == "chi" else chi,
                                      v if which == "gamma" else gam, v if which == "sigma" else sig)
        else:
            rho, chi, gam, sig = (rng.choice(grid[k]) for k in ("rho", "chi", "gamma", "sigma"))
        shape = rng.choice(["(n,2)", "(n,2)", "(0,2)", "(0,2)", "(n,2) lo>hi", "(n,2) lo=hi", "(n+1,2)", "(n-1,2)", "(n,3)", "(0,3)", "(n,1)"])
        if shape == "(0,2)":
            b = np.empty((0, 2))
        elif shape == "(0,3)":
            b = np.empty((0, 3))
        elif shape == "(n,3)":
            b = np.array([[0.0, 1.0, 2.0]] * n)
        elif shape == "(n,1)":
            b = np.array([[0.0]] * n)
        else:
            rows = n + 1 if shape == "(n+1,2)" else n - 1 if shape == "(n-1,2)" else n
            b = np.array([[float(dyad(rng, -4, 0, 2)), float(dyad(rng, 1, 4, 2))] for _ in range(rows)]).reshape(rows, 2)
            if shape == "(n,2) lo>hi":
                i = rng.randrange(n)
                b[i, 0], b[i, 1] = b[i, 1], b[i, 0]
            if shape == "(n,2) lo=hi":
                b[rng.randrange(n), 1] = b[rng.randrange(n), 0] if n == 1 else b[0, 0]
                b[0, 1] = b[0, 0]
        try:
            nm_mod._check_params(rho, chi, gam, sig, b, n)
            out = "ok"
        except ValueError:
            out = "ERR:ValueError"
        ctx.count("checkparams:" + out)
        ctx.count("checkparams:shape:" + shape)
        rep = {"op": "_check_params", "rho": rho, "chi": chi, "gamma": gam, "sigma": sig, "bounds": b.tolist(),
               "bounds_shape": list(b.shape), "n": n, "got": out}
        shape_ok = b.shape == (0, 2) or b.shape == (n, 2)
        crossed = shape_ok and b.shape[0] > 0 and bool((b[:, 0] > b[:, 1]).any())
        clearly_bad = rho < 0 or chi < 1 or chi < rho or gam < 0 or gam > 1 or sig < 0 or sig > 1 or not shape_ok or crossed
        on_boundary = (not clearly_bad) and (rho == 0 or chi == 1 or chi == rho or gam in (0.0, 1.0) or sig in (0.0, 1.0))
        if clearly_bad and out != "ERR:ValueError":
            ctx.spec_fail("nm_check_params_accepts_invalid", "_check_params accepted an invalid combination", rep)
        if not clearly_bad and not on_boundary and out != "ok":
            ctx.spec_fail("nm_check_params_rejects_valid", "_check_params rejected a valid combination", rep)
        if on_boundary:
            ctx.count("checkparams:boundary-value:" + out)
            if out == "ok":
                # the messages say "strictly" (rho > 0, chi > max(1, rho), 0 < gamma, sigma < 1); the tests are weak
                finding(ctx, "nm_check_params_boundary_accepted", "_check_params accepts a boundary value that its own message "
                        "excludes (rho=0, chi=1, chi=rho, gamma or sigma in {0,1})", rep)
        cases.append(Case("C17 checkparams sc=float rho=%s chi=%s gamma=%s sigma=%s br=%d bc=%d bounds=%s n=%d" % (
            fx(rho), fx(chi), fx(gam), fx(sig), b.shape[0], b.shape[1], mat(b.tolist()), n), out,
            nontrivial=(out == "ok" or shape.startswith("(n,2)")), tag="checkparams"))

    # ---- brent_max: non-finite end points (malformed stream) ----
    eh = -((X - C(0.3)) * (X - C(0.3)))
    ah = eh.arrays()
    SQ = float(np.sqrt(2.2e-16))
    GM = float(0.5 * (3.0 - np.sqrt(5.0)))
    for a_, b_ in [(math.inf, 1.0), (-math.inf, 1.0), (0.0, math.inf), (0.0, -math.inf), (math.nan, 1.0), (0.0, math.nan),
                   (-math.inf, math.inf), (math.nan, math.nan), (1.0, 1.0), (2.0, 1.0), (0.0, 1.0)]:
        try:
            xf, fval, info = brent_max(_f1, a_, b_, args=ah, xtol=1e-5, maxiter=50)
            out = "%s %s %d %d" % (fx(float(xf)), fx(float(fval)), int(info[0]), int(info[1]))
        except ValueError:
            out = "ERR:ValueError"
        ctx.count("brentmax:argument-check:" + ("raised" if out.startswith("ERR") else "ran"))
        bad = not (math.isfinite(a_) and math.isfinite(b_) and a_ < b_)
        if bad != (out == "ERR:ValueError"):
            ctx.spec_fail("brent_max_argument_check", "brent_max(a=%r, b=%r): %s" % (a_, b_, out), {"a": repr(a_), "b": repr(b_), "got": out})
        cases.append(Case("C17 brentmax sc=float f=%s a=%s b=%s xtol=%s sqrteps=%s gm=%s maxiter=50" % (
            eh.wire(), fx(a_), fx(b_), fx(1e-5), fx(SQ), fx(GM)), out, nontrivial=not bad, tag="brentmax-args"))

    # ---- _nelder_mead_algorithm with caller-supplied simplex and coefficients (a separate compilation of the whole
    # routine: one quick run in six, every thorough run) ----
    if not ctx.thorough and rng.randrange(6) != 0:
        return
    for it in range(ctx.n(40, 300)):
        n = rng.choice([1, 2, 2, 3])
        L = [[float(dyad(rng, -2, 2, 2)) if j <= i else 0.0 for j in range(n)] for i in range(n)]
        A = [[sum(L[i][t] * L[j][t] for t in range(n)) + (float(dyad(rng, 1, 8, 2)) if i == j else 0.0) for j in range(n)] for i in range(n)]
        c = [float(dyad(rng, -4, 4, 3)) for _ in range(n)]
        k = float(dyad(rng, -3, 3, 2))
        base = [ci + float(dyad(rng, -3, 3, 3)) for ci in c]
        V = [list(base)] + [[bj + (float(dyad(rng, 1, 16, 4)) * rng.choice([1, -1]) if j == i else float(dyad(rng, -4, 4, 4)) / 4)
                             for j, bj in enumerate(base)] for i in range(n)]
        rho = rng.choice([1.0, 1.0, 1.5, 0.75])
        chi = rng.choice([2.0, 2.5, 3.0])
        gam = rng.choice([0.5, 0.25, 0.75])
        sig = rng.choice([0.5, 0.5, 0.25, 0.75])
        if rng.random() < 0.12:
            which = rng.randrange(4)
            rho, chi, gam, sig = (-1.0 if which == 0 else rho, 0.5 if which == 1 else chi, 1.5 if which == 2 else gam, -0.5 if which == 3 else sig)
        kind = rng.choice(["free", "free", "box", "box-cut"])
        if kind == "free":
            bounds = np.empty((0, 2))
        elif kind == "box":
            bounds = np.array([[min(v[j] for v in V) - 2.0, max(max(v[j] for v in V), c[j]) + 2.0] for j in range(n)])
        else:
            bounds = np.array([[base[j] - 0.25, base[j] + 3.0] for j in range(n)])
        tol_f, tol_x, max_iter = rng.choice([1e-10, 1e-6]), rng.choice([1e-10, 1e-6]), rng.choice([500, 500, 40, 3, 0])
        An, cn = np.array(A).reshape(n, n), np.array(c)
        Vn = np.array(V)
        try:
            res = nm_mod._nelder_mead_algorithm(_quad, Vn, bounds, (An, cn, k), rho, chi, gam, sig, tol_f, tol_x, max_iter)
            x, fun = [float(t) for t in res.x], float(res.fun)
            simplex = res.final_simplex.tolist()
            out = "%s %s %d %d %s" % (",".join(fx(v) for v in x), fx(fun), 1 if res.success else 0, int(res.nit), mat(simplex))
        except ValueError:
            res, out = None, "ERR:ValueError"
        ctx.count("nmalgo:" + ("ERR" if res is None else "ran") + ":" + kind)
        rep = {"op": "_nelder_mead_algorithm", "A": A, "c": c, "k": k, "vertices": V, "bounds": bounds.tolist(), "rho": rho, "chi": chi,
               "gamma": gam, "sigma": sig, "tol_f": tol_f, "tol_x": tol_x, "max_iter": max_iter, "got": out[:200]}
        bad = rho < 0 or chi < 1 or chi < rho or not (0 <= gam <= 1) or not (0 <= sig <= 1)
        if bad != (res is None):
            ctx.spec_fail("nm_algorithm_param_check", "_nelder_mead_algorithm: coefficients %s, got %s" % (
                "invalid" if bad else "valid", out[:40]), rep)
        if res is not None:
            def feas(v):
                return bounds.shape[0] == 0 or all(bounds[j, 0] <= v[j] <= bounds[j, 1] for j in range(n))
            if not any(x == v for v in simplex):
                ctx.spec_fail("nm_vertex", "_nelder_mead_algorithm: x is not a row of final_simplex", rep)
            if feas(x):
                fchk = float(_quad.py_func(np.array(x), An, cn, k))
                if fx(fchk) != fx(fun) and not (fchk == 0 and fun == 0):
                    ctx.spec_fail("nm_fun", "_nelder_mead_algorithm: fun=%r is not f(x)=%r" % (fun, fchk), rep)
            init_feas = [v for v in V if feas(v)]
            if init_feas:
                if not feas(x):
                    ctx.spec_fail("nm_bounds", "_nelder_mead_algorithm: x infeasible although a starting row is feasible", rep)
                elif tol_f > 0:
                    best0 = max(quad_exact(A, c, k, v) for v in init_feas)
                    if quad_exact(A, c, k, x) < best0 - 64 * Fraction(EPS) * (abs(best0) + 1):
                        ctx.spec_fail("nm_monotone", "_nelder_mead_algorithm: f(x) is below the best starting row", rep)
                frows = [v for v in simplex if feas(v)]
                if frows and feas(x) and max(float(_quad.py_func(np.array(v), An, cn, k)) for v in frows) > fun:
                    ctx.spec_fail("nm_x_not_best_row", "_nelder_mead_algorithm: a feasible row of final_simplex beats fun", rep)
            if int(res.nit) > max_iter or (bool(res.success) != (int(res.nit) < max_iter)):
                ctx.spec_fail("nm_status", "_nelder_mead_algorithm: nit=%d success=%s max_iter=%d" % (res.nit, res.success, max_iter), rep)
        cases.append(Case("C17 nmalgo sc=float A=%s c=%s k=%s verts=%s br=%d bc=%d bounds=%s rho=%s chi=%s gamma=%s sigma=%s tolf=%s tolx=%s "
                          "maxiter=%d pinf=%s" % (mat(A), ",".join(fx(v) for v in c), fx(k), mat(V), bounds.shape[0], bounds.shape[1],
                                                  mat(bounds.tolist()), fx(rho), fx(chi), fx(gam), fx(sig), fx(tol_f), fx(tol_x), max_iter,
                                                  fx(math.inf)), out, nontrivial=(res is not None and res.nit >= 2), tag="nmalgo"))


# ----------------------------------------------------------------------------------------
# hardening streams: argument forms, histories, aliasing (every public entry point)


@njit
def _p3(x):
    return x * x * x - 0.3


@njit
def _p3d(x):
    return 3.0 * x * x


@njit
def _p3dd(x):
    return 6.0 * x


@njit
def _hump(x):
    return -((x - 0.3) * (x - 0.3))


def finding(ctx, key, what, replay):
    """a defect of the clean code found by the hardening streams: counted (`unlisted-finding:<key>`) with one
    example kept in the evidence until the key is listed in known_findings.txt; then it goes through spec_fail"""
    if key in ctx.known:
        ctx.spec_fail(key, what, replay)
        return
    ctx.count("unlisted-finding:" + key)
    ctx.extra.setdefault("unlisted_findings", {}).setdefault(key, {"what": what, "replay": replay})


SCALAR_FORMS = [("int", int), ("bool", bool), ("int8", np.int8), ("int16", np.int16), ("int32", np.int32),
                ("int64", np.int64), ("uint8", np.uint8), ("uint16", np.uint16), ("uint32", np.uint32),
                ("uint64", np.uint64), ("intp", np.intp), ("float32", np.float32), ("float64", np.float64),
                ("float", float), ("0d-float", lambda v: np.array(float(v))), ("0d-int", lambda v: np.array(int(v)))]


def _bits(a):
    a = np.asarray(a)
    return (a.dtype.str, a.shape, a.tobytes())


def canon_res(r):
    return "%s %d %d %d" % (fx(float(r.root)), int(r.function_calls), int(r.iterations), 1 if r.converged else 0)


def guarded(call):
    """(canonical string, raw result); library errors become strings, Numba typing refusals 'NOT-ACCEPTED'"""
    from numba.core.errors import TypingError
    try:
        r = call()
    except ValueError:
        return "ERR:ValueError", None
    except RuntimeError:
        return "ERR:RuntimeError", None
    except TypingError:
        return "NOT-ACCEPTED", None
    return None, r


def gen_hardening(ctx, cases):
    from quantecon.optimize.root_finding import newton, newton_halley, newton_secant, bisect, brentq
    from quantecon.optimize.scalar_maximization import brent_max
    import importlib
    nm_mod = importlib.import_module("quantecon.optimize.nelder_mead")
    from quantecon.optimize.nelder_mead import nelder_mead
    rng = ctx.rng
    K1, K2 = 1 + 1e-4, 1e-4
    SQ = float(np.sqrt(2.2e-16))
    GM = float(0.5 * (3.0 - np.sqrt(5.0)))
    e = X * X * X - C(0.3)
    d1 = C(3.0) * X * X
    d2 = C(6.0) * X
    hump = -((X - C(0.3)) * (X - C(0.3)))
    a0, a1, a2 = e.arrays(), d1.arrays(), d2.arrays()
    args3 = a0 + a1 + a2
    ah = hump.arrays()
    TOL = 2.0 ** -20            # exactly representable in float32
    inputs = [a0[0], a0[1], a1[0], a1[1], a2[0], a2[1], ah[0], ah[1]]
    inputs_before = [_bits(v) for v in inputs]
    kept = []                   # (label, result object, frozen bits) of EVERY earlier result

    def keep(label, out, raw=None):
        kept.append((label, out, None if raw is None else [_bits(raw.x), _bits(raw.final_simplex)], raw))

    def rejudge(after):
        for label, out, frozen, raw in kept:
            if raw is not None:
                now = [_bits(raw.x), _bits(raw.final_simplex)]
                if now != frozen:
                    ctx.spec_fail("history_earlier_result_changed", "result of %s changed after the later call %s" % (label, after),
                                  {"earlier": label, "later": after})
        if [_bits(v) for v in inputs] != inputs_before:
            ctx.spec_fail("input_mutated", "an input array (args) was modified by %s" % after, {"call": after})

    # ---------------- scalar routines: canonical calls ----------------
    def scalar_calls(cv):
        """the six scalar entry points with the scalar converter cv applied to every scalar argument"""
        return {
            "bisect": (lambda: bisect(_f1, cv(0), cv(1), args=a0, xtol=TOL, rtol=TOL, maxiter=100, disp=True),
                       "C17 bisect sc=float f=%s a=%s b=%s xtol=%s rtol=%s maxiter=100 disp=1" % (e.wire(), fx(0.0), fx(1.0), fx(TOL), fx(TOL))),
            "brentq": (lambda: brentq(_f1, cv(0), cv(1), args=a0, xtol=TOL, rtol=TOL, maxiter=100, disp=True),
                       "C17 brentq sc=float f=%s a=%s b=%s xtol=%s rtol=%s maxiter=100 disp=1" % (e.wire(), fx(0.0), fx(1.0), fx(TOL), fx(TOL))),
            "newton": (lambda: newton(_g0, cv(1), _g1, args=args3, tol=TOL, maxiter=50, disp=True),
                       "C17 newton sc=float f=%s fp=%s x0=%s tol=%s maxiter=50 disp=1" % (e.wire(), d1.wire(), fx(1.0), fx(TOL))),
            "halley": (lambda: newton_halley(_g0, cv(1), _g1, _g2, args=args3, tol=TOL, maxiter=50, disp=True),
                       "C17 halley sc=float f=%s fp=%s fpp=%s x0=%s tol=%s maxiter=50 disp=1" % (e.wire(), d1.wire(), d2.wire(), fx(1.0), fx(TOL))),
            "secant": (lambda: newton_secant(_f1, cv(1), args=a0, tol=TOL, maxiter=50, disp=True),
                       "C17 secant sc=float f=%s k1=%s k2=%s x0=%s tol=%s maxiter=50 disp=1" % (e.wire(), fx(K1), fx(K2), fx(1.0), fx(TOL))),
            "brentmax": (lambda: brent_max(_f1, cv(0), cv(1), args=ah, xtol=TOL, maxiter=100),
                         "C17 brentmax sc=float f=%s a=%s b=%s xtol=%s sqrteps=%s gm=%s maxiter=100" % (hump.wire(), fx(0.0), fx(1.0), fx(TOL), fx(SQ), fx(GM))),
        }

    def run_scalar(name, call):
        err, r = guarded(call)
        if err:
            return err
        if name == "brentmax":
            xf, fval, info = r
            return "%s %s %d %d" % (fx(float(xf)), fx(float(fval)), int(info[0]), int(info[1]))
        return canon_res(r)

    canon = {}
    for name, (call, line) in scalar_calls(float).items():
        canon[name] = run_scalar(name, call)
        keep(name + " canonical", canon[name])
        cases.append(Case(line, canon[name], tag="forms"))
        if canon[name].startswith("ERR") or canon[name] == "NOT-ACCEPTED":
            ctx.spec_fail("forms_canonical", "%s failed on the canonical float call: %s" % (name, canon[name]), {"op": name})
    rejudge("canonical scalar calls")

    # ---------------- (3) argument forms of the scalar routines ----------------
    forms = list(SCALAR_FORMS)
    if not ctx.thorough:
        forms = [rng.choice(forms)]          # each type recompiles all six routines: one per quick run, all in thorough
    for label, cv in forms:
        todo = list(scalar_calls(cv).items())
        if not ctx.thorough:
            todo = rng.sample(todo, 3)           # three of the six routines per quick run
        for name, (call, line) in todo:
            out = run_scalar(name, call)
            ctx.count("forms:scalar:" + label)
            if out == "NOT-ACCEPTED":
                ctx.count("forms:not-accepted:%s:%s" % (name, label))
                continue
            if out != canon[name]:
                ctx.spec_fail("argform_scalar", "%s with %s end points / start gives %s, with floats %s" % (name, label, out, canon[name]),
                              {"op": name, "form": label, "got": out, "float_form": canon[name]})
            cases.append(Case(line, out, tag="forms"))
        rejudge("scalar forms " + label)
    # tolerances / counters / flags in other types, positional calls, args omitted / args=()
    tolforms = [("float32", np.float32), ("float64", np.float64), ("0d", lambda v: np.array(v))]
    miforms = [("int8", np.int8), ("int32", np.int32), ("uint16", np.uint16), ("int64", np.int64), ("float", float)]
    dispforms = [("int", 1), ("np.bool_", np.bool_(True)), ("uint8", np.uint8(1))]
    if not ctx.thorough:
        tolforms, miforms, dispforms = [rng.choice(tolforms)], [rng.choice(miforms)], [rng.choice(dispforms)]
    variants = []
    for tl, tv in tolforms:
        for ml, mv in miforms:
            for dl, dv in dispforms:
                t, m50, m100 = tv(TOL), mv(50), mv(100)
                tag = "tol:%s maxiter:%s disp:%s" % (tl, ml, dl)
                variants += [
                    ("bisect", tag, lambda t=t, m=m100, dv=dv: bisect(_f1, 0.0, 1.0, a0, t, t, m, dv)),          # positional
                    ("brentq", tag, lambda t=t, m=m100, dv=dv: brentq(_f1, 0.0, 1.0, a0, t, t, m, dv)),
                    ("newton", tag, lambda t=t, m=m50, dv=dv: newton(_g0, 1.0, _g1, args3, t, m, dv)),
                    ("halley", tag, lambda t=t, m=m50, dv=dv: newton_halley(_g0, 1.0, _g1, _g2, args3, t, m, dv)),
                    ("secant", tag, lambda t=t, m=m50, dv=dv: newton_secant(_f1, 1.0, a0, t, m, dv)),
                    ("brentmax", tag, lambda t=t, m=m100: brent_max(_f1, 0.0, 1.0, ah, t, m)),
                ]
    # args omitted and args=() with a function that takes no extra arguments (same operation order as the program)
    noargs = [
        ("bisect", "args omitted", lambda: bisect(_p3, 0.0, 1.0, xtol=TOL, rtol=TOL, maxiter=100, disp=True)),
        ("bisect", "args=()", lambda: bisect(_p3, 0.0, 1.0, args=(), xtol=TOL, rtol=TOL, maxiter=100, disp=True)),
        ("brentq", "args omitted", lambda: brentq(_p3, 0.0, 1.0, xtol=TOL, rtol=TOL, maxiter=100, disp=True)),
        ("newton", "args omitted", lambda: newton(_p3, 1.0, _p3d, tol=TOL, maxiter=50, disp=True)),
        ("halley", "args omitted", lambda: newton_halley(_p3, 1.0, _p3d, _p3dd, tol=TOL, maxiter=50, disp=True)),
        ("secant", "args omitted", lambda: newton_secant(_p3, 1.0, tol=TOL, maxiter=50, disp=True)),
        ("brentmax", "args omitted", lambda: brent_max(_hump, 0.0, 1.0, xtol=TOL, maxiter=100)),
    ]
    if not ctx.thorough:
        variants = rng.sample(variants, 2)
    variants += noargs if ctx.thorough else rng.sample(noargs, 1)
    for name, tag, call in variants:
        out = run_scalar(name, call)
        ctx.count("forms:variant")
        if out == "NOT-ACCEPTED":
            ctx.count("forms:not-accepted:%s:%s" % (name, tag))
            if name in ("bisect", "brentq") and "maxiter:uint" in tag:
                # `itr` is range(maxiter) in one branch (unsigned) and the literal 0 in the other: Numba cannot unify
                finding(ctx, "bracket_unsigned_maxiter_refused", "%s refuses an unsigned NumPy integer maxiter (TypingError: itr cannot be "
                        "unified), while newton / newton_halley / newton_secant / brent_max accept it" % name, {"op": name, "form": tag})
        elif out != canon[name]:
            ctx.spec_fail("argform_variant", "%s called with %s gives %s, canonical keyword/float call gives %s" % (name, tag, out, canon[name]),
                          {"op": name, "form": tag, "got": out, "canonical": canon[name]})
    # defaults: omitted optional arguments == their documented values passed explicitly
    defaults = [
        ("bisect", lambda: bisect(_f1, 0.0, 1.0, args=a0), lambda: bisect(_f1, 0.0, 1.0, a0, 2e-12, 4 * EPS, 100, True)),
        ("brentq", lambda: brentq(_f1, 0.0, 1.0, args=a0), lambda: brentq(_f1, 0.0, 1.0, a0, 2e-12, 4 * EPS, 100, True)),
        ("newton", lambda: newton(_g0, 1.0, _g1, args=args3), lambda: newton(_g0, 1.0, _g1, args3, 1.48e-8, 50, True)),
        ("halley", lambda: newton_halley(_g0, 1.0, _g1, _g2, args=args3), lambda: newton_halley(_g0, 1.0, _g1, _g2, args3, 1.48e-8, 50, True)),
        ("secant", lambda: newton_secant(_f1, 1.0, args=a0), lambda: newton_secant(_f1, 1.0, a0, 1.48e-8, 50, True)),
        ("brentmax", lambda: brent_max(_f1, 0.0, 1.0, args=ah), lambda: brent_max(_f1, 0.0, 1.0, ah, 1e-5, 500)),
    ]
    for name, c1, c2 in (defaults if ctx.thorough else rng.sample(defaults, 1)):
        o1, o2 = run_scalar(name, c1), run_scalar(name, c2)
        ctx.count("forms:defaults")
        if o1 != o2 or o1.startswith("ERR"):
            ctx.spec_fail("argform_defaults", "%s: omitted optional arguments give %s, the documented defaults passed explicitly %s" % (name, o1, o2),
                          {"op": name, "omitted": o1, "explicit": o2})
    # explicit zeros / boundary values of the tolerances and counters
    zeros = [("0", 0), ("0.0", 0.0), ("-0.0", -0.0), ("float32 0", np.float32(0)), ("False", False)]
    typed_zero = rng.choice(zeros)
    for zl, z in (zeros if ctx.thorough else [zeros[1], typed_zero]):
        zc = [("bisect", lambda: bisect(_f1, 0.0, 1.0, args=a0, xtol=z)), ("brentq", lambda: brentq(_f1, 0.0, 1.0, args=a0, xtol=z)),
              ("newton", lambda: newton(_g0, 1.0, _g1, args=args3, tol=z)), ("halley", lambda: newton_halley(_g0, 1.0, _g1, _g2, args=args3, tol=z)),
              ("secant", lambda: newton_secant(_f1, 1.0, args=a0, tol=z))]
        # a float zero needs no recompilation (all five routines); another zero type: one routine per quick run
        for name, call in (zc if (ctx.thorough or zl == "0.0") else rng.sample(zc, 1)):
            out = run_scalar(name, call)
            ctx.count("forms:zero-tolerance")
            if out not in ("ERR:ValueError", "NOT-ACCEPTED"):
                ctx.spec_fail("argform_zero_tol", "%s accepted tolerance %s: %s" % (name, zl, out), {"op": name, "tol": zl, "got": out})
    # rtol = 0 is legal for the bracketing methods (xtol alone): judged by the tolerance oracle
    for name, fn in (("bisect", bisect), ("brentq", brentq)):
        out0, r0 = res_str(lambda: fn(_f1, 0.0, 1.0, args=a0, xtol=TOL, rtol=0.0, maxiter=100, disp=False))
        out1, _ = res_str(lambda: fn(_f1, 0.0, 1.0, args=a0, xtol=TOL, rtol=0.0, maxiter=100, disp=True))
        check_bracket_result(ctx, name, e, 0.0, 1.0, TOL, 0.0, 100, None, out0, r0, out1)
        cases.append(Case("C17 %s sc=float f=%s a=%s b=%s xtol=%s rtol=%s maxiter=100 disp=0" % (name, e.wire(), fx(0.0), fx(1.0), fx(TOL), fx(0.0)),
                          out0, tag="forms"))
    rejudge("scalar variants")

    # ---------------- (1) histories: repeated / interleaved calls are functions of their arguments ----------------
    order = list(scalar_calls(float).items()) * 2
    rng.shuffle(order)
    for name, (call, line) in order:
        out = run_scalar(name, call)
        ctx.count("history:repeat")
        if out != canon[name]:
            ctx.spec_fail("history_not_a_function", "%s: repeated call with identical arguments gives %s, first call gave %s" % (name, out, canon[name]),
                          {"op": name, "first": canon[name], "again": out})
        # interleave a call of another specialisation (integer arguments) in between
        if ctx.thorough:
            run_scalar(name, scalar_calls(int)[name][0])
    rejudge("interleaved repeats")

    # ---------------- nelder_mead: forms, histories, aliasing ----------------
    A = np.array([[2.0, 0.5], [0.5, 1.0]])
    cvec = np.array([1.0, -1.0])
    bnd = np.array([[0.0, 2.0], [0.0, 2.0]])
    x0 = np.array([2.0, 1.0])                     # integer-valued so that integer dtypes carry the same point
    nm_inputs = [A, cvec, bnd, x0]
    nm_before = [_bits(v) for v in nm_inputs]

    def nm_str(r):
        return "%s %s %d %d %s" % (",".join(fx(v) for v in r.x), fx(float(r.fun)), 1 if r.success else 0, int(r.nit),
                                   ";".join(",".join(fx(v) for v in row) for row in r.final_simplex))

    def nm_line(bounds, tol_f, tol_x, max_iter):
        return "C17 neldermead sc=float A=%s c=%s k=%s x0=%s bounds=%s tolf=%s tolx=%s maxiter=%d k105=%s zdelt=%s pinf=%s" % (
            ";".join(",".join(fx(v) for v in row) for row in A), ",".join(fx(v) for v in cvec), fx(0.0),
            ",".join(fx(v) for v in x0), "-" if bounds is None else ";".join(",".join(fx(v) for v in b) for b in bounds),
            fx(tol_f), fx(tol_x), max_iter, fx(1 + 0.05), fx(0.00025), fx(math.inf))

    def nm_alias(label, r, given):
        """(2) aliasing of a nelder_mead result with its inputs and with every earlier result"""
        for nm_, arr in given:
            if np.shares_memory(r.x, arr) or np.shares_memory(r.final_simplex, arr):
                ctx.spec_fail("nm_alias_input", "nelder_mead (%s): a returned array shares memory with the input %s" % (label, nm_), {"call": label})
        for lab2, _o, _f, raw in kept:
            if raw is not None and raw is not r and (np.shares_memory(r.x, raw.x) or np.shares_memory(r.final_simplex, raw.final_simplex)
                                                     or np.shares_memory(r.x, raw.final_simplex)):
                ctx.spec_fail("nm_alias_earlier_result", "nelder_mead (%s): a returned array shares memory with the result of %s" % (label, lab2),
                              {"call": label, "earlier": lab2})
        if np.shares_memory(r.x, r.final_simplex):
            # undocumented: x is a view of a row of final_simplex (writing to one changes the other)
            finding(ctx, "nm_x_is_view_of_final_simplex", "nelder_mead: results.x shares memory with results.final_simplex (x is a view of "
                    "its row; the docstring promises neither)", {"call": label})

    def nm_given():
        return [("x0", x0), ("bounds", bnd), ("args[0]", A), ("args[1]", cvec)]

    rc = nelder_mead(_quad, x0, bounds=bnd, args=(A, cvec, 0.0), tol_f=1e-10, tol_x=1e-10, max_iter=1000)
    nm_canon = nm_str(rc)
    keep("nelder_mead canonical", nm_canon, rc)
    nm_alias("canonical", rc, nm_given())
    cases.append(Case(nm_line(bnd, 1e-10, 1e-10, 1000), nm_canon, tag="forms"))
    ru = nelder_mead(_quad, x0, bounds=np.empty((0, 2)), args=(A, cvec, 0.0), tol_f=1e-10, tol_x=1e-10, max_iter=1000)
    nm_canon_u = nm_str(ru)
    keep("nelder_mead canonical, no bounds", nm_canon_u, ru)
    nm_alias("canonical no bounds", ru, nm_given())
    cases.append(Case(nm_line(None, 1e-10, 1e-10, 1000), nm_canon_u, tag="forms"))
    # forms (each is a separate Numba specialisation of the whole routine: a rotating sample in the quick tier)
    big = np.zeros((4, 6))
    big[::2, ::3] = bnd
    two_n = np.ascontiguousarray(bnd.T)
    nm_forms = [
        ("x0 int64", lambda: nelder_mead(_quad, x0.astype(np.int64), bounds=bnd, args=(A, cvec, 0.0)), nm_canon),
        ("x0 float32", lambda: nelder_mead(_quad, x0.astype(np.float32), bounds=bnd, args=(A, cvec, 0.0)), nm_canon),
        ("x0 strided view", lambda: nelder_mead(_quad, np.array([2.0, 9.0, 1.0, 9.0])[::2], bounds=bnd, args=(A, cvec, 0.0)), nm_canon),
        ("x0 reversed view", lambda: nelder_mead(_quad, np.array([1.0, 2.0])[::-1], bounds=bnd, args=(A, cvec, 0.0)), nm_canon),
        ("bounds F order", lambda: nelder_mead(_quad, x0, bounds=np.asfortranarray(bnd), args=(A, cvec, 0.0)), nm_canon),
        ("bounds int64", lambda: nelder_mead(_quad, x0, bounds=bnd.astype(np.int64), args=(A, cvec, 0.0)), nm_canon),
        ("bounds float32", lambda: nelder_mead(_quad, x0, bounds=bnd.astype(np.float32), args=(A, cvec, 0.0)), nm_canon),
        ("bounds strided view", lambda: nelder_mead(_quad, x0, bounds=big[::2, ::3], args=(A, cvec, 0.0)), nm_canon),
        ("bounds transposed view", lambda: nelder_mead(_quad, x0, bounds=two_n.T, args=(A, cvec, 0.0)), nm_canon),
        ("all positional", lambda: nelder_mead(_quad, x0, bnd, (A, cvec, 0.0), 1e-10, 1e-10, 1000), nm_canon),
        ("tolerances float32/0d, max_iter np.int32", lambda: nelder_mead(_quad, x0, bounds=bnd, args=(A, cvec, 0.0), tol_f=np.float64(1e-10),
                                                                        tol_x=np.array(1e-10), max_iter=np.int32(1000)), nm_canon),
        ("max_iter float", lambda: nelder_mead(_quad, x0, bounds=bnd, args=(A, cvec, 0.0), max_iter=1000.0), nm_canon),
        ("bounds and tolerances omitted", lambda: nelder_mead(_quad, x0, args=(A, cvec, 0.0)), nm_canon_u),
        ("bounds = np.array([[], []]).T (the default's own form)",
         lambda: nelder_mead(_quad, x0, bounds=np.array([[], []]).T, args=(A, cvec, 0.0), tol_f=1e-10, tol_x=1e-10, max_iter=1000), nm_canon_u),
        ("x0 list", lambda: nelder_mead(_quad, [2.0, 1.0], bounds=bnd, args=(A, cvec, 0.0)), nm_canon),
        ("x0 tuple", lambda: nelder_mead(_quad, (2.0, 1.0), bounds=bnd, args=(A, cvec, 0.0)), nm_canon),
    ]
    # quick tier: the positional form and the refused forms always, one recompiling form in two runs out of three
    # (every form but the positional one recompiles the whole routine: 3 s for an x0 form, 6-8 s for the others)
    slot = rng.randrange(10)
    extra = rng.sample(nm_forms[:4], 1) if slot == 0 else rng.sample(nm_forms[4:9] + nm_forms[10:14], 1) if slot == 1 else []
    chosen = nm_forms if ctx.thorough else ([nm_forms[9]] + extra + nm_forms[14:])
    for label, call, want in chosen:
        err, r = guarded(call)
        ctx.count("forms:nm:" + label)
        if err == "NOT-ACCEPTED":
            ctx.count("forms:not-accepted:nelder_mead:" + label)
            continue
        out = err if err else nm_str(r)
        if out != want:
            ctx.spec_fail("argform_nm", "nelder_mead with %s gives a different result than the float64 C-ordered call" % label,
                          {"form": label, "got": out, "canonical": want})
        if r is not None:
            keep("nelder_mead " + label, out, r)
            nm_alias(label, r, nm_given())
        rejudge("nelder_mead " + label)
    # _initialize_simplex (small, cheap to specialise): every array form of x0 on every run
    want_init = _bits(nm_mod._initialize_simplex(x0, bnd))
    init_forms = [("int64", x0.astype(np.int64)), ("int8", x0.astype(np.int8)), ("uint16", x0.astype(np.uint16)),
                  ("float32", x0.astype(np.float32)), ("strided", np.array([2.0, 9.0, 1.0, 9.0])[::2]),
                  ("reversed", np.array([1.0, 2.0])[::-1]), ("bounds F/int", x0)]
    for label, xform in (init_forms if ctx.thorough else [init_forms[0]] + rng.sample(init_forms[1:], 1)):
        b_ = np.asfortranarray(bnd.astype(np.int64)) if label == "bounds F/int" else bnd
        got = nm_mod._initialize_simplex(xform, b_)
        ctx.count("forms:init-simplex:" + label)
        if _bits(got) != want_init:
            ctx.spec_fail("argform_init_simplex", "_initialize_simplex with x0 as %s differs from the float64 call: %r" % (label, got.tolist()),
                          {"form": label, "got": got.tolist()})
        if np.shares_memory(got, xform) or np.shares_memory(got, b_):
            ctx.spec_fail("nm_alias_input", "_initialize_simplex: the simplex shares memory with an input", {"form": label})
    # tol_f = tol_x = 0 (explicit zeros, as int and float): legal, runs to max_iter, never 'success'
    for z in ((0, 0) if ctx.thorough else (0.0,)):
        rz = nelder_mead(_quad, x0, bounds=bnd, args=(A, cvec, 0.0), tol_f=z, tol_x=z, max_iter=60)   # (int zeros: thorough only)
        ctx.count("forms:nm:zero-tolerances")
        if rz.success or rz.nit != 60:
            ctx.spec_fail("argform_nm_zero_tol", "nelder_mead with tol_f = tol_x = 0 stopped after %d passes with success=%s" % (rz.nit, rz.success),
                          {"tol": repr(z), "nit": int(rz.nit), "success": bool(rz.success)})
        keep("nelder_mead zero tolerances", nm_str(rz), rz)
        cases.append(Case(nm_line(bnd, 0.0, 0.0, 60), nm_str(rz), tag="forms"))
    # histories: the same call again after everything else, interleaved with other problems
    for rep_ in range(2):
        other = nelder_mead(_quad, np.array([0.5, 0.25]), bounds=bnd, args=(A, cvec, 0.0), tol_f=1e-10, tol_x=1e-10, max_iter=20)
        keep("nelder_mead other problem %d" % rep_, nm_str(other), other)
        again = nelder_mead(_quad, x0, bounds=bnd, args=(A, cvec, 0.0), tol_f=1e-10, tol_x=1e-10, max_iter=1000)
        ctx.count("history:repeat")
        if nm_str(again) != nm_canon:
            ctx.spec_fail("history_not_a_function", "nelder_mead: repeated call with identical arguments gives a different result",
                          {"first": nm_canon, "again": nm_str(again)})
        keep("nelder_mead again %d" % rep_, nm_str(again), again)
        nm_alias("again %d" % rep_, again, nm_given())
        rejudge("nelder_mead repeat %d" % rep_)
    if [_bits(v) for v in nm_inputs] != nm_before:
        ctx.spec_fail("input_mutated", "nelder_mead modified one of x0 / bounds / args", {"op": "nelder_mead"})
    # _nelder_mead_algorithm: `vertices` is documented as modified in place — model that explicitly: the returned
    # final_simplex IS the caller's array, the caller's array holds the final simplex, nothing else is touched
    if not ctx.thorough and slot != 2:
        return                   # a separate compilation of the whole routine: one quick run in ten, every thorough run
    V0 = np.array([[2.0, 1.0], [2.1, 1.0], [2.0, 1.05]])
    V = V0.copy()
    ra = nm_mod._nelder_mead_algorithm(_quad, V, bnd, args=(A, cvec, 0.0), tol_f=1e-10, tol_x=1e-10, max_iter=1000)
    ctx.count("history:in-place-vertices")
    if not np.shares_memory(ra.final_simplex, V) or _bits(V) != _bits(ra.final_simplex):
        ctx.spec_fail("nm_algorithm_in_place", "_nelder_mead_algorithm: `vertices` (documented: modified in place) is not the returned final_simplex", {})
    if nm_str(ra) != nm_canon:
        ctx.spec_fail("nm_algorithm_vs_public", "_nelder_mead_algorithm on the initial simplex of x0 differs from nelder_mead(x0)",
                      {"public": nm_canon, "algorithm": nm_str(ra)})
    if [_bits(v) for v in nm_inputs] != nm_before:
        ctx.spec_fail("input_mutated", "_nelder_mead_algorithm modified bounds / args", {"op": "_nelder_mead_algorithm"})
    rejudge("_nelder_mead_algorithm")


# ----------------------------------------------------------------------------------------
# transcendental functions: spec only (outside the model)


def gen_transcendental(ctx, n):
    from quantecon.optimize.root_finding import bisect, brentq, newton
    rng = ctx.rng
    for i in range(n):
        c = rng.choice([2.0, 0.5, 10.0, 1e-3])
        kk = rng.choice([1.0, -1.0, 0.25])
        e = Exp(C(kk) * X) - C(c)                      # root log(c)/kk
        r = math.log(c) / kk
        a, b = r - rng.choice([0.5, 3.0, 10.0]), r + rng.choice([0.25, 2.0, 7.0])
        xtol = rng.choice([1e-12, 1e-9, 1e-5, 1e-2])
        args = e.arrays()
        for name, fn in (("bisect", bisect), ("brentq", brentq)):
            out, r0 = res_str(lambda: fn(_f1, a, b, args=args, xtol=xtol, disp=False))
            ctx.count("transcendental:" + name)
            if r0 is None or not r0.converged or abs(r0.root - r) > xtol + 4 * EPS * abs(r0.root) + 8 * EPS * max(1.0, abs(r)):
                ctx.spec_fail(name + "_transcendental", "%s on exp(%gx)-%g over [%r,%r] xtol=%g gave %s (root %r)" % (
                    name, kk, c, a, b, xtol, out, r), {"op": name, "k": kk, "c": c, "a": a, "b": b, "xtol": xtol})


# ----------------------------------------------------------------------------------------


def run(ctx):
    cases = []
    ctx.rule = ("random members of function families with exactly known roots/maximisers (factored cubics, x^k-c, "
                "rational, odd quintic, steep, same-sign, constant), scaled by 2^k (k in -30..30), roots at end points, "
                "reversed brackets, xtol/tol 1e-12..1e-2, maxiter 1..300 and invalid, disp both ways; a case is "
                "non-trivial when the routine ran at least 2 iterations; distinct by request line. brent_max: unimodal "
                "families (quadratic, quartic, Cauchy, asymmetric rational, boundary maxima, monotone, flat). nelder_mead: "
                "concave quadratics k-(x-c)'A(x-c), n=1..3, A SPD dyadic (30% non-symmetric), free / inactive box / "
                "active box / start on a bound / start outside / tight / pinched box, max_iter 0..1000, plus 2 fixed probes "
                "of the known findings and the 2 witnesses of the repaired shrink re-sort (must run > 2 passes, x best row)")
    gen_brackets(ctx, cases, ctx.n(250, 3000))
    gen_open(ctx, cases, ctx.n(200, 2500))
    gen_open_special(ctx, cases)
    gen_brentmax(ctx, cases, ctx.n(300, 4000))
    gen_neldermead(ctx, cases, ctx.n(300, 3000))
    gen_nmalgo(ctx, cases)
    gen_hardening(ctx, cases)
    gen_transcendental(ctx, ctx.n(20, 200))
    ctx.assumptions.append("doubles vs exact arithmetic: theorems are over ordered fields; the Float instance of the "
                           "same definitions is compared bit for bit with the jitted kernels")
    ctx.run_cases(cases)
