"""C11 — lcp_lemke: correspondence (model vs code) + exact spec run on the code's outputs.

Correspondence
  * `lemkef`  : the model at IEEE doubles, same operation order as the Numba kernels -> success, status,
                num_iter, final basis and the bits of z compared EXACTLY on every case.
  * `lemke`   : the model at exact rationals (same tolerances as the code, or 0 = the theorems' setting):
                success/status/num_iter/basis compared exactly whenever the exact run met no tie in a ratio
                test (`ties=0`); z inside an envelope.  On degenerate runs (ties>0) floating-point noise may
                legitimately break a tie differently (absolute tie tolerance 1e-15): such divergences are
                counted, not alarmed -- the bit-exact `lemkef` comparison covers those cases.
  * `firstrowf` / `firstrow`: the hand-written first ratio test; the code's choice is read off the basis
                after a `max_iter=1` call (the row holding the artificial variable).
Spec run (model independent, Fractions on the exact rationals denoted by the doubles given to the code)
  * success  => z >= 0, Mz+q >= 0, z.(Mz+q) = 0 within the envelope;
  * classes PD / P / strictly copositive: status must be 0 (default max_iter);
  * class PSD: status 2 only if the LCP has no solution (exact enumeration of complementary bases, and of
    all bases of [I,-M] when a complementary basis matrix is singular);
  * general class: only the first clause (solvable-but-ray cases are counted).
"""
import itertools
from fractions import Fraction

import numpy as np

from .common import Case, fx, fxs, fxm, parse_rats, parse_ints

FILES = ["quantecon/optimize/lcp_lemke.py", "quantecon/optimize/pivoting.py"]

TOL_PIV = 1e-10
TOL_RATIO_DIFF = 1e-15
ENV = 1e-8          # rounding envelope (relative to the problem's scale)


# ----------------------------------------------------------------------------
# exact linear algebra (Fractions)

def solve_exact(A, b):
    """x with A x = b (square A, Fractions) or None when A is singular"""
    n = len(A)
    T = [list(A[i]) + [b[i]] for i in range(n)]
    for c in range(n):
        p = next((r for r in range(c, n) if T[r][c] != 0), None)
        if p is None:
            return None
        T[c], T[p] = T[p], T[c]
        pv = T[c][c]
        T[c] = [v / pv for v in T[c]]
        for r in range(n):
            if r != c and T[r][c] != 0:
                m = T[r][c]
                T[r] = [a - m * bb for a, bb in zip(T[r], T[c])]
    return [T[i][n] for i in range(n)]


def lcp_solvable(Mq, qq):
    """exact decision: does (z>=0, Mz+q>=0, z.(Mz+q)=0) have a solution?  Returns (bool, how).
    1. the 2^n complementary bases B_S (column i is I_i or -M_i): if B_S is nonsingular the only candidate
       with support in S is B_S^{-1} q.
    2. if some B_S is singular and nothing was found: every solvable LCP has a complementary *basic* feasible
       solution of [I,-M](w;z)=q (Murty, Thm 1.4: an extreme point of the face w_i z_i = 0), so enumerate all
       C(2n,n) bases."""
    n = len(qq)
    cols = [[Fraction(int(i == j)) for i in range(n)] for j in range(n)] + \
           [[-Mq[i][j] for i in range(n)] for j in range(n)]          # cols[k][i]
    singular = False
    for mask in range(2 ** n):
        sel = [(n + i if (mask >> i) & 1 else i) for i in range(n)]
        A = [[cols[k][i] for k in sel] for i in range(n)]
        x = solve_exact(A, qq)
        if x is None:
            singular = True
            continue
        if all(v >= 0 for v in x):
            return True, "complementary-basis"
    if not singular:
        return False, "all-complementary-bases-nonsingular"
    for sel in itertools.combinations(range(2 * n), n):
        A = [[cols[k][i] for k in sel] for i in range(n)]
        x = solve_exact(A, qq)
        if x is None or any(v < 0 for v in x):
            continue
        val = [Fraction(0)] * (2 * n)
        for k, v in zip(sel, x):
            val[k] = v
        if all(val[i] * val[n + i] == 0 for i in range(n)):
            return True, "degenerate-bfs"
    return False, "all-bases"


def lcp_residuals(Mq, qq, zq):
    """(min z, min w, |z.w|) exactly"""
    n = len(qq)
    w = [sum(Mq[i][j] * zq[j] for j in range(n)) + qq[i] for i in range(n)]
    return min(zq), min(w), abs(sum(a * b for a, b in zip(zq, w)))


# ----------------------------------------------------------------------------
# generators (all data are doubles; "int"/"dyadic" data are exactly representable)

def _imat(rng, n, m, lo, hi):
    return np.array([[rng.randint(lo, hi) for _ in range(m)] for _ in range(n)], dtype=float).reshape(n, m)


def _skew(rng, n, k):
    S = _imat(rng, n, n, -k, k)
    return S - S.T


def gen_matrix(rng, n, cls, real):
    """returns M (float ndarray) of class cls in {pd, p, psd, cop, gen}; membership holds exactly for the
    rationals denoted by the doubles"""
    sc = rng.choice([1.0, 0.5, 0.25, 2.0]) if real == "dyadic" else 1.0
    if cls == "pd":
        if real == "float":
            A = np.array([[rng.uniform(-1, 1) for _ in range(n)] for _ in range(n)]).reshape(n, n)
            S = np.array([[rng.uniform(-1, 1) for _ in range(n)] for _ in range(n)]).reshape(n, n)
            return A @ A.T + 0.5 * np.eye(n) + (S - S.T)
        A = _imat(rng, n, n, -2, 2)
        return (A @ A.T + rng.randint(1, 2) * np.eye(n) + _skew(rng, n, rng.choice([0, 0, 2]))) * sc
    if cls == "p":
        kind = rng.choice(["tri", "dd", "dd"])
        if kind == "tri":
            Mx = np.tril(_imat(rng, n, n, -3, 3), -1) + np.diag([rng.randint(1, 3) for _ in range(n)])
            if rng.random() < 0.5:
                Mx = Mx.T.copy()
            return Mx * sc
        if real == "float":
            Mx = np.array([[rng.uniform(-1, 1) for _ in range(n)] for _ in range(n)]).reshape(n, n)
            for i in range(n):
                Mx[i, i] = np.abs(Mx[i]).sum() + 0.25
            return Mx
        Mx = _imat(rng, n, n, -2, 2)
        for i in range(n):
            Mx[i, i] = np.abs(Mx[i]).sum() - abs(Mx[i, i]) + rng.randint(1, 2)
        return Mx * sc
    if cls == "psd":
        kind = rng.choice(["lowrank", "lowrank", "skew", "lp"])
        if kind == "lp" and n >= 2:
            m = rng.randint(1, n - 1)
            A = _imat(rng, m, n - m, -3, 3)
            Mx = np.zeros((n, n))
            Mx[:n - m, n - m:] = -A.T
            Mx[n - m:, :n - m] = A
            return Mx * sc
        if kind == "skew":
            return _skew(rng, n, 3) * sc
        r = rng.randint(0, max(0, n - 1))
        A = _imat(rng, n, r, -2, 2) if r > 0 else np.zeros((n, 0))
        return (A @ A.T + _skew(rng, n, rng.choice([0, 2]))) * sc
    if cls == "cop":
        kind = rng.choice(["pos", "nonneg-diag", "pd+nonneg"])
        if kind == "pos":
            if real == "float":
                return np.array([[rng.uniform(0.25, 2) for _ in range(n)] for _ in range(n)]).reshape(n, n)
            return _imat(rng, n, n, 1, 5) * sc
        if kind == "nonneg-diag":
            Mx = _imat(rng, n, n, 0, 4)
            for i in range(n):
                Mx[i, i] = rng.randint(1, 4)
            return Mx * sc
        A = _imat(rng, n, n, -2, 2)
        return (A @ A.T + np.eye(n) + _imat(rng, n, n, 0, 3)) * sc
    # general
    if real == "float":
        return np.array([[rng.uniform(-2, 2) for _ in range(n)] for _ in range(n)]).reshape(n, n)
    return _imat(rng, n, n, -4, 4) * sc


def gen_d(rng, n, real):
    mode = rng.choice(["none", "none", "ints", "dyadic", "float" if real == "float" else "dyadic"])
    if mode == "none":
        return None
    if mode == "ints":
        return np.array([float(rng.randint(1, 4)) for _ in range(n)])
    if mode == "dyadic":
        return np.array([rng.randint(1, 12) / 4.0 for _ in range(n)])
    return np.array([rng.uniform(0.1, 3.0) for _ in range(n)])


def gen_q(rng, n, d, real):
    dd = np.ones(n) if d is None else d
    mode = rng.choice(["rand", "rand", "ties", "ties", "nonmono", "nonneg", "allneg", "zeros", "float"])
    if mode == "float" and real != "float":
        mode = "rand"
    if mode == "rand":
        q = np.array([float(rng.randint(-9, 9)) for _ in range(n)])
    elif mode == "ties":
        # several rows share the minimal ratio q_i/d_i (exactly: k * d_i is exact for dyadic d)
        k = -float(rng.randint(1, 4))
        q = np.array([float(rng.randint(-3, 9)) for _ in range(n)])
        idx = [i for i in range(n) if rng.random() < 0.6] or [rng.randrange(n)]
        for i in idx:
            q[i] = k * dd[i] if rng.random() < 0.8 else k * dd[i] * 2
        q = np.maximum(q, 2 * k * dd)
    elif mode == "nonmono":
        # >= 3 negative ratios in non-monotone order (the branch of the repaired first ratio test)
        q = -np.array([float(rng.randint(1, 9)) for _ in range(n)]) * dd
        for i in range(n):
            if rng.random() < 0.2:
                q[i] = float(rng.randint(0, 5))
    elif mode == "nonneg":
        q = np.array([float(rng.randint(0, 5)) for _ in range(n)])
    elif mode == "allneg":
        q = -np.array([float(rng.randint(1, 9)) for _ in range(n)])
    elif mode == "zeros":
        q = np.array([float(rng.choice([0, 0, -1, 1, -2])) for _ in range(n)])
    else:
        q = np.array([rng.uniform(-3, 2) for _ in range(n)])
    return q, mode


# ----------------------------------------------------------------------------
# adapters

def call_code(lcp_lemke, PivOptions, M, q, d, max_iter):
    n = len(q)
    basis = np.full(n, -1, dtype=np.int_)
    if max_iter is None:
        res = lcp_lemke(M, q, d, basis=basis)
    else:
        res = lcp_lemke(M, q, d, max_iter=max_iter, basis=basis)
    return res, basis


def canon(res, basis, zfmt):
    b = "-" if (basis < 0).all() else ",".join(str(int(v)) for v in basis)
    return "success=%d status=%d num_iter=%d basis=%s z=%s" % (
        1 if res.success else 0, int(res.status), int(res.num_iter), b, zfmt(res.z))


def parse_out(s):
    return dict(t.split("=", 1) for t in s.split(" "))


def run(ctx):
    from quantecon.optimize.lcp_lemke import lcp_lemke
    from quantecon.optimize.linprog_simplex import PivOptions

    rng = ctx.rng
    ctx.rule = ("random (M,q,d), n<=6, classes pd/p/psd/cop/gen x {int, dyadic, float} data, q modes "
                "{rand, ties in q_i/d_i, >=3 negative ratios non-monotone, q>=0, all negative, zeros, float}, "
                "d None / ints / dyadic / float, max_iter default or small; plus the 6 instances of the test "
                "suite; a case is non-trivial when q has a negative entry (the algorithm pivots at least once); "
                "distinct by request line")
    ctx.assumptions.append("rounding envelope %g * max(1,|M|,|q|,|z|) on the LCP conditions and on z (model at Rat "
                           "vs code); solvability decided exactly on the rationals denoted by the doubles" % ENV)

    cases = []
    n_cases = ctx.n(420, 6000)
    classes = ["pd", "p", "psd", "cop", "gen"]

    problems = []   # (cls, real, M, q, d, max_iter, qmode)

    # the instances of quantecon/optimize/tests/test_lcp_lemke.py and the docstring
    fixed = [
        ("p", [[1, 0, 0], [2, 1, 0], [2, 2, 1]], [-8, -12, -14], None),                       # docstring
        ("gen", [[1, -1, -1, -1], [-1, 1, -1, -1], [1, 1, 2, 0], [1, 1, 0, 2]], [3, 5, -9, -5], None),  # Murty 2.8
        ("gen", [[-1, 0, -3], [1, -2, -5], [-2, -1, -2]], [-3, -2, -1], None),                # Murty 2.9 (ray)
        ("gen", [[1, 2, 0], [0, 1, 2], [2, 0, 1]], [-1, -1, -1], None),                       # Kostreva 1
        ("gen", [[1, -1, 3], [2, -1, 3], [-1, -2, 0]], [-1, -1, -1], None),                   # Kostreva 2 (ray)
        ("gen", [[-1.5, 2], [-4, 4]], [-5, 17], [5., 16.]),                                   # Murty 2.11 (ray)
        ("gen", [[-1.5, 2], [-4, 4]], [-5, 17], [1., 1.]),
        ("psd", [[0, -1], [1, 0]], [-1, -1], None),
        ("psd", [[0, 0, -1], [0, 0, 1], [1, -1, 0]], [-1, 1, -2], None),
        ("gen", [[0, 0], [1, -1]], [0, -1], None),      # solvable, but no feasible complementary basis
    ]
    # bimatrix game of the test suite (n = 15)
    A = np.array([[3, 3], [2, 5], [0, 6]])
    B = np.array([[3, 2, 3], [2, 6, 1]])
    m_, n_ = A.shape
    I = np.cumsum([0, m_, n_, m_, m_, n_, n_])
    Mb = np.zeros((3 * m_ + 3 * n_, 3 * m_ + 3 * n_))
    Mb[I[0]:I[1], I[1]:I[2]] = -A + A.max()
    Mb[I[0]:I[1], I[2]:I[3]], Mb[I[0]:I[1], I[3]:I[4]] = 1, -1
    Mb[I[1]:I[2], I[0]:I[1]] = -B + B.max()
    Mb[I[1]:I[2], I[4]:I[5]], Mb[I[1]:I[2], I[5]:I[6]] = 1, -1
    Mb[I[2]:I[3], I[0]:I[1]], Mb[I[3]:I[4], I[0]:I[1]] = -1, 1
    Mb[I[4]:I[5], I[1]:I[2]], Mb[I[5]:I[6], I[1]:I[2]] = -1, 1
    qb = np.zeros(3 * m_ + 3 * n_)
    qb[I[2]:I[3]], qb[I[3]:I[4]] = 1, -1
    qb[I[4]:I[5]], qb[I[5]:I[6]] = 1, -1
    fixed.append(("big", Mb.tolist(), qb.tolist(), None))
    for cls, Mx, q, d in fixed:
        problems.append((cls, "int", np.array(Mx, dtype=float), np.array(q, dtype=float),
                         None if d is None else np.array(d), None, "fixed"))

    while len(problems) < n_cases:
        n = rng.choice([1, 2, 2, 3, 3, 3, 4, 4, 4, 5, 5, 6, 6])
        cls = rng.choice(classes)
        real = rng.choice(["int", "int", "dyadic", "float"])
        Mx = np.ascontiguousarray(gen_matrix(rng, n, cls, real), dtype=float)
        d = gen_d(rng, n, real)
        q, qmode = gen_q(rng, n, d, real)
        mi = None if rng.random() < 0.8 else rng.choice([0, 1, 2, 3, 4, 6])
        problems.append((cls, real, Mx, q, d, mi, qmode))

    tp_bits, td_bits = fx(TOL_PIV), fx(TOL_RATIO_DIFF)

    for cls, real, Mx, q, d, mi, qmode in problems:
        n = len(q)
        res, basis = call_code(lcp_lemke, PivOptions, Mx, q, d, mi)
        z = np.array(res.z, dtype=float)
        status = int(res.status)
        dd = np.ones(n) if d is None else d
        mi_eff = 10 ** 6 if mi is None else mi
        nontriv = bool((q < 0).any())
        ctx.count("class:%s" % cls)
        ctx.count("data:%s" % real)
        ctx.count("n=%d" % n)
        ctx.count("status=%d" % status)
        ctx.count("qmode:%s" % qmode)
        ctx.count("d:%s" % ("default" if d is None else "given"))
        if not nontriv:
            ctx.count("trivial-exit")
        if int(res.num_iter) > 2 * n:
            ctx.count("long-run(num_iter>2n)")
        negs = [qi / di for qi, di in zip(q, dd) if qi < 0]
        if len(negs) >= 3 and any(negs[i] < negs[i + 1] for i in range(len(negs) - 1)) \
                and any(negs[i] > negs[i + 1] for i in range(len(negs) - 1)):
            ctx.count("first-test:>=3-negative-ratios-non-monotone")

        base = "n=%d M=%s q=%s d=%s maxiter=%d" % (n, fxm(Mx), fxs(q), fxs(dd), mi_eff)
        # 1. Float instance, bit for bit
        cases.append(Case("C11 lemkef %s tolpiv=%s toldiff=%s" % (base, tp_bits, td_bits),
                          canon(res, basis, fxs), nontrivial=nontriv, tag="lemkef"))

        # 2. Rat instance (code's tolerances; and tolerance 0 on a third of the cases)
        scale = max(1.0, float(np.abs(Mx).max()), float(np.abs(q).max()), float(np.abs(z).max()))

        def cmp_rat(mo, impl, scale=scale, n=n):
            a, b = parse_out(mo), parse_out(impl)
            ties = int(a.get("ties", "0"))
            disc = all(a[k] == b[k] for k in ("success", "status", "num_iter", "basis"))
            if not disc:
                if ties > 0:
                    ctx.count("rat-vs-code:tie-broken-differently")
                    return None
                return "discrete outputs differ on a run without ties"
            ctx.count("rat-vs-code:same-path" + ("(ties)" if ties else ""))
            if ties:
                ctx.count("lexico-tie-runs")
            za = parse_rats(a["z"])
            zb = parse_rats(b["z"])
            for u, v in zip(za, zb):
                if abs(u - v) > Fraction(ENV) * Fraction(scale):
                    return "z differs by %g > envelope" % float(abs(u - v))
            return None

        cases.append(Case("C11 lemke %s tolpiv=%s toldiff=%s" % (base, tp_bits, td_bits),
                          canon(res, basis, fxs), nontrivial=nontriv, cmp=cmp_rat, tag="lemke"))
        if rng.random() < 0.34:
            cases.append(Case("C11 lemke %s tolpiv=0 toldiff=0" % base,
                              canon(res, basis, fxs), nontrivial=nontriv, cmp=cmp_rat, tag="lemke-tol0"))

        # 3. first ratio test, observed through max_iter=1
        if nontriv and rng.random() < 0.5:
            r1, b1 = call_code(lcp_lemke, PivOptions, Mx, q, d, 1)
            rows = [i for i in range(n) if b1[i] == 2 * n]
            impl = str(rows[0]) if len(rows) == 1 else "ERR:%s" % rows
            cases.append(Case("C11 firstrowf n=%d q=%s d=%s toldiff=%s" % (n, fxs(q), fxs(dd), td_bits), impl,
                              tag="firstrowf"))
            cases.append(Case("C11 firstrow n=%d q=%s d=%s toldiff=0" % (n, fxs(q), fxs(dd)), impl,
                              tag="firstrow-tol0",
                              cmp=lambda mo, im: None if mo == im else "first pivot row differs"))
            # spec: the chosen row minimises q_i/d_i exactly (tolerance 1e-15 absolute)
            rat = [Fraction(float(q[i])) / Fraction(float(dd[i])) for i in range(n)]
            if len(rows) == 1 and rat[rows[0]] > min(rat) + Fraction(1, 10 ** 12):
                ctx.spec_fail("first_ratio_test", "first pivot row %d does not minimise q_i/d_i" % rows[0],
                              {"M": Mx.tolist(), "q": q.tolist(), "d": dd.tolist()})

        # ---- spec run on the code's output (exact) ---------------------------------
        Mq = [[Fraction(float(v)) for v in row] for row in Mx]
        qq = [Fraction(float(v)) for v in q]
        replay = {"class": cls, "M": Mx.tolist(), "q": q.tolist(), "d": None if d is None else d.tolist(),
                  "max_iter": mi, "z": z.tolist(), "status": status, "num_iter": int(res.num_iter)}
        if bool(res.success) != (status == 0):
            ctx.spec_fail("success_status", "success flag and status disagree", replay)
        if res.success:
            if not np.all(np.isfinite(z)):
                ctx.spec_fail("success_solves", "success with non-finite z", replay)
            else:
                zq = [Fraction(float(v)) for v in z]
                mz, mw, comp = lcp_residuals(Mq, qq, zq)
                eps = Fraction(ENV) * Fraction(scale)
                if mz < -eps or mw < -eps or comp > eps * max(1, n):
                    ctx.spec_fail("success_solves",
                                  "success but min z=%g, min(Mz+q)=%g, |z.(Mz+q)|=%g" % (
                                      float(mz), float(mw), float(comp)), replay)
                else:
                    ctx.count("spec:success-verified")
        if mi is None:
            if status == 1:
                ctx.spec_fail("iteration_limit", "10^6 iterations exhausted (cycling)", replay)
            if cls in ("pd", "p", "cop") and status != 0:
                ctx.spec_fail("solvable_class_" + cls, "status %d on a %s matrix" % (status, cls), replay)
            if status == 2 and cls in ("psd", "gen"):
                solv, how = lcp_solvable(Mq, qq)
                ctx.count("ray:%s:%s:%s" % (cls, "solvable" if solv else "unsolvable", how))
                if cls == "psd" and solv:
                    ctx.spec_fail("psd_ray_but_solvable", "status 2 on a PSD matrix although a solution exists", replay)
            if status == 0 and cls == "psd":
                ctx.count("psd:solved")
        else:
            ctx.count("max_iter=%d" % mi)

    ctx.run_cases(cases)
