"""C11 — lcp_lemke: correspondence (model vs code) + exact spec run on the code's outputs.

Correspondence
  * `lemkef`  : the model at IEEE doubles, same operation order as the Numba kernels -> success, status,
                num_iter, final basis and the bits of z compared EXACTLY on every case (all tolerance settings,
                including tolerance 0 and out-of-domain covering vectors; `ERR:ZeroDivisionError` for d_i == 0).
  * `lemke`   : the model at exact rationals (same tolerances as the code, and tolerance 0 = the theorems'
                setting on exactly representable data): success/status/num_iter/basis compared exactly whenever
                the exact run met no tie and no near-tie (`ties=0`, `near=0`: every ratio comparison and
                pivot-threshold comparison of the exact run has a margin > 1e-9 relative); z inside an envelope.
                On the other runs floating-point noise may legitimately resolve a comparison differently:
                such divergences are counted, not alarmed -- the bit-exact `lemkef` comparison covers them.
  * `firstrowf` / `firstrow`: the hand-written first ratio test; the code's choice is read off the basis
                after a `max_iter=1` call (the row holding the artificial variable).
  The tolerances are read from the library (`PivOptions()` = 1e-7 / 1e-13, *not* the constants of pivoting.py);
  the model is queried with the iteration limit cut to num_iter+1000 (theorem `lemke_fuel_irrelevant`).
Spec run (model independent, Fractions on the exact rationals denoted by the doubles given to the code)
  * success  => z >= 0, Mz+q >= 0, z.(Mz+q) = 0 within the envelope (every n, d, tolerance != 0);
  * first pivot row minimises q_i/d_i;
  * classes PD / P / strictly copositive: status must be 0 (default max_iter, default tolerances);
  * class PSD: status 2 only if the LCP has no solution (exact enumeration of the 2^n complementary bases, and
    of all C(2n,n) bases of [I,-M] when a complementary basis matrix is singular), default tolerances;
  * general class: only the first clause (solvable-but-ray cases are counted).
  The completeness clauses are theorems of Properties/C11.lean in exact arithmetic (tolerances 0); the spec run
  checks them on the real code at its default tolerances.
Buffers: sequences of same-size problems solved into caller-supplied, dirty `tableau=`, `basis=`, `z=` arrays
(garbage / NaN / previous results): res.z is the buffer, inputs unchanged, bit-identical to a fresh call, exact
oracle on the returned z, model op `lemkefb` with the prior contents (theorem `lemke_buffers_irrelevant`).
Forms x histories x aliasing (`forms_stream`): the same small-integer problem passed in every accepted form (C / F /
strided / reversed / transposed views; int8..int64, uint*, float32; d omitted / None / positional / keyword / views;
max_iter as Python int, NumPy ints and floats, bool, 0-d array, 2.5, 0; PivOptions of Python / NumPy float64 /
float32 / int 0; caller buffers C / F / strided) must answer bit-identically to the canonical C float64 call and to
the model; every returned z is kept and re-judged (bitwise) after every later call; np.shares_memory against
inputs, buffers and all earlier results; inputs bitwise unchanged; forms the signature rejects raise TypingError.
Generators: corpus (harness/corpus/c11_*.json) first, the test-suite instances, random classes x data kinds,
degenerate 0/+-1 problems, n in 7..10 (5%), int64 arrays, small max_iter, three tolerance settings, bad d.
"""
import itertools
from fractions import Fraction

import numpy as np

from .common import Case, fx, fxs, fxm, parse_rats, parse_ints

FILES = ["quantecon/optimize/lcp_lemke.py", "quantecon/optimize/pivoting.py"]

# tolerance settings exercised: the defaults of linprog_simplex.PivOptions (read from the library at run
# time), the constants of pivoting.py, and exact zero (the setting of the theorems)
ALT_TOLS = [(1e-10, 1e-15), (0.0, 0.0)]
ENV = 1e-8          # rounding envelope (relative to the problem's scale)


# ----------------------------------------------------------------------------
# exact linear algebra (Fractions)

def solve_exact(A, b):
    """x with A x = b (square A, Fractions) or None when A is singular"""
    n = len(A)
    T = [list(A[i]) + [b[i]] for i in range(n)]
    for c in range(n):
        p = next((r for r in range(c, n) if T[r][c] != 0), None)
        if p is None:
            return None
        T[c], T[p] = T[p], T[c]
        pv = T[c][c]
        T[c] = [v / pv for v in T[c]]
        for r in range(n):
            if r != c and T[r][c] != 0:
                m = T[r][c]
                T[r] = [a - m * bb for a, bb in zip(T[r], T[c])]
    return [T[i][n] for i in range(n)]


def lcp_solvable(Mq, qq):
    """exact decision: does (z>=0, Mz+q>=0, z.(Mz+q)=0) have a solution?  Returns (bool, how).
    1. the 2^n complementary bases B_S (column i is I_i or -M_i): if B_S is nonsingular the only candidate
       with support in S is B_S^{-1} q.
    2. if some B_S is singular and nothing was found: every solvable LCP has a complementary *basic* feasible
       solution of [I,-M](w;z)=q (Murty, Thm 1.4: an extreme point of the face w_i z_i = 0), so enumerate all
       C(2n,n) bases."""
    n = len(qq)
    cols = [[Fraction(int(i == j)) for i in range(n)] for j in range(n)] + \
           [[-Mq[i][j] for i in range(n)] for j in range(n)]          # cols[k][i]
    singular = False
    for mask in range(2 ** n):
        sel = [(n + i if (mask >> i) & 1 else i) for i in range(n)]
        A = [[cols[k][i] for k in sel] for i in range(n)]
        x = solve_exact(A, qq)
        if x is None:
            singular = True
            continue
        if all(v >= 0 for v in x):
            return True, "complementary-basis"
    if not singular:
        return False, "all-complementary-bases-nonsingular"
    for sel in itertools.combinations(range(2 * n), n):
        A = [[cols[k][i] for k in sel] for i in range(n)]
        x = solve_exact(A, qq)
        if x is None or any(v < 0 for v in x):
            continue
        val = [Fraction(0)] * (2 * n)
        for k, v in zip(sel, x):
            val[k] = v
        if all(val[i] * val[n + i] == 0 for i in range(n)):
            return True, "degenerate-bfs"
    return False, "all-bases"


def lcp_residuals(Mq, qq, zq):
    """(min z, min w, |z.w|) exactly"""
    n = len(qq)
    w = [sum(Mq[i][j] * zq[j] for j in range(n)) + qq[i] for i in range(n)]
    return min(zq), min(w), abs(sum(a * b for a, b in zip(zq, w)))


# ----------------------------------------------------------------------------
# generators (all data are doubles; "int"/"dyadic" data are exactly representable)

def _imat(rng, n, m, lo, hi):
    return np.array([[rng.randint(lo, hi) for _ in range(m)] for _ in range(n)], dtype=float).reshape(n, m)


def _skew(rng, n, k):
    S = _imat(rng, n, n, -k, k)
    return S - S.T


def gen_matrix(rng, n, cls, real):
    """returns M (float ndarray) of class cls in {pd, p, psd, cop, gen}; membership holds exactly for the
    rationals denoted by the doubles"""
    sc = rng.choice([1.0, 0.5, 0.25, 2.0]) if real == "dyadic" else 1.0
    if cls == "pd":
        if real == "float":
            A = np.array([[rng.uniform(-1, 1) for _ in range(n)] for _ in range(n)]).reshape(n, n)
            S = np.array([[rng.uniform(-1, 1) for _ in range(n)] for _ in range(n)]).reshape(n, n)
            return A @ A.T + 0.5 * np.eye(n) + (S - S.T)
        A = _imat(rng, n, n, -2, 2)
        return (A @ A.T + rng.randint(1, 2) * np.eye(n) + _skew(rng, n, rng.choice([0, 0, 2]))) * sc
    if cls == "p":
        kind = rng.choice(["tri", "dd", "dd"])
        if kind == "tri":
            Mx = np.tril(_imat(rng, n, n, -3, 3), -1) + np.diag([rng.randint(1, 3) for _ in range(n)])
            if rng.random() < 0.5:
                Mx = Mx.T.copy()
            return Mx * sc
        if real == "float":
            Mx = np.array([[rng.uniform(-1, 1) for _ in range(n)] for _ in range(n)]).reshape(n, n)
            for i in range(n):
                Mx[i, i] = np.abs(Mx[i]).sum() + 0.25
            return Mx
        Mx = _imat(rng, n, n, -2, 2)
        for i in range(n):
            Mx[i, i] = np.abs(Mx[i]).sum() - abs(Mx[i, i]) + rng.randint(1, 2)
        return Mx * sc
    if cls == "psd":
        kind = rng.choice(["lowrank", "lowrank", "skew", "lp"])
        if kind == "lp" and n >= 2:
            m = rng.randint(1, n - 1)
            A = _imat(rng, m, n - m, -3, 3)
            Mx = np.zeros((n, n))
            Mx[:n - m, n - m:] = -A.T
            Mx[n - m:, :n - m] = A
            return Mx * sc
        if kind == "skew":
            return _skew(rng, n, 3) * sc
        r = rng.randint(0, max(0, n - 1))
        A = _imat(rng, n, r, -2, 2) if r > 0 else np.zeros((n, 0))
        return (A @ A.T + _skew(rng, n, rng.choice([0, 2]))) * sc
    if cls == "cop":
        kind = rng.choice(["pos", "nonneg-diag", "pd+nonneg"])
        if kind == "pos":
            if real == "float":
                return np.array([[rng.uniform(0.25, 2) for _ in range(n)] for _ in range(n)]).reshape(n, n)
            return _imat(rng, n, n, 1, 5) * sc
        if kind == "nonneg-diag":
            Mx = _imat(rng, n, n, 0, 4)
            for i in range(n):
                Mx[i, i] = rng.randint(1, 4)
            return Mx * sc
        A = _imat(rng, n, n, -2, 2)
        return (A @ A.T + np.eye(n) + _imat(rng, n, n, 0, 3)) * sc
    # general
    if real == "float":
        return np.array([[rng.uniform(-2, 2) for _ in range(n)] for _ in range(n)]).reshape(n, n)
    return _imat(rng, n, n, -4, 4) * sc


def gen_d(rng, n, real):
    mode = rng.choice(["none", "none", "ints", "dyadic", "float" if real == "float" else "dyadic"])
    if mode == "none":
        return None
    if mode == "ints":
        return np.array([float(rng.randint(1, 4)) for _ in range(n)])
    if mode == "dyadic":
        return np.array([rng.randint(1, 12) / 4.0 for _ in range(n)])
    return np.array([rng.uniform(0.1, 3.0) for _ in range(n)])


def gen_q(rng, n, d, real):
    dd = np.ones(n) if d is None else d
    mode = rng.choice(["rand", "rand", "ties", "ties", "nonmono", "nonneg", "allneg", "zeros", "float"])
    if mode == "float" and real != "float":
        mode = "rand"
    if mode == "rand":
        q = np.array([float(rng.randint(-9, 9)) for _ in range(n)])
    elif mode == "ties":
        # several rows share the minimal ratio q_i/d_i (exactly: k * d_i is exact for dyadic d)
        k = -float(rng.randint(1, 4))
        q = np.array([float(rng.randint(-3, 9)) for _ in range(n)])
        idx = [i for i in range(n) if rng.random() < 0.6] or [rng.randrange(n)]
        for i in idx:
            q[i] = k * dd[i] if rng.random() < 0.8 else k * dd[i] * 2
        q = np.maximum(q, 2 * k * dd)
    elif mode == "nonmono":
        # >= 3 negative ratios in non-monotone order (the branch of the repaired first ratio test)
        q = -np.array([float(rng.randint(1, 9)) for _ in range(n)]) * dd
        for i in range(n):
            if rng.random() < 0.2:
                q[i] = float(rng.randint(0, 5))
    elif mode == "nonneg":
        q = np.array([float(rng.randint(0, 5)) for _ in range(n)])
    elif mode == "allneg":
        q = -np.array([float(rng.randint(1, 9)) for _ in range(n)])
    elif mode == "zeros":
        q = np.array([float(rng.choice([0, 0, -1, 1, -2])) for _ in range(n)])
    else:
        q = np.array([rng.uniform(-3, 2) for _ in range(n)])
    return q, mode


# ----------------------------------------------------------------------------
# adapters

class _Skip(Exception):
    """raised by `Guard` after an unexpected library exception has been recorded as a spec failure"""


class Guard:
    """lcp_lemke on a VALID input must not raise: any exception outside `allowed` (set by the streams that
    expect one) is recorded with the full input as `unexpected_exception` and the case is skipped.  (An exception
    raised inside the jitted kernel has no Python frame, so it has to be caught at the call.)"""

    def __init__(self, f, ctx):
        self.f, self.ctx, self.allowed = f, ctx, ()

    def __call__(self, *a, **k):
        try:
            return self.f(*a, **k)
        except self.allowed:
            raise
        except Exception as e:
            def show(v):
                if isinstance(v, np.ndarray):
                    return {"values": v.tolist(), "dtype": str(v.dtype), "shape": list(v.shape)}
                return repr(v)
            names = ["M", "q", "d", "max_iter", "piv_options", "tableau", "basis", "z"]
            rp = {names[i]: show(v) for i, v in enumerate(a)}
            rp.update({kk: show(v) for kk, v in k.items() if kk not in ("tableau", "basis", "z")})
            rp["buffers_supplied"] = [kk for kk in ("tableau", "basis", "z") if kk in k]
            self.ctx.spec_fail("unexpected_exception",
                               "lcp_lemke raised %s (%s) on a valid input" % (type(e).__name__, str(e)[:120]), rp)
            self.ctx.count("unexpected-exception:" + type(e).__name__)
            raise _Skip()


def call_code(lcp_lemke, PivOptions, M, q, d, max_iter, tols=None):
    n = len(q)
    basis = np.full(n, -1, dtype=np.int_)
    kw = {}
    if max_iter is not None:
        kw["max_iter"] = max_iter
    if tols is not None:
        kw["piv_options"] = PivOptions(tol_piv=tols[0], tol_ratio_diff=tols[1])
    res = lcp_lemke(M, q, d, basis=basis, **kw)
    return res, basis


def canon(res, basis, zfmt):
    b = "-" if (basis < 0).all() else ",".join(str(int(v)) for v in basis)
    return "success=%d status=%d num_iter=%d basis=%s z=%s" % (
        1 if res.success else 0, int(res.status), int(res.num_iter), b, zfmt(res.z))


def _unfx(t):
    import struct
    return struct.unpack("<d", struct.pack("<Q", int(t[1:], 16)))[0]


def parse_out(s):
    return dict(t.split("=", 1) for t in s.split(" "))


def replay(data):
    """./check C11 --replay <file>: re-run the real code on the recorded input and re-judge it exactly"""
    from quantecon.optimize.lcp_lemke import lcp_lemke
    from quantecon.optimize.linprog_simplex import PivOptions
    r = data.get("replay", data)
    Mx = np.array(r["M"], dtype=float)
    q = np.array(r["q"], dtype=float)
    d = None if r.get("d") is None else np.array(r["d"], dtype=float)
    kw = {}
    if r.get("max_iter") is not None:
        kw["max_iter"] = r["max_iter"]
    if r.get("tol_piv") is not None:
        kw["piv_options"] = PivOptions(tol_piv=r["tol_piv"], tol_ratio_diff=r["tol_ratio_diff"])
    res = lcp_lemke(Mx, q, d, **kw)
    print("input  M=%s q=%s d=%s %s" % (Mx.tolist(), q.tolist(), None if d is None else d.tolist(), kw))
    print("code   z=%s success=%s status=%d num_iter=%d" % (res.z.tolist(), res.success, res.status, res.num_iter))
    Mq = [[Fraction(float(v)) for v in row] for row in Mx]
    qq = [Fraction(float(v)) for v in q]
    bad = False
    if res.success:
        mz, mw, comp = lcp_residuals(Mq, qq, [Fraction(float(v)) for v in res.z])
        print("exact  min z=%g  min(Mz+q)=%g  |z.(Mz+q)|=%g" % (float(mz), float(mw), float(comp)))
        scale = max(1.0, float(np.abs(Mx).max()), float(np.abs(q).max()), float(np.abs(res.z).max()))
        eps = Fraction(ENV) * Fraction(scale)
        bad = mz < -eps or mw < -eps or comp > eps * len(q)
    elif len(q) <= 6:
        solv, how = lcp_solvable(Mq, qq)
        print("exact  solvable=%s (%s); class recorded: %s" % (solv, how, r.get("class")))
        bad = r.get("class") in ("pd", "p", "cop") or (r.get("class") == "psd" and solv and res.status == 2)
    print("verdict: %s" % ("property violated on this input" if bad else "property holds on this input"))
    return 1 if bad else 0


# ----------------------------------------------------------------------------
# argument forms, call histories, aliasing

def _bits(a):
    a = np.asarray(a)
    return a.tobytes()


def finding(ctx, key, what, replay):
    """a defect of the CLEAN code outside what the property's listed findings cover: counted as
    `unlisted-finding:<key>` (first example kept in the evidence) until known_findings.txt lists the key"""
    if key in ctx.known:
        ctx.spec_fail(key, what, replay)
        return
    ctx.count("unlisted-finding:" + key)
    ctx.extra.setdefault("unlisted_findings", {}).setdefault(key, {"what": what, "replay": replay})


def _layout(a, how):
    """same values, different memory layout"""
    a = np.array(a)
    if how == "C":
        return np.ascontiguousarray(a)
    if how == "F":
        return np.asfortranarray(a)
    if how == "strided":
        big = np.zeros(tuple(2 * k for k in a.shape), dtype=a.dtype)
        idx = tuple(slice(None, None, 2) for _ in a.shape)
        big[idx] = a
        return big[idx]
    if how == "reversed":
        idx = tuple(slice(None, None, -1) for _ in a.shape)
        return np.ascontiguousarray(a[idx])[idx]
    if how == "transposed":
        return np.ascontiguousarray(a.T).T
    raise ValueError(how)


# menu of forms: (name, dict).  Keys: Mdt, Mlay, qdt, qlay, d ("omit","none","C","strided","reversed"),
# mi (None | ("py",k) | (numpy type name,k) | ("float",x) | ("bool",b) | ("0d",k)), mi_pos (positional?),
# piv (None | "default" | "np64" | "np32" | "ints0"), buf (subset of "tbz"), zlay, tlay
FORM_MENU = [
    ("M-F", dict(Mlay="F")), ("M-strided", dict(Mlay="strided")), ("M-reversed", dict(Mlay="reversed")),
    ("M-transposed", dict(Mlay="transposed")), ("q-strided", dict(qlay="strided")),
    ("q-reversed,d-reversed", dict(qlay="reversed", d="reversed")), ("d-strided", dict(d="strided")),
    ("d-None-positional", dict(d="none")), ("d-keyword", dict(d="C")),
    ("int64", dict(Mdt="int64", qdt="int64")), ("int32", dict(Mdt="int32", qdt="int32")),
    ("int16-F", dict(Mdt="int16", qdt="int16", Mlay="F")), ("int8", dict(Mdt="int8", qdt="int8")),
    ("M-int64,q-float", dict(Mdt="int64")), ("float32", dict(Mdt="float32", qdt="float32")),
    ("M-float32-strided", dict(Mdt="float32", Mlay="strided")),
    ("uint8-M", dict(Mdt="uint8")), ("uint64-M", dict(Mdt="uint64")), ("uint16-M-F", dict(Mdt="uint16", Mlay="F")),
    ("mi-np.int32", dict(mi=("int32", None))), ("mi-np.uint8-positional", dict(mi=("uint8", None), mi_pos=True)),
    ("mi-np.int8", dict(mi=("int8", None))), ("mi-np.intp", dict(mi=("intp", None))),
    ("mi-np.uint64", dict(mi=("uint64", None))),
    ("mi-float", dict(mi=("float", None))), ("mi-float-2.5", dict(mi=("float", 2.5))),
    ("mi-np.float32", dict(mi=("float32", None))), ("mi-bool", dict(mi=("bool", True))),
    ("mi-0d-array", dict(mi=("0d", None))), ("mi-zero", dict(mi=("py", 0))),
    ("mi-negative", dict(mi=("py", -3))), ("mi-np.int8-negative", dict(mi=("int8", -1))),
    ("mi-float-negative", dict(mi=("float", -2.5))), ("mi-np.int64-negative-positional", dict(mi=("int64", -7), mi_pos=True)),
    ("piv-default-object", dict(piv="default")), ("piv-np.float64", dict(piv="np64")),
    ("piv-np.float32", dict(piv="np32")), ("piv-ints-0", dict(piv="ints0")),
    ("buf-z", dict(buf="z")), ("buf-z-strided", dict(buf="z", zlay="strided")),
    ("buf-tableau-F", dict(buf="t", tlay="F")), ("buf-tableau-C", dict(buf="t")),
    ("buf-tableau+basis", dict(buf="tb")), ("buf-all", dict(buf="tbz")),
    ("buf-all,M-F,int32", dict(buf="tbz", Mlay="F", Mdt="int32", qdt="int32")),
]

REJECTED_FORMS = [  # not accepted by the nopython signature: a TypingError, every time, and no damage afterwards
    ("q-list", lambda M, q, d: ((M, list(q)), {})), ("M-list-of-lists", lambda M, q, d: ((M.tolist(), q), {})),
    ("q-tuple", lambda M, q, d: ((M, tuple(q)), {})), ("d-int-array", lambda M, q, d: ((M, q, np.ones(len(q), dtype=np.int64)), {})),
    ("z-float32-buffer", lambda M, q, d: ((M, q), {"z": np.empty(len(q), dtype=np.float32)})),
    ("q-column-2d", lambda M, q, d: ((M, q.reshape(-1, 1)), {})),
]


def forms_stream(ctx, lcp_lemke, PivOptions, cases, DEF_TOLS, classes):
    import numba
    rng = ctx.rng
    t_pool = {}
    kept = []            # every returned z of this stream: (array object, bytes at return time, label, owner buffer)

    def rejudge(after):
        for arr, b0, label, owner in kept:
            if arr.tobytes() != b0:
                ctx.spec_fail("history_result_changed",
                              "the z returned by call [%s] changed after call [%s]" % (label, after),
                              {"earlier_call": label, "later_call": after,
                               "z_at_return": np.frombuffer(b0, dtype=arr.dtype).tolist(), "z_now": arr.tolist()})

    def keep(arr, label, owner):
        if owner is not None:   # documented output buffer: reuse overwrites the earlier result held in it
            kept[:] = [k for k in kept if k[3] is not owner]
        kept.append((arr, arr.tobytes(), label, owner))

    def alias(z, named, label, own):
        for name, arr in named:
            if arr is None or arr is own:
                continue
            if np.shares_memory(z, arr):
                ctx.spec_fail("aliasing_" + name.split("[")[0],
                              "returned z shares memory with %s in call [%s]" % (name, label),
                              {"call": label, "shares_with": name})
        for arr, b0, lab, owner in kept:
            if own is not None and owner is own:
                continue
            if np.shares_memory(z, arr):
                ctx.spec_fail("aliasing_earlier_result",
                              "returned z of call [%s] shares memory with the z returned by [%s]" % (label, lab),
                              {"call": label, "earlier_call": lab})

    n_prob = ctx.n(40, 400)
    per_prob = ctx.n(4, 6)
    menu_order = list(range(len(FORM_MENU)))
    cursor = 0
    for pi in range(n_prob):
        n = rng.choice([1, 2, 2, 3, 3, 4, 5])
        cls = rng.choice(classes)
        # integer data small enough for every dtype (int8, float32): all forms denote the same rationals
        if cls == "cop" or rng.random() < 0.25:
            cls = "cop"
            Mc = np.array([[float(rng.randint(0, 3)) for _ in range(n)] for _ in range(n)]).reshape(n, n)
            for i in range(n):
                Mc[i, i] = float(rng.randint(1, 4))
        else:
            Mc = np.ascontiguousarray(gen_matrix(rng, n, cls, "int"), dtype=float)
            if np.abs(Mc).max() > 100:
                Mc = np.clip(Mc, -100, 100)
                cls = "gen"
        qc = np.array([float(rng.randint(-9, 4)) for _ in range(n)])
        dc = np.array([rng.choice([1.0, 2.0, 0.5, 1.5, 3.0]) for _ in range(n)])
        for _ in range(per_prob):
            fname, form = FORM_MENU[menu_order[cursor % len(menu_order)]]
            cursor += 1
            if cursor % len(menu_order) == 0:
                rng.shuffle(menu_order)
            Mdt, qdt = form.get("Mdt", "float64"), form.get("qdt", "float64")
            if Mdt.startswith("uint") and (Mc < 0).any():
                Mv = np.abs(Mc)
                fcls = "gen"
            else:
                Mv, fcls = Mc, cls
            Mf = _layout(Mv.astype(Mdt), form.get("Mlay", "C"))
            qf = _layout(qc.astype(qdt), form.get("qlay", "C"))
            dform = form.get("d", "omit")
            df = None if dform in ("omit", "none") else _layout(dc, dform)
            dcan = None if df is None else dc
            # max_iter
            mi = form.get("mi")
            mi_val, mi_can = None, None
            if mi is not None:
                kind, v = mi
                k = rng.choice([1, 2, 3, 5, 50]) if v is None else v
                if kind == "py":
                    mi_val, mi_can = int(k), int(k)
                elif kind == "float":
                    mi_val, mi_can = float(k), int(-(-float(k) // 1))      # `num_iter < 2.5` allows 3 pivots
                elif kind == "bool":
                    mi_val, mi_can = bool(k), int(bool(k))
                elif kind == "0d":
                    mi_val, mi_can = np.array(int(k)), int(k)
                else:
                    mi_val, mi_can = getattr(np, kind)(k), int(k)
            # PivOptions
            piv = form.get("piv")
            tols = DEF_TOLS
            pv = None
            if piv == "default":
                pv = PivOptions()
            elif piv == "np64":
                pv = PivOptions(np.float64(1e-6), np.float64(DEF_TOLS[0]), np.float64(DEF_TOLS[1]))
            elif piv == "np32":
                pv = PivOptions(np.float32(1e-6), np.float32(1e-7), np.float32(1e-13))
                tols = (float(np.float32(1e-7)), float(np.float32(1e-13)))
            elif piv == "ints0":
                pv = PivOptions(0, 0, 0)
                tols = (0.0, 0.0)
            # buffers
            buf = form.get("buf", "")
            zb = tb = bb = None
            if "z" in buf:
                zb = _layout(np.full(n, np.nan), form.get("zlay", "C"))
            if "t" in buf:
                # work arrays are reused over the calls of this stream (one per size and layout), re-dirtied each
                # time: a result that still lived in one of them would be seen to change by `rejudge`
                tkey = (n, form.get("tlay", "C"))
                if tkey not in t_pool:
                    t_pool[tkey] = _layout(np.full((n, 2 * n + 2), np.nan), form.get("tlay", "C"))
                tb = t_pool[tkey]
                tb[...] = np.nan
            if "b" in buf:
                bb = np.full(n, -7, dtype=np.int_)
            # the call
            args = [Mf, qf]
            kw = {}
            if dform == "none":
                args.append(None)
            elif df is not None:
                if form.get("mi_pos") or rng.random() < 0.5:
                    args.append(df)
                else:
                    kw["d"] = df
            if mi_val is not None:
                if form.get("mi_pos") and len(args) >= 2:
                    if len(args) == 2:
                        args.append(None)
                    args.append(mi_val)
                else:
                    kw["max_iter"] = mi_val
            if pv is not None:
                kw["piv_options"] = pv
            if zb is not None:
                kw["z"] = zb
            if tb is not None:
                kw["tableau"] = tb
            if bb is not None:
                kw["basis"] = bb
            label = "%s n=%d #%d" % (fname, n, pi)
            before = (_bits(Mf), _bits(qf), None if df is None else _bits(df))
            rp = {"form": fname, "M": Mv.tolist(), "M_dtype": Mdt, "M_layout": form.get("Mlay", "C"), "q": qc.tolist(),
                  "q_dtype": qdt, "q_layout": form.get("qlay", "C"), "d": None if df is None else dc.tolist(),
                  "max_iter": repr(mi_val), "piv_options": repr(pv), "buffers": buf}
            try:
                res = lcp_lemke.f(*args, **kw)
            except Exception as e:      # every form of the menu is accepted by the clean code
                ctx.spec_fail("form_rejected" if isinstance(e, numba.core.errors.TypingError) else "unexpected_exception",
                              "%s raised %s (%s)" % (fname, type(e).__name__, str(e)[:120]), rp)
                continue
            ctx.count("form:" + fname)
            z = res.z
            # canonical call: C-contiguous float64, Python int, PivOptions of Python floats, no buffers
            ckw = {}
            if mi_can is not None:
                ckw["max_iter"] = mi_can
            if pv is not None:
                ckw["piv_options"] = PivOptions(1e-6, tols[0], tols[1])
            try:
                can = lcp_lemke(np.ascontiguousarray(Mv, dtype=float), qc.copy(),
                                None if dcan is None else dcan.copy(), **ckw)
            except _Skip:
                continue
            same = (int(can.status) == int(res.status) and int(can.num_iter) == int(res.num_iter)
                    and np.asarray(can.z, dtype=float).tobytes() == np.asarray(z, dtype=float).tobytes())
            rp.update({"z": np.asarray(z).tolist(), "status": int(res.status), "num_iter": int(res.num_iter),
                       "canonical_z": can.z.tolist(), "canonical_status": int(can.status),
                       "canonical_num_iter": int(can.num_iter)})
            if not same:
                what = ("form [%s] answers z=%s status=%d num_iter=%d, the same problem as C-contiguous float64 "
                        "arrays / Python scalars answers z=%s status=%d num_iter=%d" % (
                            fname, np.asarray(z).tolist(), res.status, res.num_iter, can.z.tolist(), can.status,
                            can.num_iter))
                # (unsigned M used to wrap in `-M[i, j]`: fixed f76127e, `0. - M[i, j]`; own key on regression)
                ctx.spec_fail("uint_M_negation_wraps" if Mdt.startswith("uint") else "argument_form", what, rp)
            # inputs untouched
            if (_bits(Mf), _bits(qf), None if df is None else _bits(df)) != before:
                ctx.spec_fail("inputs_mutated", "form [%s]: M, q or d modified by the call" % fname, rp)
            # identity of the output buffer, aliasing
            if zb is not None and not (z.ctypes.data == zb.ctypes.data and z.strides == zb.strides):
                ctx.spec_fail("buffer_identity", "form [%s]: res.z is not the supplied z buffer" % fname, rp)
            alias(z, [("M", Mf), ("q", qf), ("d", df), ("tableau[buffer]", tb), ("basis[buffer]", bb),
                      ("M.base", Mf.base if isinstance(Mf.base, np.ndarray) else None),
                      ("q.base", qf.base if isinstance(qf.base, np.ndarray) else None)], label, zb)
            alias(can.z, [("M", Mf), ("q", qf), ("d", df)], label + " (canonical)", None)
            keep(z, label, zb)
            keep(can.z, label + " (canonical)", None)
            rejudge(label)
            # exact oracle on the form's own answer
            if res.success and not np.all(np.isfinite(np.asarray(z, dtype=float))):
                ctx.spec_fail("success_solves_form", "form [%s]: success with non-finite z %s" % (
                    fname, np.asarray(z).tolist()), rp)
            elif res.success and tols[0] != 0.0:
                Mq = [[Fraction(float(v)) for v in row] for row in Mv]
                qq = [Fraction(float(v)) for v in qc]
                mz, mw, comp = lcp_residuals(Mq, qq, [Fraction(float(v)) for v in z])
                eps = Fraction(ENV) * Fraction(max(1.0, float(np.abs(Mv).max()), float(np.abs(qc).max()),
                                                   float(np.abs(z).max())))
                if mz < -eps or mw < -eps or comp > eps * max(1, n):
                    ctx.spec_fail("success_solves_form", "form [%s]: success but min z=%g, min(Mz+q)=%g, |z.w|=%g" % (
                        fname, float(mz), float(mw), float(comp)), rp)
            if mi_val is None and piv in (None, "default", "np64") and fcls in ("pd", "p", "cop") \
                    and int(res.status) != 0:
                ctx.spec_fail("solvable_class_form", "form [%s]: status %d on a %s matrix" % (fname, res.status, fcls), rp)
            # the model on the values the form denotes
            if True:
                dd = np.ones(n) if dcan is None else dcan
                mi_eff = 10 ** 6 if mi_can is None else mi_can
                if int(res.status) != 1 and mi_eff > int(res.num_iter) + 1000:
                    mi_eff = int(res.num_iter) + 1000
                # zero / negative limits go to the signed entry point of the model (`lcpLemkeI`)
                op = "lemkefi" if (mi_can is not None and mi_can <= 0) else "lemkef"
                if op == "lemkefi":
                    ctx.count("signed-limit-cases")
                line = "C11 %s n=%d M=%s q=%s d=%s maxiter=%d tolpiv=%s toldiff=%s" % (
                    op, n, fxm(Mv), fxs(qc), fxs(dd), mi_eff, fx(tols[0]), fx(tols[1]))
                bstr = "?" if bb is None else ("-" if (bb == -7).all() else ",".join(str(int(v)) for v in bb))
                impl = "success=%d status=%d num_iter=%d basis=%s z=%s" % (
                    1 if res.success else 0, int(res.status), int(res.num_iter), bstr, fxs(np.asarray(z, dtype=float)))

                def cmp_form(mo, im):
                    a, b = parse_out(mo), parse_out(im)
                    for k2 in ("success", "status", "num_iter", "z"):
                        if a[k2] != b[k2]:
                            return "%s differs" % k2
                    if b["basis"] != "?" and a["basis"] != b["basis"]:
                        return "basis differs"
                    return None
                cases.append(Case(line, impl, nontrivial=bool((qc < 0).any()), cmp=cmp_form, tag="lemkef-form"))

    # forms the nopython signature does not accept: a TypingError every time, no damage afterwards
    Mr = np.array([[2.0, 1.0], [1.0, 3.0]])
    qr = np.array([-1.0, -2.0])
    try:
        ref = lcp_lemke(Mr, qr).z.tobytes()
    except _Skip:
        ref = None
    for rounds in range(ctx.n(1, 2) if ref is not None else 0):
        for fname, mk in REJECTED_FORMS:
            a, k = mk(Mr, qr, None)
            try:
                lcp_lemke.f(*a, **k)
                got = "accepted"
            except numba.core.errors.TypingError:
                got = "TypingError"
            except Exception as e:
                got = type(e).__name__
            ctx.count("rejected-form:%s:%s" % (fname, got))
            if got != "TypingError":
                ctx.spec_fail("rejected_form", "form %s: expected a TypingError, got %s" % (fname, got), {"form": fname})
            if lcp_lemke.f(Mr, qr).z.tobytes() != ref:
                ctx.spec_fail("history_after_rejected_call", "a valid call answers differently after the rejected "
                              "form %s" % fname, {"form": fname})
    rejudge("end of the forms stream")
    # empty problem (n = 0): trivial branch, empty z
    try:
        r0 = lcp_lemke(np.empty((0, 0)), np.empty(0))
    except _Skip:
        r0 = None
    if r0 is not None and not (r0.success and r0.status == 0 and r0.num_iter == 0 and r0.z.shape == (0,)):
        ctx.spec_fail("empty_problem", "n = 0 is not answered with an empty successful result", {})
    ctx.extra["kept_results_rejudged"] = len(kept)


def run(ctx):
    from quantecon.optimize.lcp_lemke import lcp_lemke as _raw_lcp_lemke
    from quantecon.optimize.linprog_simplex import PivOptions
    lcp_lemke = Guard(_raw_lcp_lemke, ctx)

    rng = ctx.rng
    ctx.rule = ("random (M,q,d), n<=6 (5%: n in 7..10), 12% highly degenerate 0/+-1 problems, classes pd/p/psd/cop/gen x {int, dyadic, float} data, q modes "
                "{rand, ties in q_i/d_i, >=3 negative ratios non-monotone, q>=0, all negative, zeros, float}, "
                "d None / ints / dyadic / float, max_iter default or small; plus the 6 instances of the test "
                "suite; a case is non-trivial when q has a negative entry (the algorithm pivots at least once); "
                "distinct by request line")
    ctx.assumptions.append("rounding envelope %g * max(1,|M|,|q|,|z|) on the LCP conditions and on z (model at Rat "
                           "vs code); solvability decided exactly on the rationals denoted by the doubles" % ENV)

    cases = []
    # (an anchor change escalates the quick tier to a mid-size run; the explicit thorough tier is larger)
    n_cases = 40000 if ctx.tier == "thorough" else ctx.n(1500 + 800, 10000)
    classes = ["pd", "p", "psd", "cop", "gen"]

    problems = []   # (cls, real, M, q, d, max_iter, qmode, tols)
    dflt = PivOptions()
    DEF_TOLS = (float(dflt.tol_piv), float(dflt.tol_ratio_diff))

    # the instances of quantecon/optimize/tests/test_lcp_lemke.py and the docstring
    fixed = [
        ("p", [[1, 0, 0], [2, 1, 0], [2, 2, 1]], [-8, -12, -14], None),                       # docstring
        ("gen", [[1, -1, -1, -1], [-1, 1, -1, -1], [1, 1, 2, 0], [1, 1, 0, 2]], [3, 5, -9, -5], None),  # Murty 2.8
        ("gen", [[-1, 0, -3], [1, -2, -5], [-2, -1, -2]], [-3, -2, -1], None),                # Murty 2.9 (ray)
        ("gen", [[1, 2, 0], [0, 1, 2], [2, 0, 1]], [-1, -1, -1], None),                       # Kostreva 1
        ("gen", [[1, -1, 3], [2, -1, 3], [-1, -2, 0]], [-1, -1, -1], None),                   # Kostreva 2 (ray)
        ("gen", [[-1.5, 2], [-4, 4]], [-5, 17], [5., 16.]),                                   # Murty 2.11 (ray)
        ("gen", [[-1.5, 2], [-4, 4]], [-5, 17], [1., 1.]),
        ("psd", [[0, -1], [1, 0]], [-1, -1], None),
        ("psd", [[0, 0, -1], [0, 0, 1], [1, -1, 0]], [-1, 1, -2], None),
        ("gen", [[0, 0], [1, -1]], [0, -1], None),      # solvable, but no feasible complementary basis
        # witness of the known finding `psd_ray_rounded_tie_at_solution` (thorough sweep seed 3): PSD M
        # (symmetric part v v', v = (0,1,-1,1)); status 2 after 5 pivots although z = (21,0,42,38) solves the LCP
        ("psd", [[0, 1, 2, -2], [-1, 1, -4, 5], [-2, 2, 1, 0], [2, -3, -2, 1]], [-8, -1, 0, 4], [1.5, 1., 2.5, 2.]),
    ]
    # bimatrix game of the test suite (n = 15)
    A = np.array([[3, 3], [2, 5], [0, 6]])
    B = np.array([[3, 2, 3], [2, 6, 1]])
    m_, n_ = A.shape
    I = np.cumsum([0, m_, n_, m_, m_, n_, n_])
    Mb = np.zeros((3 * m_ + 3 * n_, 3 * m_ + 3 * n_))
    Mb[I[0]:I[1], I[1]:I[2]] = -A + A.max()
    Mb[I[0]:I[1], I[2]:I[3]], Mb[I[0]:I[1], I[3]:I[4]] = 1, -1
    Mb[I[1]:I[2], I[0]:I[1]] = -B + B.max()
    Mb[I[1]:I[2], I[4]:I[5]], Mb[I[1]:I[2], I[5]:I[6]] = 1, -1
    Mb[I[2]:I[3], I[0]:I[1]], Mb[I[3]:I[4], I[0]:I[1]] = -1, 1
    Mb[I[4]:I[5], I[1]:I[2]], Mb[I[5]:I[6], I[1]:I[2]] = -1, 1
    qb = np.zeros(3 * m_ + 3 * n_)
    qb[I[2]:I[3]], qb[I[3]:I[4]] = 1, -1
    qb[I[4]:I[5]], qb[I[5]:I[6]] = 1, -1
    fixed.append(("big", Mb.tolist(), qb.tolist(), None))
    for cls, Mx, q, d in fixed:
        problems.append((cls, "int", np.array(Mx, dtype=float), np.array(q, dtype=float),
                         None if d is None else np.array(d), None, "fixed", None))

    # exhaustive tiny scopes, every run: n = 1 with M[0,0], q in {negative, zero, positive} (and several d);
    # n = 2 with every M in {-1,0,1}^(2x2) (zero / negative diagonals included) and q in {-1,0,1}^2
    for m00 in (-2.0, -1.0, 0.0, 1.0, 3.0):
        for q0 in (-2.0, -1.0, 0.0, 1.0):
            for dv in (None, 0.5, 2.0):
                c1 = "p" if m00 > 0 else ("psd" if m00 == 0 else "gen")
                problems.append((c1, "int", np.array([[m00]]), np.array([q0]),
                                 None if dv is None else np.array([dv]), None, "tiny-n1", None))
    for ent in itertools.product((-1.0, 0.0, 1.0), repeat=4):
        for qv in itertools.product((-1.0, 0.0, 1.0), repeat=2):
            problems.append(("gen", "int", np.array(ent).reshape(2, 2), np.array(qv), None, None, "tiny-n2", None))

    # corpus of past disagreements / findings (runs first)
    import glob
    import json
    import os
    for path in sorted(glob.glob(os.path.join(ctx.corpus_dir, "c11_*.json"))):
        for e in json.load(open(path)):
            problems.append((e["class"], "int", np.array(e["M"], dtype=float), np.array(e["q"], dtype=float),
                             None if e.get("d") is None else np.array(e["d"], dtype=float), e.get("max_iter"),
                             "corpus", None if e.get("tols") is None else tuple(e["tols"])))
            ctx.count("corpus-cases")

    while len(problems) < n_cases:
        n = rng.choice([1, 2, 2, 3, 3, 3, 4, 4, 4, 5, 5, 6, 6])
        u = rng.random()
        if u < 0.12:
            # highly degenerate problems: 0/±1 data, many equal ratios -> deep lexicographic tie-breaking
            kind = rng.choice(["cop01", "gen01", "skew01"])
            if kind == "cop01":
                Mx = _imat(rng, n, n, 0, 1)
                for i in range(n):
                    Mx[i, i] = 1.0
                q = -np.ones(n)
                cls = "cop"
            elif kind == "gen01":
                Mx = _imat(rng, n, n, -1, 1)
                q = np.array([float(rng.choice([-1, -1, 0])) for _ in range(n)])
                cls = "gen"
            else:
                Mx = _skew(rng, n, 1)
                q = np.array([float(rng.choice([-1, -1, 0, 1])) for _ in range(n)])
                cls = "psd"
            mi = None
            tols = None if rng.random() < 0.7 else rng.choice(ALT_TOLS)
            problems.append((cls, "int", np.ascontiguousarray(Mx, dtype=float), q, None, mi, "degenerate", tols))
            continue
        if u < 0.17:
            n = rng.choice([7, 8, 9, 10])     # beyond the property's n<=6: correspondence + success clause only
        cls = rng.choice(classes)
        real = rng.choice(["int", "int", "dyadic", "float"])
        Mx = np.ascontiguousarray(gen_matrix(rng, n, cls, real), dtype=float)
        d = gen_d(rng, n, real)
        q, qmode = gen_q(rng, n, d, real)
        mi = None if rng.random() < 0.8 else rng.choice([0, 1, 2, 3, 4, 6])
        tols = None if rng.random() < 0.6 else rng.choice(ALT_TOLS)
        problems.append((cls, real, Mx, q, d, mi, qmode, tols))

    main_kept = []      # every z returned by the main stream, with its bytes at return time
    for cls, real, Mx, q, d, mi, qmode, tols in problems:
        n = len(q)
        in_before = (Mx.tobytes(), q.tobytes(), None if d is None else d.tobytes())
        as_int = real == "int" and np.all(Mx == np.round(Mx)) and np.all(q == np.round(q)) and rng.random() < 0.15
        try:
            if as_int:
                # the test-suite passes integer arrays: same algorithm on an int64 signature
                res, basis = call_code(lcp_lemke, PivOptions, Mx.astype(np.int64), q.astype(np.int64), d, mi, tols)
                ctx.count("dtype:int64-arrays")
            else:
                res, basis = call_code(lcp_lemke, PivOptions, Mx, q, d, mi, tols)
        except _Skip:
            continue
        tol_piv, tol_diff = DEF_TOLS if tols is None else tols
        tp_bits, td_bits = fx(tol_piv), fx(tol_diff)
        ctx.count("tols:%s" % ("default" if tols is None else "%g,%g" % tols))
        z = np.array(res.z, dtype=float)
        status = int(res.status)
        if (Mx.tobytes(), q.tobytes(), None if d is None else d.tobytes()) != in_before:
            ctx.spec_fail("inputs_mutated", "lcp_lemke modified M, q or d",
                          {"M": Mx.tolist(), "q": q.tolist(), "d": None if d is None else d.tolist()})
        if np.shares_memory(res.z, Mx) or np.shares_memory(res.z, q) or (d is not None and np.shares_memory(res.z, d)) \
                or np.shares_memory(res.z, basis):
            ctx.spec_fail("aliasing_inputs", "returned z shares memory with an input or the basis buffer",
                          {"M": Mx.tolist(), "q": q.tolist()})
        if main_kept and np.shares_memory(res.z, main_kept[-1][0]):
            ctx.spec_fail("aliasing_earlier_result", "returned z shares memory with the previous result", {})
        main_kept.append((res.z, res.z.tobytes(), len(main_kept)))
        dd = np.ones(n) if d is None else d
        mi_eff = 10 ** 6 if mi is None else mi
        # the model is asked for the same run with the iteration limit cut down to num_iter + 1000 when the
        # code stopped earlier: by `lemke_fuel_irrelevant` (Properties/C11.lean) a run that ends with status 0 or 2
        # is the same for every larger limit, so an agreeing model gives the identical answer, while a model that
        # wrongly cycles is stopped (and reported as a mismatch) instead of burning 10^6 exact pivots
        if int(res.status) != 1 and mi_eff > int(res.num_iter) + 1000:
            mi_eff = int(res.num_iter) + 1000
        nontriv = bool((q < 0).any())
        ctx.count("class:%s" % cls)
        ctx.count("data:%s" % real)
        ctx.count("n=%d" % n)
        ctx.count("status=%d" % status)
        ctx.count("qmode:%s" % qmode)
        ctx.count("d:%s" % ("default" if d is None else "given"))
        if not nontriv:
            ctx.count("trivial-exit")
        if int(res.num_iter) > 2 * n:
            ctx.count("long-run(num_iter>2n)")
        negs = [qi / di for qi, di in zip(q, dd) if qi < 0]
        if len(negs) >= 3 and any(negs[i] < negs[i + 1] for i in range(len(negs) - 1)) \
                and any(negs[i] > negs[i + 1] for i in range(len(negs) - 1)):
            ctx.count("first-test:>=3-negative-ratios-non-monotone")

        base = "n=%d M=%s q=%s d=%s maxiter=%d" % (n, fxm(Mx), fxs(q), fxs(dd), mi_eff)
        # 1. Float instance, bit for bit
        cases.append(Case("C11 lemkef %s tolpiv=%s toldiff=%s" % (base, tp_bits, td_bits),
                          canon(res, basis, fxs), nontrivial=nontriv, tag="lemkef"))

        # 2. Rat instance (code's tolerances; and tolerance 0 on a third of the cases)
        scale = max(1.0, float(np.abs(Mx).max()), float(np.abs(q).max()), float(np.abs(z).max()))

        def cmp_rat(mo, impl, scale=scale, n=n):
            a, b = parse_out(mo), parse_out(impl)
            ties = int(a.get("ties", "0"))
            near = int(a.get("near", "0"))
            disc = all(a[k] == b[k] for k in ("success", "status", "num_iter", "basis"))
            if near > ties:
                ctx.count("near-tie-runs(no exact tie, margin < 1e-9 rel.)" if ties == 0 else "near-tie-runs(with ties)")
            if not disc:
                # exact path comparison only on runs whose every ratio / pivot-threshold comparison has an exact
                # margin above 1e-9 (relative): there rounding (1e-16) cannot change a decision.  Ties and
                # near-ties may legitimately be resolved differently by the floating-point code.
                if ties > 0:
                    ctx.count("rat-vs-code:tie-broken-differently")
                    return None
                if near > 0:
                    ctx.count("rat-vs-code:near-tie-broken-differently")
                    return None
                return "discrete outputs differ on a run without ties or near-ties"
            ctx.count("rat-vs-code:same-path" + ("(ties)" if ties else ""))
            if ties:
                ctx.count("lexico-tie-runs")
            za = parse_rats(a["z"])
            zb = parse_rats(b["z"])
            for u, v in zip(za, zb):
                if abs(u - v) > Fraction(ENV) * Fraction(scale):
                    return "z differs by %g > envelope" % float(abs(u - v))
            return None

        zero_tol = (tol_piv == 0.0)
        if zero_tol:
            # the code run with tolerance exactly 0 pivots on rounding noise (an exact 0 that comes out as 1e-17
            # counts as positive): only the bit-exact Float comparison is meaningful, no exact reference, no spec
            ctx.count("zero-tolerance-runs(bit-exact comparison only)")
            continue
        cases.append(Case("C11 lemke %s tolpiv=%s toldiff=%s" % (base, tp_bits, td_bits),
                          canon(res, basis, fxs), nontrivial=nontriv, cmp=cmp_rat, tag="lemke"))
        if real != "float" and rng.random() < 0.5:
            # the theorems' setting (tolerances 0) against the code at its tolerances: same path on exactly
            # representable small data, where distinct ratios differ by far more than the tolerances
            cases.append(Case("C11 lemke %s tolpiv=0 toldiff=0" % base,
                              canon(res, basis, fxs), nontrivial=nontriv, cmp=cmp_rat, tag="lemke-tol0"))

        # 3. first ratio test, observed through max_iter=1
        if nontriv and rng.random() < 0.5:
            try:
                r1, b1 = call_code(lcp_lemke, PivOptions, Mx, q, d, 1, tols)
            except _Skip:
                continue
            rows = [i for i in range(n) if b1[i] == 2 * n]
            impl = str(rows[0]) if len(rows) == 1 else "ERR:%s" % rows
            cases.append(Case("C11 firstrowf n=%d q=%s d=%s toldiff=%s" % (n, fxs(q), fxs(dd), td_bits), impl,
                              tag="firstrowf"))
            if tol_diff == 0.0 or real != "float":
                # exact instance: same choice when the code runs with tolerance 0, or on exactly representable
                # ratios' data (no near-ties below the tolerance)
                cases.append(Case("C11 firstrow n=%d q=%s d=%s toldiff=%s" % (n, fxs(q), fxs(dd), td_bits), impl,
                                  tag="firstrow-rat"))
            # spec: the chosen row minimises q_i/d_i exactly (tolerance 1e-15 absolute)
            rat = [Fraction(float(q[i])) / Fraction(float(dd[i])) for i in range(n)]
            if len(rows) == 1 and rat[rows[0]] > min(rat) + Fraction(max(tol_diff, 1e-15)) * 2 * n:
                ctx.spec_fail("first_ratio_test", "first pivot row %d does not minimise q_i/d_i" % rows[0],
                              {"M": Mx.tolist(), "q": q.tolist(), "d": dd.tolist()})

        # ---- spec run on the code's output (exact) ---------------------------------
        Mq = [[Fraction(float(v)) for v in row] for row in Mx]
        qq = [Fraction(float(v)) for v in q]
        replay = {"class": cls, "M": Mx.tolist(), "q": q.tolist(), "d": None if d is None else d.tolist(),
                  "max_iter": mi, "tol_piv": tol_piv, "tol_ratio_diff": tol_diff, "z": z.tolist(), "status": status, "num_iter": int(res.num_iter)}
        if bool(res.success) != (status == 0):
            ctx.spec_fail("success_status", "success flag and status disagree", replay)
        if res.success:
            if not np.all(np.isfinite(z)):
                ctx.spec_fail("success_solves", "success with non-finite z", replay)
            else:
                zq = [Fraction(float(v)) for v in z]
                mz, mw, comp = lcp_residuals(Mq, qq, zq)
                eps = Fraction(ENV) * Fraction(scale)
                if mz < -eps or mw < -eps or comp > eps * max(1, n):
                    ctx.spec_fail("success_solves",
                                  "success but min z=%g, min(Mz+q)=%g, |z.(Mz+q)|=%g" % (
                                      float(mz), float(mw), float(comp)), replay)
                else:
                    ctx.count("spec:success-verified")
        if mi is None:
            if status == 1:
                # (not a clause of the property; with the library's default tolerances it would still be worth a
                #  look.  With a tie tolerance below the rounding noise exact ties are missed and Lemke's method
                #  can cycle -- counted only.)
                if tols is None:
                    ctx.spec_fail("iteration_limit", "10^6 iterations exhausted (cycling) at default tolerances",
                                  replay)
                else:
                    ctx.count("nondefault-tol:cycling-10^6-iterations")
            # completeness clauses: judged at the library's default tolerances only.  A user-supplied tie
            # tolerance below the rounding noise of the ratios (1e-15) defeats the lexicographic rule (exact ties
            # are not recognised) and the run may end on a ray at a degenerate vertex; such runs are counted.
            dflt_run = tols is None
            if cls in ("pd", "p", "cop") and status != 0:
                if dflt_run:
                    ctx.spec_fail("solvable_class_" + cls, "status %d on a %s matrix" % (status, cls), replay)
                else:
                    ctx.count("nondefault-tol:status-%d-on-%s" % (status, cls))
            if status == 2 and cls in ("psd", "gen") and n > 6:
                ctx.count("ray:n>6:not-enumerated")
            if status == 2 and cls in ("psd", "gen") and n <= 6:
                solv, how = lcp_solvable(Mq, qq)
                ctx.count("ray:%s:%s:%s" % (cls, "solvable" if solv else "unsolvable", how))
                if cls == "psd" and solv:
                    if dflt_run:
                        # Narrow known finding `psd_ray_rounded_tie_at_solution`: ONLY when (a) the exact Rat model
                        # on the same line succeeds and met a tie / near-tie on its path, and (b) the z returned by
                        # the code already satisfies the LCP within the slack of the success clause (the artificial
                        # variable is basic at level ~0: a tie involving it was missed because the tied ratios,
                        # rounded, differ by more than the absolute tol_ratio_diff).  Everything else keeps the
                        # generic key.
                        key = "psd_ray_but_solvable"
                        what = "status 2 on a PSD matrix although a solution exists"
                        if np.all(np.isfinite(z)):
                            mz_, mw_, comp_ = lcp_residuals(Mq, qq, [Fraction(float(v)) for v in z])
                            eps_ = Fraction(ENV) * Fraction(scale)
                            z_solves = not (mz_ < -eps_ or mw_ < -eps_ or comp_ > eps_ * max(1, n))
                            if z_solves:
                                mo = ctx.driver(["C11 lemke %s tolpiv=%s toldiff=%s" % (base, tp_bits, td_bits)])[0]
                                a_ = parse_out(mo) if mo.startswith("success=") else {}
                                if a_.get("status") == "0" and (int(a_.get("ties", "0")) >= 1
                                                                or int(a_.get("near", "0")) >= 1):
                                    key = "psd_ray_rounded_tie_at_solution"
                                    what = ("status 2 on a PSD matrix, but the returned z=%s already solves the LCP "
                                            "(artificial variable basic at level 0): an exact tie of the ratio test "
                                            "(exact run: status 0, ties=%s near=%s) was not recognised in double "
                                            "arithmetic (absolute tol_ratio_diff)" % (
                                                z.tolist(), a_.get("ties"), a_.get("near")))
                        ctx.spec_fail(key, what, replay)
                    else:
                        ctx.count("nondefault-tol:psd-ray-but-solvable")
            if status == 0 and cls == "psd":
                ctx.count("psd:solved")
        else:
            ctx.count("max_iter=%d" % mi)

    # ---- caller-supplied buffers (tableau=, basis=, z=) and call histories --------------------------------
    # The optional arguments are work/output arrays: pre-filled with garbage / NaN / the results of earlier
    # solves and reused over a sequence of same-size problems (trivial -> non-trivial -> trivial ...).
    # Checked on every call: res.z IS the supplied buffer; M, q, d bitwise unchanged; result bit-identical to a
    # fresh call without buffers; exact LCP oracle on the returned z; model `lemkefb` (prior content on the wire).
    def bits(a):
        return np.ascontiguousarray(a, dtype=float).view(np.uint64).copy()

    def dirty(arr, how, rs):
        if how == "nan":
            arr[...] = np.nan
        elif how == "garbage":
            arr[...] = rs.uniform(-1e6, 1e6, size=arr.shape)
        elif how == "ones":
            arr[...] = 1.0
        # "keep": leave what the previous solve left there

    rs = ctx.np_rng()
    for _ in range(ctx.n(80, 1200)):
        n = rng.choice([1, 1, 2, 2, 3, 4, 5])
        zbuf = np.empty(n)
        Tbuf = np.empty((n, 2 * n + 2))
        bbuf = np.empty(n, dtype=np.int_)
        dirty(zbuf, rng.choice(["nan", "garbage", "ones"]), rs)
        dirty(Tbuf, rng.choice(["nan", "garbage"]), rs)
        bbuf[:] = rs.randint(-5, 3 * n + 5, size=n)
        for step in range(rng.randint(2, 6)):
            cls = rng.choice(classes)
            real = rng.choice(["int", "dyadic", "float"])
            Mx = np.ascontiguousarray(gen_matrix(rng, n, cls, real), dtype=float)
            d = gen_d(rng, n, real)
            if rng.random() < 0.45:
                q = np.array([float(rng.randint(0, 4)) for _ in range(n)])      # trivial branch
            else:
                q, _qm = gen_q(rng, n, d, real)
            trivial = not bool((q < 0).any())
            dirty(zbuf, rng.choice(["keep", "keep", "nan", "garbage"]), rs)
            dirty(Tbuf, rng.choice(["keep", "keep", "nan"]), rs)
            if rng.random() < 0.3:
                bbuf[:] = rs.randint(-5, 3 * n + 5, size=n)
            mi = None if rng.random() < 0.8 else rng.choice([1, 2, 3])
            kw = {} if mi is None else {"max_iter": mi}
            prior_z, prior_T, prior_b = zbuf.copy(), Tbuf.copy(), bbuf.copy()
            M0, q0, d0 = bits(Mx), bits(q), (None if d is None else bits(d))
            try:
                res = lcp_lemke(Mx, q, d, tableau=Tbuf, basis=bbuf, z=zbuf, **kw)
                fresh = lcp_lemke(Mx.copy(), q.copy(), None if d is None else d.copy(), **kw)
            except _Skip:
                continue
            ctx.count("buffers:%s-branch" % ("trivial" if trivial else "pivoting"))
            ctx.count("buffers:status=%d" % int(res.status))
            rp = {"M": Mx.tolist(), "q": q.tolist(), "d": None if d is None else d.tolist(), "max_iter": mi,
                  "z_buffer_before": [repr(float(v)) for v in prior_z], "z_returned": [repr(float(v)) for v in res.z],
                  "status": int(res.status), "call": "lcp_lemke(M, q, d, tableau=T, basis=b, z=zbuf)"}
            # 1. the returned z is the caller's buffer
            if res.z.ctypes.data != zbuf.ctypes.data or not np.shares_memory(res.z, zbuf):
                ctx.spec_fail("buffer_identity", "res.z is not the supplied z buffer", rp)
            # 2. inputs untouched
            if not (np.array_equal(bits(Mx), M0) and np.array_equal(bits(q), q0)
                    and (d is None or np.array_equal(bits(d), d0))):
                ctx.spec_fail("inputs_mutated", "lcp_lemke modified M, q or d", rp)
            # 3. same answer as a call without buffers, bit for bit
            same = (int(fresh.status) == int(res.status) and int(fresh.num_iter) == int(res.num_iter)
                    and bool(fresh.success) == bool(res.success)
                    and np.array_equal(bits(fresh.z), bits(res.z)))
            if not same:
                ctx.spec_fail("buffer_dependence",
                              "result depends on the prior content of the buffers: with buffers z=%s status=%d, "
                              "without z=%s status=%d" % (res.z.tolist(), res.status, fresh.z.tolist(), fresh.status),
                              rp)
            # 4. exact LCP oracle on what the caller gets back
            if res.success:
                zz = np.array(res.z, dtype=float)
                if not np.all(np.isfinite(zz)):
                    ctx.spec_fail("success_solves_buffered", "success with non-finite z in the caller's buffer", rp)
                else:
                    Mq = [[Fraction(float(v)) for v in row] for row in Mx]
                    qq = [Fraction(float(v)) for v in q]
                    mz, mw, comp = lcp_residuals(Mq, qq, [Fraction(float(v)) for v in zz])
                    scale = max(1.0, float(np.abs(Mx).max()), float(np.abs(q).max()), float(np.abs(zz).max()))
                    eps = Fraction(ENV) * Fraction(scale)
                    if mz < -eps or mw < -eps or comp > eps * max(1, n):
                        ctx.spec_fail("success_solves_buffered",
                                      "success but min z=%g, min(Mz+q)=%g, |z.(Mz+q)|=%g (caller-supplied z buffer)"
                                      % (float(mz), float(mw), float(comp)), rp)
                    else:
                        ctx.count("buffers:success-verified")
            if trivial and not np.array_equal(bits(res.z), np.zeros(n, dtype=np.uint64)):
                ctx.spec_fail("trivial_branch_z", "q >= 0 but the returned z is not the zero vector", rp)
            # 5. the model with the same prior buffer contents
            dd = np.ones(n) if d is None else d
            mi_eff = 10 ** 6 if mi is None else mi
            if int(res.status) != 1 and mi_eff > int(res.num_iter) + 1000:
                mi_eff = int(res.num_iter) + 1000
            bstr = "-" if trivial else ",".join(str(int(v)) for v in bbuf)
            impl = "success=%d status=%d num_iter=%d basis=%s z=%s" % (
                1 if res.success else 0, int(res.status), int(res.num_iter), bstr, fxs(res.z))
            line = ("C11 lemkefb n=%d M=%s q=%s d=%s maxiter=%d tolpiv=%s toldiff=%s tbuf=%s bbuf=%s zbuf=%s" % (
                n, fxm(Mx), fxs(q), fxs(dd), mi_eff, fx(DEF_TOLS[0]), fx(DEF_TOLS[1]), fxm(prior_T),
                ",".join(str(int(v)) for v in prior_b), fxs(prior_z)))
            cases.append(Case(line, impl, nontrivial=True, tag="lemkefb"))
            # 6. only the z buffer supplied (dirty copy): same requirements
            if rng.random() < 0.4:
                z2 = prior_z.copy() if rng.random() < 0.5 else np.full(n, np.nan)
                try:
                    r2 = lcp_lemke(Mx, q, d, z=z2, **kw)
                except _Skip:
                    continue
                if r2.z.ctypes.data != z2.ctypes.data:
                    ctx.spec_fail("buffer_identity", "res.z is not the supplied z buffer (z= only)", rp)
                if not np.array_equal(bits(r2.z), bits(fresh.z)) or int(r2.status) != int(fresh.status):
                    ctx.spec_fail("buffer_dependence", "z= only: result depends on the prior content of z: %s vs %s"
                                  % (r2.z.tolist(), fresh.z.tolist()), dict(rp, call="lcp_lemke(M, q, d, z=zbuf)"))
                ctx.count("buffers:z-only-calls")

    # every result of the main stream, re-judged after all the later calls of this process
    def rejudge_main(when):
        for arr, b0, k in main_kept:
            if arr.tobytes() != b0:
                ctx.spec_fail("history_result_changed", "the z returned by main-stream call #%d changed (%s)" % (k, when),
                              {"z_at_return": np.frombuffer(b0).tolist(), "z_now": arr.tolist()})
                break
    rejudge_main("after the buffer histories")

    # ---- argument forms x histories x aliasing (hardening round) -----------------------------------------
    forms_stream(ctx, lcp_lemke, PivOptions, cases, DEF_TOLS, classes)

    # ---- out-of-domain covering vectors (d has zero / negative entries: documented as "must be strictly
    # positive", not checked by the code): no exception path exists; the Float instance must still follow the
    # code, bit for bit, NaNs compared as NaNs.  No spec (outside the property's quantifier).
    def cmp_nan(mo, impl):
        a, b = parse_out(mo), parse_out(impl)
        for k in ("success", "status", "num_iter", "basis"):
            if a[k] != b[k]:
                return "%s differs" % k
        za, zb = a["z"].split(","), b["z"].split(",")
        if len(za) != len(zb):
            return "length of z differs"
        for u, v in zip(za, zb):
            if u != v:
                fu, fv = _unfx(u), _unfx(v)
                if not (fu != fu and fv != fv):
                    return "z bits differ"
        return None

    for _ in range(ctx.n(60, 1500)):
        n = rng.choice([1, 2, 3, 4, 5])
        cls = rng.choice(classes)
        Mx = np.ascontiguousarray(gen_matrix(rng, n, cls, "int"), dtype=float)
        d = np.array([float(rng.choice([0, 0, -1, 1, 2, -2])) for _ in range(n)])
        q, qmode = gen_q(rng, n, np.ones(n), "int")
        mi = rng.choice([None, None, 50, 3])
        base = "n=%d M=%s q=%s d=%s maxiter=%d" % (n, fxm(Mx), fxs(q), fxs(d), 200 if mi is None else mi)
        line = "C11 lemkef %s tolpiv=%s toldiff=%s" % (base, fx(DEF_TOLS[0]), fx(DEF_TOLS[1]))
        lcp_lemke.allowed = (ZeroDivisionError,)
        try:
            with np.errstate(all="ignore"):
                res, basis = call_code(lcp_lemke, PivOptions, Mx, q, d, 200 if mi is None else mi, None)
        except _Skip:
            lcp_lemke.allowed = ()
            continue
        except ZeroDivisionError:
            lcp_lemke.allowed = ()
            # Numba's python error model: q[i]/d[i] with d[i] == 0
            ctx.count("bad-d:ZeroDivisionError")
            cases.append(Case(line, "ERR:ZeroDivisionError", tag="lemkef-bad-d"))
            cases.append(Case(line.replace("C11 lemkef", "C11 lemke"), "ERR:ZeroDivisionError", tag="lemke-bad-d"))
            continue
        lcp_lemke.allowed = ()
        ctx.count("bad-d:status=%d" % int(res.status))
        if not np.all(np.isfinite(res.z)):
            ctx.count("bad-d:non-finite-z")
        cases.append(Case(line, canon(res, basis, fxs), nontrivial=bool((q < 0).any()), cmp=cmp_nan,
                          tag="lemkef-bad-d"))

    # malformed requests must be rejected by the model driver, never answered with a default
    for bad in ["C11 lemke n=2 M=1,0;0,1 q=-1 d=1,1 maxiter=5 tolpiv=0 toldiff=0",
                "C11 lemke n=0 M=- q=- d=- maxiter=5 tolpiv=0 toldiff=0",
                "C11 lemkef n=2 M=1,0;0,1 q=-1,2 d=1,1 maxiter=5",
                "C11 lemkefi n=1 M=x3ff0000000000000 q=xbff0000000000000 d=x3ff0000000000000 maxiter=1.5 "
                "tolpiv=x3e7ad7f29abcaf48 toldiff=x3d3c25c268497682",
                "C11 lemkefi n=1 M=x3ff0000000000000 q=xbff0000000000000 d=x3ff0000000000000 "
                "tolpiv=x3e7ad7f29abcaf48 toldiff=x3d3c25c268497682",
                "C11 nosuchop n=1"]:
        out = ctx.driver([bad])[0]
        ctx.count("malformed-request:" + out)
        if out != "bad-op":
            ctx.mismatches.append({"request": bad, "code": "bad-op", "model": out, "why": "malformed request answered"})

    rejudge_main("end of run")
    ctx.extra["kept_results_rejudged"] = ctx.extra.get("kept_results_rejudged", 0) + len(main_kept)
    ctx.run_cases(cases)
    nf = sum(1 for c in cases if c.tag in ("lemkef", "lemkef-bad-d", "firstrowf"))
    bad = sum(1 for m in ctx.mismatches if str(m.get("request", "")).split(" ")[1:2] in (["lemkef"], ["firstrowf"]))
    ctx.extra["trace_fidelity"] = {"float_instance_cases": nf, "bit_identical": nf - bad,
                                   "note": "model at IEEE doubles vs the Numba kernels: status, num_iter, basis and "
                                           "the bits of z"}
